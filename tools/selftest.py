#!/usr/bin/env python3
"""Validate MANIFEST.json and every evidence file against the schemas (run with python3-vt, which has jsonschema)."""
import json, glob, os, sys
import jsonschema
ROOT = os.path.dirname(os.path.dirname(os.path.abspath(__file__)))
ms = json.load(open("/root/.vp/MANIFEST.schema.json"))
es = json.load(open("/root/.vp/EVIDENCE.schema.json"))
m = json.load(open(os.path.join(ROOT, "MANIFEST.json")))
jsonschema.validate(m, ms)
props = [json.loads(l)["id"] for l in open(os.path.join(ROOT, "properties.jsonl"))]
claimed = [c["property_id"] for c in m["checks"]]
na = [n["property_id"] for n in m.get("not_applicable", [])]
assert sorted(claimed + na) == sorted(props), (claimed, na)
bad = 0
for c in m["checks"]:
    p = c["evidence_file"]
    if not os.path.exists(p):
        print("MISSING", p); bad += 1; continue
    e = json.load(open(p))
    try:
        jsonschema.validate(e, es)
    except jsonschema.ValidationError as ex:
        print("INVALID", p, ex.message[:200]); bad += 1; continue
    assert e["property_id"] == c["property_id"]
    assert e["level"] == c["level_claimed"]["category"], (c["property_id"], e["level"], c["level_claimed"]["category"])
    cov = e["coverage"]
    print(f"{e['property_id']} {e['tier']:8} {e['level']:18} evals={cov.get('evaluations'):>10} nontrivial={cov.get('distinct_nontrivial'):>8} "
          f"states={cov.get('states', '-')} viol={e.get('violations')} wall={e['wall_s']}s")
print("manifest and", len(m["checks"]), "evidence files valid" if not bad else f"{bad} PROBLEMS")
sys.exit(1 if bad else 0)
