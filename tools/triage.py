#!/venv/bin/python
"""Run one check's run() in-process and print one example per signature class."""
import sys, json, os
sys.path.insert(0, '/verif')
os.environ.setdefault("PYTHONHASHSEED", "0")
import importlib, logging
logging.disable(logging.CRITICAL)
from mc.runner import Ctx
prop, tier = sys.argv[1], (sys.argv[2] if len(sys.argv) > 2 else "quick")
grep = sys.argv[3] if len(sys.argv) > 3 else ""
mod = importlib.import_module(f"mc.checks.{prop.lower()}")
res = mod.run(Ctx(prop, tier, 0, None))
t = res["tally"]
for key, vs in t.by_sig.items():
    if grep and grep not in key:
        continue
    v = vs[0]
    print("=" * 100)
    print(t.sig_counts[key], key)
    print(" case:", json.dumps(v["case"])[:600])
    print(" expected:", json.dumps(v["expected"])[:400])
    print(" observed:", json.dumps(v["observed"])[:400])
    print(" note:", v["note"][:300])
