#!/bin/sh
# usage: tools/try_patch.sh <patch.diff> [tier] C01 C02 ...   -- apply to /repo, run checks, always revert
patch="$1"; shift
tier=quick
case "$1" in quick|thorough) tier="$1"; shift;; esac
cd /verif || exit 2
if ! git -C /repo diff --quiet; then echo "/repo has local changes; refusing"; exit 2; fi
git -C /repo apply "$patch" || { echo "patch does not apply"; exit 2; }
trap 'git -C /repo checkout -- . ; git -C /repo clean -fdq' EXIT INT TERM
for c in "$@"; do
  out=$(VERIF_OUT=/tmp/m/tryout ./check "$c" --tier "$tier" 2>&1); rc=$?
  echo "== $c rc=$rc"; echo "$out" | grep -E "VIOLATION|KNOWN|^\[C" | head -6
done
