#!/usr/bin/env python3
"""Regenerate MANIFEST.json from the table below (keeps it valid and consistent)."""
import json, os, sys
ROOT = os.path.dirname(os.path.dirname(os.path.abspath(__file__)))
sys.path.insert(0, ROOT)
from tools.manifest_table import CHECKS, NOT_APPLICABLE, HOOK_COMMITS  # noqa: E402

props = [json.loads(l) for l in open(os.path.join(ROOT, "properties.jsonl"))]
ids = [p["id"] for p in props]
checks = []
for pid in ids:
    if pid not in CHECKS:
        continue
    c = CHECKS[pid]
    checks.append({
        "property_id": pid,
        "quick_cmd": f"./check {pid} --tier quick",
        "thorough_cmd": f"./check {pid} --tier thorough",
        "evidence_file": f"/verif/evidence/{pid}.json",
        "replay_cmd_template": f"./check {pid} --replay {{path}}",
        "engine": "mc",
        "level_claimed": {"category": c["level"], "text": c["text"], "design_ref": f"DESIGN.md section 5, {pid}"},
        "level_note": c["note"],
        "technique": c["technique"],
    })
na = [{"property_id": pid, "reason": NOT_APPLICABLE.get(pid, "check not built yet in this round (planned, see DESIGN.md section 9)")}
      for pid in ids if pid not in CHECKS]
manifest = {
    "version": 1,
    "setup_cmd": "mkdir -p evidence replays .work && /venv/bin/python -m compileall -q mc >/dev/null 2>&1; /venv/bin/python -c 'import space_packet_parser, mc.runner'",
    "hooks": {
        "guard": "SPP_VERIF",
        "enable": "no hooks are needed: checks import the editable install of /repo's working tree and use harness-side seams only (scripted socket subclass, frame inspection, owned clock, AST rewrite of a private copy of packets.py)",
        "baseline_off_cmd": "cd /repo && /venv/bin/python -m pytest -ra -q -p no:cacheprovider --timeout=900 --continue-on-collection-errors",
        "source_commits": HOOK_COMMITS,
        "add_only": True,
    },
    "engines": [{
        "name": "mc",
        "path": "/verif/mc",
        "serves_properties": [c["property_id"] for c in checks],
        "kind_free_text": "hand-written bounded-exhaustive explorer for Python: explicit-state search over environment choices of the real framer (state hashing on generator frames + stateless cross-check), exhaustive history/interleaving enumeration, exhaustive program x input product enumeration against an independent reference interpreter, exhaustive (or preemption-bounded) enumeration of the interleavings of real threads under a baton scheduler (mc/threadexplore.py); every check is repeated by a second interpreter (python -O, C locale) on a stated share of its partitions",
    }],
    "checks": checks,
    "not_applicable": na,
    "notes": "Every check drives the real library through its public API inside a stated finite bound and compares every execution with an independent reference model; see DESIGN.md (section 10.2 for what was added during the build: the second interpreter, kernel E-thread, the caller-environment dimensions). known_findings.json lists repaired defects (status fixed, suppress nothing) and recorded findings (status known).",
}
if not na:
    manifest["not_applicable"] = []
with open(os.path.join(ROOT, "MANIFEST.json"), "w") as f:
    json.dump(manifest, f, indent=1)
print("MANIFEST.json:", len(checks), "checks,", len(na), "not applicable")
