#!/usr/bin/env python3
"""Confirm a seeded change and run the checks against it.

usage: tools/eval_seeded.py <src dir with patch.diff, demo_test.py, meta.json> <seed id> [--checks C01,C02|all] [--tier quick]

1. in a scratch worktree outside /repo and /verif: the patch applies, the repository's own suite still
   passes with it, the demonstration fails with it and passes without it;
2. the patch is applied to /repo, the requested checks run, and /repo is restored straight afterwards;
3. everything is recorded in /verif/seeded/<seed id>/ (patch.diff, demo_test.py, meta.json).
"""
import json
import os
import shutil
import subprocess
import sys
import time

VERIF = os.path.dirname(os.path.dirname(os.path.abspath(__file__)))
ALL = [f"C{i:02d}" for i in range(1, 21)]


def sh(cmd, cwd=None, env=None, timeout=3600):
    p = subprocess.run(cmd, shell=True, cwd=cwd, env=env, capture_output=True, text=True, timeout=timeout)
    return p.returncode, (p.stdout + p.stderr)


def main():
    src, sid = sys.argv[1], sys.argv[2]
    checks = None
    tier = "quick"
    for i, a in enumerate(sys.argv):
        if a == "--checks":
            checks = ALL if sys.argv[i + 1] == "all" else sys.argv[i + 1].split(",")
        if a == "--tier":
            tier = sys.argv[i + 1]
    meta = json.load(open(os.path.join(src, "meta.json"))) if os.path.exists(os.path.join(src, "meta.json")) else {}
    prop = meta.get("property", sid.split("-")[0])
    if checks is None:
        checks = [prop]
    patch = os.path.abspath(os.path.join(src, "patch.diff"))
    demo = os.path.abspath(os.path.join(src, "demo_test.py"))
    wt = f"/tmp/wt/verify_{sid}"
    sh(f"git -C /repo worktree remove --force {wt}")
    rc, out = sh(f"git -C /repo worktree add -q --detach {wt} HEAD")
    assert rc == 0, out
    env = dict(os.environ, PYTHONPATH=wt, PYTHONDONTWRITEBYTECODE="1")
    res = {"confirmed_at": time.strftime("%Y-%m-%dT%H:%M:%S"), "repo_head": sh("git -C /repo rev-parse --short HEAD")[1].strip()}
    detected, silent = {}, []
    try:
        rc, out = sh(f"git apply {patch}", cwd=wt)
        res["patch_applies"] = rc == 0
        if rc != 0:
            res["error"] = out[-500:]
            raise SystemExit
        rc, out = sh("/venv/bin/python -m pytest -q -p no:cacheprovider --timeout=900 -x 2>&1 | tail -3", cwd=wt, env=env)
        res["suite_with_change"] = out.strip().splitlines()[-1] if out.strip() else ""
        res["suite_passes_with_change"] = "275 passed" in out and "failed" not in out
        rc1, out1 = sh(f"/venv/bin/python -m pytest -q -p no:cacheprovider -p no:randomly {demo} 2>&1 | tail -3", cwd=wt, env=env)
        res["demo_with_change"] = out1.strip().splitlines()[-1] if out1.strip() else ""
        res["demo_fails_with_change"] = "failed" in out1 or "error" in out1.lower()
        sh(f"git apply -R {patch}", cwd=wt)
        rc2, out2 = sh(f"/venv/bin/python -m pytest -q -p no:cacheprovider -p no:randomly {demo} 2>&1 | tail -3", cwd=wt, env=env)
        res["demo_without_change"] = out2.strip().splitlines()[-1] if out2.strip() else ""
        res["demo_passes_without_change"] = "passed" in out2 and "failed" not in out2
        res["confirmed"] = bool(res.get("suite_passes_with_change") and res.get("demo_fails_with_change") and res.get("demo_passes_without_change"))
        if res["confirmed"]:
            # run the checks against the scratch worktree with the change applied (same code path as /repo: the checks import
            # whatever PYTHONPATH puts first; SPP_REPO points the file-based parts at the same tree); /repo itself is not touched
            sh(f"git apply {patch}", cwd=wt)
            cenv = dict(os.environ, PYTHONPATH=wt, SPP_REPO=wt, VERIF_OUT=f"/tmp/wtout/evalout_{sid}", PYTHONDONTWRITEBYTECODE="1")
            for c in checks:
                t0 = time.time()
                rc, out = sh(f"./check {c} --tier {tier}", cwd=VERIF, env=cenv, timeout=7200)
                viol = [ln for ln in out.splitlines() if ln.startswith("VIOLATION")]
                classes = [ln.strip()[:260] for ln in out.splitlines() if ln.strip().startswith("class ")][:4]
                if rc != 0 and viol:
                    detected[c] = {"violations_printed": len(viol), "classes": classes, "wall_s": round(time.time() - t0, 1)}
                else:
                    silent.append(c)
    except SystemExit:
        pass
    finally:
        sh(f"git -C /repo worktree remove --force {wt}")
        shutil.rmtree(wt, ignore_errors=True)
        shutil.rmtree(f"/tmp/wtout/evalout_{sid}", ignore_errors=True)
    res.setdefault("confirmed", False)
    res["checks_run"] = checks
    res["tier"] = tier
    res["detected_by"] = detected
    res["not_detected_by"] = silent
    dst = os.path.join(VERIF, "seeded", sid)
    os.makedirs(dst, exist_ok=True)
    shutil.copy(patch, os.path.join(dst, "patch.diff"))
    if os.path.exists(demo):
        shutil.copy(demo, os.path.join(dst, "demo_test.py"))
    meta.update({"id": sid, "property": prop, "what_i_ran": res})
    json.dump(meta, open(os.path.join(dst, "meta.json"), "w"), indent=1)
    print(json.dumps({"id": sid, "confirmed": res["confirmed"], "detected_by": list(detected), "silent": silent,
                      "suite": res.get("suite_with_change"), "demo+": res.get("demo_with_change"), "demo-": res.get("demo_without_change")}))


if __name__ == "__main__":
    main()
