#!/bin/sh
# usage: tools/mut.sh <repo-relative file> '<sed expr>' [tier] C01 ...  -- make a one-off mutant patch and try it
f="$1"; expr="$2"; shift 2
mkdir -p /tmp/m
sed "$expr" "/repo/$f" > /tmp/m/mut.tmp
( cd /repo && diff -u "$f" /tmp/m/mut.tmp | sed "1s#.*#--- a/$f#; 2s#.*#+++ b/$f#" ) > /tmp/m/mut.diff
if [ ! -s /tmp/m/mut.diff ]; then echo "sed expression changed nothing"; exit 2; fi
grep -E '^[-+][^-+]' /tmp/m/mut.diff | head -6
exec /verif/tools/try_patch.sh /tmp/m/mut.diff "$@"
