#!/bin/sh
# usage: tools/mutwt.sh <repo-relative file> '<sed expr>' [--tier thorough] C01 ...
# One-off mutant in a scratch worktree of /repo (never touches /repo itself); the checks run against the worktree.
f="$1"; expr="$2"; shift 2
WT=/tmp/wt/mutwt_$$
mkdir -p /tmp/wt /tmp/m
git -C /repo worktree add -q --detach "$WT" HEAD || exit 2
trap 'git -C /repo worktree remove --force "$WT" >/dev/null 2>&1; git -C /repo worktree prune' EXIT INT TERM
sed -i "$expr" "$WT/$f"
if git -C "$WT" diff --quiet; then echo "sed expression changed nothing"; exit 2; fi
git -C "$WT" diff | grep -E '^[-+][^-+]' | head -6
tier=quick
if [ "$1" = "--tier" ]; then tier="$2"; shift 2; fi
for c in "$@"; do
  PYTHONPATH="$WT" SPP_REPO="$WT" VERIF_OUT=/tmp/m/mutout_$$ /verif/check "$c" --tier "$tier" 2>&1 | grep -E "^\[C|^  class" | cut -c1-220 | head -8
done
rm -rf /tmp/m/mutout_$$
