"""Per-property manifest entries (single source of truth for tools/gen_manifest.py)."""
HOOK_COMMITS = []
NOT_APPLICABLE = {}
CHECKS = {
    "C02": {
        "level": "model_checking",
        "technique": "explicit-state exploration of the real framer under all recv() fragmentations (state-hashed DFS with replay, stateless cross-check) + exhaustive enumeration of read sizes and sources",
        "text": "Every packet sequence of the bound is framed from bytes, file objects with every read size and a scripted socket under EVERY fragmentation; each execution is compared byte for byte with the ten-line framing model. States/transitions/executions are measured. Exhaustive inside the bound, nothing outside it.",
        "note": "Trusts: CPython generator state = locals + instruction pointer (cross-checked by stateless exploration on short streams); scripted socket subclass stands for real sockets; the AST rewrite changes only the integer literal 20000000.",
    },
}
