"""Per-property manifest entries (single source of truth for tools/gen_manifest.py)."""
HOOK_COMMITS = []
NOT_APPLICABLE = {}
CHECKS = {
    "C02": {
        "level": "model_checking",
        "technique": "explicit-state exploration of the real framer under all recv() fragmentations (state-hashed DFS with replay, stateless cross-check) + exhaustive enumeration of read sizes and sources",
        "text": "Every packet sequence of the bound is framed from bytes, file objects with every read size and a scripted socket under EVERY fragmentation; each execution is compared byte for byte with the ten-line framing model. States/transitions/executions are measured. Exhaustive inside the bound, nothing outside it.",
        "note": "Trusts: CPython generator state = locals + instruction pointer (cross-checked by stateless exploration on short streams); scripted socket subclass stands for real sockets; the AST rewrite changes only the integer literal 20000000.",
    },
    "C10": {
        "level": "fault_enumeration",
        "technique": "exhaustive crash-point enumeration: every stream cut at every byte offset for bytes/file sources; explicit-state exploration of the framer over a scripted socket where peer-close is an alternative at every recv() choice point under every fragmentation",
        "text": "Every truncation point of every stream in the bound, every read size, every socket fragmentation combined with a close at every choice point, plus all short/arbitrary byte strings of the bound, are executed on the real generators; each execution must terminate without polling a dead source and yield exactly the greedy framing of the delivered bytes.",
        "note": "Peer close = recv() returning b''; liveness is made visible by counting reads after end-of-data (Livelock) and by an item horizon; SIGALRM only as a last resort.",
    },
    "C03": {
        "level": "exploration",
        "technique": "bounded-exhaustive enumeration of (buffer, position, width) on the real read methods against a bit-string slicing model",
        "text": "All buffers of <= 2 bytes with every (p, n), and every (p, n) window of longer buffers over a content family that includes every filling of the bits around both window edges, are read with both read methods; value, type, cursor and buffer are compared with string slicing. Exhaustive within the bound.",
        "note": "Values above 2 bytes are covered structurally (edge fillings, walking bits, patterns), not for all 2^(8*len) contents.",
    },
    "C13": {
        "level": "exploration",
        "technique": "bounded-exhaustive enumeration of header words, data lengths and boundary products through create_ccsds_packet, the accessors and the framer against a string-formatting model",
        "text": "All 2^16 values of each 16-bit header word, every (quick: a boundary family of) data length, the full product of boundary values of all fields, the decode direction for every 16-bit word value, and the rejection cases are executed and compared with an independent layout model.",
        "note": "The joint space of all seven fields (2^48) is covered per 16-bit word and by boundary products, not jointly.",
    },
    "C04": {
        "level": "exploration",
        "technique": "bounded-exhaustive enumeration of (encoding configuration, bit offset, bit pattern) through load + parse against an exact-arithmetic reference interpreter",
        "text": "Every integer width 1..72 and 128 in every signedness/byte-order, and every supported float format, is decoded from generated XTCE documents at every bit offset, for all bit patterns of narrow fields (all 2^16 binary16 patterns) and a boundary/walking family for wide ones; values, kinds, raw values and the following sentinel are compared with the reference.",
        "note": "Wide fields are covered structurally, not for all 2^w patterns; the oracle uses Fraction arithmetic, not struct.",
    },
    "C06": {
        "level": "exploration",
        "technique": "exhaustive truth-table enumeration of Comparison/Condition/BooleanExpression/DiscreteLookup through the public evaluate() API, every interleaving of two real threads evaluating one criterion object (baton scheduler, packet accesses as yield points), plus the same criteria as RestrictionCriteria in generated documents routed through the real container walk, against a mathematical reference",
        "text": "The full truth table of all six relations in all 16 spellings over value/raw/literal alphabets that contain falsy values and int-vs-float pairs, every AND/OR tree up to the bound under every assignment, and several hundred restriction criteria of every form (read from XML and built from objects) over a packet family are evaluated; each result must be exactly True/False as the relation dictates.",
        "note": "Literals that cannot be coerced, bytes operands and references to not-yet-decoded parameters are unspecified and outside the alphabet.",
    },
    "C08": {
        "level": "exploration",
        "technique": "bounded-exhaustive enumeration of calibrator/enumeration/boolean/time configurations x all raw values of the field through load + parse, against exact rational evaluation",
        "text": "Every polynomial and spline of the stated grammar, every context-calibrator list of <= 2 over a 6-criterion alphabet with and without a default, and the enumeration/boolean/time derivations (also over calibrated encodings) are loaded from generated documents and queried at every raw value of the field (all knots, both end points, both outside regions); value, kind, raw value and exception class are compared with the reference.",
        "note": "Calibrated results are compared with a tolerance of max(4 ulp, 16 eps x operand magnitude) so that any correct evaluation order passes; NaN/inf raws through calibrators are unspecified.",
    },
    "C07": {
        "level": "exploration",
        "technique": "bounded-exhaustive enumeration of string/binary encoding configurations x bit offsets x content alphabets through load + parse, against a character-level reference decoder",
        "text": "Every combination of 12 charset/byte-order configurations, six ways of delimiting, fixed/looked-up/referenced lengths with every adjustment, and every content over a 5-symbol alphabet (plus every binary length 0..40 bits) is decoded from generated documents at several bit offsets; value, raw buffer, following sentinel and cursor are compared with the reference.",
        "note": "Unspecified corners (buffer without terminator, size tag beyond the unpadded buffer, terminator found only in padding bits) are enumerated but not judged; Python codecs are trusted as character tables.",
    },
    "C14": {
        "level": "exploration",
        "technique": "bounded-exhaustive enumeration of layouts x packet lengths x length-field values through packet_generator, against reference bit accounting",
        "text": "For every fixed and length-dependent layout of the bound, every data length from 1 byte to 3 bytes beyond what the layout needs, every LEN value and both parse_bad_pkts settings, the generator's behaviour is classified (clean / flagged / withheld / raised) and compared with the reference: clean iff well-formed and exactly consumed, otherwise flagged-or-raised (or withheld-or-raised).",
        "note": "'Flagged' means any warning emitted while the packet is processed (not a message match).",
    },
    "C05": {
        "level": "exploration",
        "technique": "bounded-exhaustive enumeration of container trees x criteria assignments x abstract flags x nesting x document order, each run on the full APID x SEL packet product through parse_ccsds_packet and the generator, against a reference container walk",
        "text": "Every tree of the bound with every criteria assignment from a 7-element alphabet (including overlapping criteria and missing RestrictionCriteria), abstract flags, nested references, both document orders and both header namings is loaded; 16 packets steer into every branch, dead end and ambiguity; items, order, header/user_data views, partial data of unrecognized packets and skipping are compared with the reference walk.",
        "note": "Documents that decode the same parameter twice on one path are enumerated but not judged (unspecified).",
    },
    "C01": {
        "level": "exploration",
        "technique": "bounded-exhaustive enumeration of documents (all ordered pairs / core triples of a 69-kind field palette x 3 container shapes) x packet patterns x short streams through load + packet_generator, against an independent reference interpreter",
        "text": "The composition property: every ordered pair of field kinds (every encoding family, calibrator form, enum/bool, every string/binary length and delimiting form, time types) in three container shapes is rendered to XML, loaded, and fed pattern packets and every short stream over a 4-packet family; the generator's output is compared item by item (names, order, value, raw value, built-in kind, errors in place, skipping) with the reference.",
        "note": "Interaction coverage is pairwise (triples for the core palette); data values are pattern families, not all bit patterns; fields running off the packet end are left to C14.",
    },
    "C12": {
        "level": "model_checking",
        "technique": "exhaustive enumeration of packet histories (all sequences up to a length bound over a 16-symbol alphabet) replayed on the real generator and on a per-APID reassembly state machine; every model trace validated against the implementation",
        "text": "Every history up to the bound over {FIRST, CONTINUATION, LAST, UNSEGMENTED} x 2 APIDs x {in sequence, gap}, with wrap-around base counts and several secondary-header lengths, is fed to packet_generator(combine_segmented_packets=True); the yielded raw_data list must equal the model's and no tagged raw packet may contribute to two outputs. States of the model, packets fed and histories replayed are measured.",
        "note": "Warnings are not compared; histories longer than the bound are not explored (the family does not sample).",
    },
    "C11": {
        "level": "model_checking",
        "technique": "exhaustive enumeration of packet streams x option combinations against per-packet solo runs, and exhaustive lattice-path interleaving of next() calls over generators sharing one definition against their sequential runs; definition canon and package-state footprint compared before/after",
        "text": "All streams of <= 4 packets over a 12-packet palette under 13 option combinations must equal the concatenation of solo results; all interleavings of 2 (and 3) generators, including segment-combining ones and one over a scripted socket, must give each generator its sequential output; the definition and every module/class-level attribute of the package must be unchanged. Position vectors (states), next() calls (transitions) and interleavings (traces) are measured.",
        "note": "Interleaving is of next() calls in one thread, plus (kernel E-thread) two real threads decoding different packets with one definition under every schedule with a bounded number of preemptions, thread switches at packet item accesses; the footprint monitor covers module- and class-level attributes of all loaded space_packet_parser modules.",
    },
    "C09": {
        "level": "exploration",
        "technique": "bounded-exhaustive enumeration of definitions (attribute-coverage palette alone and in ordered pairs, container-tree family, bundled documents; built from XML and from objects) through write -> load, judged by an independent structural canonical form (probing callable adjustments) and by decode equivalence",
        "text": "For every document of the family, built both ways, load(write(D)) must have the same canonical form as D, the XML-loaded and object-built definitions must agree, and every packet of the document's family must decode identically before and after the round trip.",
        "note": "The canonical form is generic over public instance attributes; '' == None for descriptions/units; header meta data is not compared.",
    },
    "C15": {
        "level": "model_checking",
        "technique": "exhaustive exploration of the write/load operation sequence W, W, (L W)^3 for every document x namespace configuration x construction route, with byte-level comparison of the serializations reached and a cross-process (PYTHONHASHSEED) determinism comparison",
        "text": "Every document/configuration is taken through G1=W(D), G1'=W(D), G2=W(L(G1)), G3, G4: G1 == G1', G2 == G3 == G4, G1 well-formed with every element in the XTCE namespace, canon(D) unchanged by writing; a sample is re-serialized in two subprocesses with different hash seeds. Distinct serializations (states), write/load steps (transitions) and completed cycles (traces) are measured.",
        "note": "Fixed header date in every document; the stock lxml parser defines well-formedness.",
    },
    "C16": {
        "level": "model_checking",
        "technique": "exhaustive enumeration of lexical renderings (namespace convention x comment position x whitespace) and of load histories (all operation sequences up to a bound + breadth-first closure over the real class-level namespace state), each load compared with the canonical form obtained in a fresh interpreter",
        "text": "Every rendering of the base documents (five namespace conventions, a comment at every inter-element position, whitespace variants) must load to the same definition; every history of loads (successful, wrong-prefix, malformed) up to the bound, and every reachable class-level (nsmap, prefix) state, followed by every target load, must give the definition a fresh interpreter gives. Reachable class states (complete), loads (transitions) and histories (traces) are measured; a package footprint monitor checks that no other shared state exists.",
        "note": "Baselines are computed in separate fresh processes; namespace map/prefix are the spelling, not the definition.",
    },
    "C17": {
        "level": "exploration",
        "technique": "exhaustive single-point corruption enumeration (fault-style) of generated documents plus an independent object-graph audit of every loaded definition",
        "text": "Every dangling reference, duplicate (verbatim and changed), deletion and container cycle that can be introduced at a single point of each core document is loaded under a time guard: broken documents must raise, harmless ones must load into a graph where every name denotes one object, every reference is that object (identity) and inheritor lists equal the base relation; the audit also runs on thousands of generated and all bundled documents.",
        "note": "References from criteria and length specifications are outside the claim; a verbatim duplicate container may be rejected or tolerated.",
    },
    "C18": {
        "level": "exploration",
        "technique": "bounded-exhaustive enumeration of definitions (one per field kind) x value-extreme packets x APID interleavings x file lists x raw/derived mode through create_dataset, compared cell by cell with packet_generator's own items",
        "text": "For every field kind of the palette and a boundary set of integer widths, datasets are built from every value-extreme packet, every APID interleaving of the bound and every file-list order, in derived and raw mode; every cell must equal the parsed (or raw) value in kind and value (NaN-aware, bit exact), rows per APID in stream order, one variable per parameter; a polymorphic APID must raise ValueError.",
        "note": "Expected cells come from packet_generator (whose correctness is C01's business); booleans and ints may live in a wider numeric column if exact; one known finding (trailing NUL stripping by numpy S/U dtypes) is recorded in known_findings.json.",
    },
    "C19": {
        "level": "exploration",
        "technique": "bounded-exhaustive enumeration of packet files (n = 0..13 packets, with truncated tails) and packet indices through the click commands, with the printed table / packet parsed back and compared",
        "text": "describe-packets is run on every file of the bound and its printed rows must be exactly the header tuples (all rows up to ten, otherwise five + ellipsis + five); parse --packet i is run for every i in 0..n+1 and must show exactly packet i or the out-of-range message; exit code 0 and no exception, under a per-invocation time and memory guard.",
        "note": "Fixed COLUMNS=200; negative indices are not judged; rows are recognised as lines of exactly seven integer cells.",
    },
    "C20": {
        "level": "exploration",
        "technique": "bounded-exhaustive enumeration of values x raw values x operations x copy methods on the five value classes and on parsed packets, against the same operation on the plain built-in",
        "text": "Every value of the alphabet (zeros, negatives, huge ints, signed zeros, infinities, NaN, empty and non-ASCII text/bytes, booleans) with every raw value (omitted and every falsy kind) is put through comparisons, hashing, truth, str/repr/format, arithmetic, bit operations, slicing, containment, dict-key use and sorting, and through copy, deepcopy and pickle protocols 0..5; parsed packets (cursor mid-way/at end, cached header properties) go through the same copies.",
        "note": "The boolean class is int-backed: truth/str/format like bool, arithmetic like int.",
    },
}
