#!/venv/bin/python
"""Conformance of the REFERENCE interpreter against the library on the bundled mission data
(the oracle is the thing under test here).  Not a registered check; a self-test of the machinery."""
import os, sys, logging, warnings
sys.path.insert(0, "/verif")
logging.disable(logging.CRITICAL)
from mc import REPO_ROOT
from mc.checks.c09 import BUNDLED
from mc.importer import import_doc
from mc.observe import compare_outcome, parse_one
from mc.ref.interp import decode_packet
from space_packet_parser.packets import ccsds_generator
from space_packet_parser.xtce.definitions import XtcePacketDefinition

N = int(sys.argv[1]) if len(sys.argv) > 1 else 300
total = bad = 0
for path, prefix, root, data, skip in BUNDLED:
    if not data:
        continue
    doc = import_doc(os.path.join(REPO_ROOT, path), root)
    defn = XtcePacketDefinition.from_xtce(os.path.join(REPO_ROOT, path), xtce_ns_prefix=prefix, root_container_name=root)
    kinds = {}
    with open(os.path.join(REPO_ROOT, data), "rb") as f:
        for i, p in enumerate(ccsds_generator(f, skip_header_bytes=skip)):
            if i >= N:
                break
            pkt = bytes(p)
            want = decode_packet(doc, pkt, root)
            with warnings.catch_warnings():
                warnings.simplefilter("ignore")
                obs = parse_one(defn, pkt, root=root if root != "CCSDSPacket" else None)
            total += 1
            kinds[want.kind] = kinds.get(want.kind, 0) + 1
            why = compare_outcome(want, obs)
            if why:
                bad += 1
                if bad <= 10:
                    print("MISMATCH", path, i, why[:300])
    print(f"{path}: {sum(kinds.values())} packets, reference outcomes {kinds}")
print(f"total {total} packets, {bad} disagreements")
sys.exit(1 if bad else 0)
