#!/usr/bin/env python3
"""Generate seeded/README.md from the meta.json files."""
import glob, json, os
ROOT = os.path.dirname(os.path.dirname(os.path.abspath(__file__)))
rows = []
for d in sorted(glob.glob(os.path.join(ROOT, "seeded", "*"))):
    mp = os.path.join(d, "meta.json")
    if not os.path.exists(mp):
        continue
    m = json.load(open(mp))
    r = m.get("what_i_ran", {})
    rows.append((m.get("id", os.path.basename(d)), m.get("property"), r.get("confirmed"), sorted(r.get("detected_by", {})), r.get("checks_run", []),
                 (m.get("summary") or "").replace("\n", " ")[:260], (m.get("needs_to_manifest") or "").replace("\n", " ")[:260], m.get("note_by_verifier", "")))
out = ["# Seeded changes", "",
       "Each directory holds `patch.diff` (apply with `git -C /repo apply`), `demo_test.py` (fails with the change, passes without it) and `meta.json`",
       "(what it breaks, what it needs in order to manifest, what was run). All were written by independent sub-agents that saw only the text of one",
       "property and their own scratch worktree; each was confirmed by `tools/eval_seeded.py` (patch applies, the repository's 275 tests still pass,",
       "demonstration fails with it and passes without it) before the checks were run against it.", "",
       "| id | property | confirmed | reported by (quick tier) | checks run | what was changed | needs to manifest |", "|---|---|---|---|---|---|---|"]
for i, p, c, det, run, summ, needs, note in rows:
    out.append(f"| {i} | {p} | {'yes' if c else 'NO'} | {', '.join(det) or '—'} | {'all 20' if len(run) >= 20 else ', '.join(run)} | {summ.replace('|', '/')} | {needs.replace('|', '/')} |")
notes = [(i, n) for i, *_, n in rows if n]
if notes:
    out += ["", "Notes:", ""] + [f"* **{i}**: {n}" for i, n in notes]
open(os.path.join(ROOT, "seeded", "README.md"), "w").write("\n".join(out) + "\n")
print(len(rows), "seeded changes listed;", sum(1 for r in rows if r[3]), "reported by at least one check")
