"""XML -> DocSpec importer (stdlib ElementTree, namespace-agnostic), used to run the reference
interpreter on the bundled mission documents: a conformance run of the ORACLE against the library on
real data (the other direction of the usual comparison)."""
from __future__ import annotations

import xml.etree.ElementTree as ET

from mc.spec import (And, BinEnc, BoolExpr, Cmp, Cond, Container, CtxCal, Doc, Dyn, Fixed, FloatEnc, IntEnc, Lookup, Or, Param,
                     Poly, PType, Spline, StrEnc)


def _strip(tree):
    for el in tree.iter():
        if isinstance(el.tag, str) and "}" in el.tag:
            el.tag = el.tag.split("}", 1)[1]
    return tree


def _b(s, default=True):
    return default if s is None else s.strip().lower() == "true"


def _cmp(el):
    return Cmp(el.get("parameterRef"), el.get("comparisonOperator", "=="), el.get("value"), _b(el.get("useCalibratedValue")))


def _cond(el):
    refs = el.findall("ParameterInstanceRef")
    op = el.find("ComparisonOperator").text
    if len(refs) == 1:
        return Cond(refs[0].get("parameterRef"), op, right_value=el.find("Value").text, left_cal=_b(refs[0].get("useCalibratedValue")), right_cal=False)
    return Cond(refs[0].get("parameterRef"), op, right_param=refs[1].get("parameterRef"), left_cal=_b(refs[0].get("useCalibratedValue")),
                right_cal=_b(refs[1].get("useCalibratedValue")))


def _and(el):
    return And(tuple(_cond(c) for c in el.findall("Condition")), tuple(_or(o) for o in el.findall("ORedConditions")))


def _or(el):
    return Or(tuple(_cond(c) for c in el.findall("Condition")), tuple(_and(a) for a in el.findall("ANDedConditions")))


def _boolexpr(el):
    c = el.find("Condition")
    if c is not None:
        return BoolExpr(_cond(c))
    a = el.find("ANDedConditions")
    if a is not None:
        return BoolExpr(_and(a))
    return BoolExpr(_or(el.find("ORedConditions")))


def _criteria(parent):
    cl = parent.find("ComparisonList")
    if cl is not None:
        return tuple(_cmp(c) for c in cl.findall("Comparison"))
    c = parent.find("Comparison")
    if c is not None:
        return (_cmp(c),)
    b = parent.find("BooleanExpression")
    if b is not None:
        return (_boolexpr(b),)
    raise NotImplementedError("criteria form")


def _cal(el):
    p = el.find("PolynomialCalibrator")
    if p is not None:
        return Poly(tuple((float(t.get("coefficient")), int(t.get("exponent"))) for t in p.findall("Term")))
    s = el.find("SplineCalibrator")
    if s is not None:
        return Spline(tuple((float(q.get("raw")), float(q.get("calibrated"))) for q in s.findall("SplinePoint")), int(s.get("order", "0")),
                      _b(s.get("extrapolate"), False))
    raise NotImplementedError("calibrator form")


def _numeric(el, cls):
    default = el.find("DefaultCalibrator")
    ctx = el.find("ContextCalibratorList")
    ctxs = ()
    if ctx is not None:
        ctxs = tuple(CtxCal(_criteria(c.find("ContextMatch")), _cal(c.find("Calibrator"))) for c in ctx.findall("ContextCalibrator"))
    lsb = el.get("byteOrder", "mostSignificantByteFirst") == "leastSignificantByteFirst"
    if cls is IntEnc:
        return IntEnc(int(el.get("sizeInBits")), el.get("encoding", "unsigned"), lsb, _cal(default) if default is not None else None, ctxs)
    return FloatEnc(int(el.get("sizeInBits")), el.get("encoding", "IEEE754"), lsb, _cal(default) if default is not None else None, ctxs)


def _length(parent):
    d = parent.find("DynamicValue")
    if d is not None:
        r = d.find("ParameterInstanceRef")
        la = d.find("LinearAdjustment")
        return Dyn(r.get("parameterRef"), _b(r.get("useCalibratedValue")),
                   (int(la.get("slope")) if la.get("slope") is not None else 0) if la is not None else None,
                   (int(la.get("intercept")) if la.get("intercept") is not None else 0) if la is not None else None)
    dl = parent.find("DiscreteLookupList")
    if dl is not None:
        return Lookup(tuple((_criteria(x), float(x.get("value"))) for x in dl.findall("DiscreteLookup")))
    raise NotImplementedError("length form")


def _encoding(pt_el):
    e = pt_el.find(".//StringDataEncoding")
    if e is not None:
        size = e.find("SizeInBits")
        if size is not None:
            length = Fixed(int(size.find("Fixed/FixedValue").text))
            holder = size
        else:
            holder = e.find("Variable")
            length = _length(holder)
        term = holder.find("TerminationChar")
        lead = holder.find("LeadingSize")
        return StrEnc(length, e.get("encoding", "UTF-8"), e.get("byteOrder"), term.text if term is not None else None,
                      int(lead.get("sizeInBitsOfSizeTag")) if lead is not None else None)
    e = pt_el.find(".//IntegerDataEncoding")
    if e is not None:
        return _numeric(e, IntEnc)
    e = pt_el.find(".//FloatDataEncoding")
    if e is not None:
        return _numeric(e, FloatEnc)
    e = pt_el.find(".//BinaryDataEncoding")
    if e is not None:
        fv = e.find("SizeInBits/FixedValue")
        if fv is not None:
            return BinEnc(Fixed(int(fv.text)))
        return BinEnc(_length(e.find("SizeInBits")))
    raise NotImplementedError("no encoding")


def import_doc(path, root="CCSDSPacket") -> Doc:
    tree = _strip(ET.parse(path))
    r = tree.getroot()
    tm = r.find("TelemetryMetaData")
    ptypes = []
    for el in tm.find("ParameterTypeSet"):
        kind = el.tag.replace("ParameterType", "")
        enc = _encoding(el)
        kw = {}
        if kind == "Enumerated":
            conv = float if isinstance(enc, FloatEnc) else (lambda x: x) if isinstance(enc, StrEnc) else int
            kw["enum"] = tuple((conv(x.get("value")), x.get("label")) for x in el.find("EnumerationList"))
        unit = None
        if kind in ("AbsoluteTime", "RelativeTime"):
            e = el.find("Encoding")
            unit = e.get("units")
            if e.get("scale") is not None:
                kw["scale"] = float(e.get("scale"))
            if e.get("offset") is not None:
                kw["offset"] = float(e.get("offset"))
            ep = el.find("ReferenceTime/Epoch")
            of = el.find("ReferenceTime/OffsetFrom")
            kw["epoch"] = ep.text if ep is not None else None
            kw["offset_from"] = of.get("parameterRef") if of is not None else None
        else:
            us = el.findall("UnitSet/Unit")
            unit = us[0].text if us else None
        ptypes.append(PType(el.get("name"), kind, enc, unit=unit, **kw))
    params = []
    for el in tm.find("ParameterSet"):
        ld = el.find("LongDescription")
        params.append(Param(el.get("name"), el.get("parameterTypeRef"), el.get("shortDescription"), ld.text if ld is not None else None))
    conts = []
    for el in tm.find("ContainerSet"):
        entries = []
        for e in el.find("EntryList"):
            if e.tag == "ParameterRefEntry":
                entries.append(("p", e.get("parameterRef")))
            elif e.tag == "ContainerRefEntry":
                entries.append(("c", e.get("containerRef")))
        bc = el.find("BaseContainer")
        base, crit = None, None
        if bc is not None:
            base = bc.get("containerRef")
            rc = bc.find("RestrictionCriteria")
            crit = _criteria(rc) if rc is not None else None
        ld = el.find("LongDescription")
        conts.append(Container(el.get("name"), tuple(entries), base, crit, _b(el.get("abstract"), False), el.get("shortDescription"),
                               ld.text if ld is not None else None))
    hdr = r.find("Header")
    return Doc(tuple(ptypes), tuple(params), tuple(conts), root=root, name=r.get("name"), date=hdr.get("date") if hdr is not None else None)
