"""Kernel E-env: explicit-state exploration of a reactive generator under environment choices.

Every recv() the implementation makes is a choice point; the menu is "deliver c bytes" for
c in 1..min(n, remaining) (or b'' once the stream is exhausted).  Depth-first over choice
sequences, replaying each prefix on a *fresh* generator (generators cannot be copied), with
state hashing at choice points so equivalent prefixes are explored once.  State =
(bytes delivered, digest of items yielded so far, instruction pointer and all locals of every
library frame above the source).  `stateful=False` gives the stateless exploration used as a
cross-check of the merging argument.
"""
from __future__ import annotations

import hashlib

from mc.seams import Pruned, ScriptedSocket


class Exec:
    __slots__ = ("choices", "menus", "obs", "pruned", "sock", "starved")

    def __init__(self):
        self.choices = []   # chosen menu index at every choice point
        self.menus = []     # menu (list of byte counts) at every choice point
        self.obs = None
        self.pruned = False
        self.sock = None
        self.starved = None  # (choice index, bytes delivered, items yielded): a recv() made while a complete record was waiting to be yielded


def menu_for(n, remaining):
    if remaining == 0:
        return [0]
    m = remaining if (n is None or n < 0) else min(n, remaining)
    if m <= 0:
        return [0]
    return [m] + list(range(1, m))


class EnvExplorer:
    def __init__(self, data: bytes, drive, *, stateful=True, max_execs=400_000, inspect=True, allow_close=False, waiting=None, msg_max=None):
        """drive(sock, on_item) -> observation (any comparable value); must create a fresh generator."""
        self.data = data
        self.drive = drive
        self.allow_close = allow_close  # crash points: the peer may close at any choice point
        self.msg_max = msg_max          # message-preserving socket: messages of 1..msg_max bytes (see ScriptedSocket)
        self.waiting = waiting          # waiting(bytes delivered, items yielded) -> True if a complete record is buffered but not yet yielded
        self.stateful = stateful
        self.inspect = inspect and stateful
        self.max_execs = max_execs
        self.seen = set()
        self.executions = 0
        self.transitions = 0
        self.capped = False
        self.uninspectable = False
        self.outcomes = set()

    def run_one(self, prefix) -> Exec:
        ex = Exec()
        yielded = hashlib.blake2b(digest_size=8)
        n_items = [0]

        def on_item(b: bytes):
            yielded.update(len(b).to_bytes(4, "big"))
            yielded.update(b)
            n_items[0] += 1

        def decide(n, remaining, key, sock):
            i = len(ex.choices)
            if self.waiting is not None and ex.starved is None and self.waiting(sock.delivered, n_items[0]):
                ex.starved = (i, sock.delivered, n_items[0])
            menu = menu_for(n, remaining)
            if self.allow_close and remaining > 0:
                menu = menu + [0]
            if i < len(prefix):
                ci = prefix[i]
                if ci >= len(menu):
                    raise AssertionError(f"replay divergence at choice {i}: index {ci} not in menu {menu}")
            else:
                ci = 0
                if self.stateful:
                    key = key() if key is not None else None
                    if key is None:
                        self.uninspectable = True
                    else:
                        k = (sock.delivered, sock.closed, n_items[0], yielded.digest(), n, key, sock.truncated)
                        if k in self.seen:
                            raise Pruned()
                        self.seen.add(k)
                self.transitions += 1
            ex.choices.append(ci)
            ex.menus.append(menu)
            return menu[ci]

        sock = ScriptedSocket(self.data, decide, inspect=self.inspect, msg_max=self.msg_max)
        ex.sock = sock
        try:
            ex.obs = self.drive(sock, on_item)
        except Pruned:
            ex.pruned = True
        self.executions += 1
        return ex

    def explore(self, check):
        """check(exec) -> None or a violation tuple.  Returns list of (schedule, violation)."""
        violations = []
        stack = [[]]
        while stack:
            if self.executions >= self.max_execs:
                self.capped = True
                break
            prefix = stack.pop()
            ex = self.run_one(prefix)
            if not ex.pruned:
                self.outcomes.add(repr(ex.obs))
                v = check(ex)
                if v is not None:
                    sched = [m[c] for m, c in zip(ex.menus, ex.choices)]
                    violations.append((sched, v))
                    if len(violations) >= 5:
                        break
            for i in range(len(ex.choices) - 1, len(prefix) - 1, -1):
                for alt in range(len(ex.menus[i]) - 1, 0, -1):
                    stack.append(ex.choices[:i] + [alt])
        return violations

    def replay_twice_identical(self, prefix):
        was = self.stateful
        self.stateful = False
        try:
            a = self.run_one(prefix)
            b = self.run_one(prefix)
        finally:
            self.stateful = was
            self.executions -= 2
        return repr(a.obs) == repr(b.obs) and a.choices == b.choices, a


def schedule_to_prefix(data_len, read_sizes_and_deliveries):
    """Turn an explicit list of deliveries back into menu indices (for replay files)."""
    return read_sizes_and_deliveries
