"""Reference interpreter for DocSpec documents (the oracle).

Written from the XTCE semantics as restated in the property statements; shares no code with
the library.  A packet is a '0'/'1' string, a field is a slice, numbers are exact (Fraction).
"""
from __future__ import annotations

import math
from dataclasses import dataclass, field
from fractions import Fraction
from typing import Any, Optional

from mc.spec import (And, BinEnc, BoolExpr, Cmp, Cond, Container, Doc, Dyn, Fixed, FloatEnc, IntEnc, Lookup, Or, Poly,
                     PType, Spline, StrEnc)


# ----------------------------------------------------------------------------- outcomes
@dataclass
class Item:
    name: str
    value: Any
    raw: Any
    calibrated: bool = False  # value went through float arithmetic (tolerance applies)
    scale: float = 0.0  # magnitude of the operands of that arithmetic (absolute tolerance = a few eps * scale)
    unjudged: bool = False  # decoded more than once on this path: value not judged
    start: int = 0
    width: int = 0


@dataclass
class Outcome:
    kind: str  # parsed | unrecognized | raised | unspecified
    items: list = field(default_factory=list)
    consumed: int = 0
    why: str = ""
    exc: Optional[tuple] = None  # acceptable exception class names, or None for "any exception"
    overrun: bool = False  # decoding needed bits beyond the end of the packet (values not comparable)
    path: tuple = ()


class RefRaise(Exception):
    def __init__(self, why, exc=None):
        super().__init__(why)
        self.why = why
        self.exc = exc


class RefUnspecified(Exception):
    pass


class RefOverrun(Exception):
    pass


# ----------------------------------------------------------------------------- bits
def to_bits(b: bytes) -> str:
    return "".join(format(x, "08b") for x in b)


def twos(v: int, w: int) -> int:
    return v - (1 << w) if v >= (1 << (w - 1)) else v


def reverse_bytes_bits(s: str) -> str:
    assert len(s) % 8 == 0
    return "".join(s[i:i + 8] for i in range(len(s) - 8, -8, -8))


def ieee(s: str) -> float:
    w = len(s)
    ebits, mbits = {16: (5, 10), 32: (8, 23), 64: (11, 52)}[w]
    sign = -1 if s[0] == "1" else 1
    e = int(s[1:1 + ebits], 2)
    m = int(s[1 + ebits:], 2)
    bias = (1 << (ebits - 1)) - 1
    if e == (1 << ebits) - 1:
        if m == 0:
            return sign * math.inf
        return math.nan
    if e == 0:
        f = Fraction(m, 1 << mbits) * Fraction(2) ** (1 - bias)
    else:
        f = (1 + Fraction(m, 1 << mbits)) * Fraction(2) ** (e - bias)
    v = float(f)
    return -v if sign < 0 else v  # keeps -0.0


def mil1750a(s: str) -> float:
    assert len(s) == 32
    mant = twos(int(s[:24], 2), 24)
    exp = twos(int(s[24:], 2), 8)
    return float(Fraction(mant) * Fraction(2) ** (exp - 23))


# ----------------------------------------------------------------------------- calibrators
def frac(x):
    if isinstance(x, float):
        if math.isnan(x) or math.isinf(x):
            raise RefUnspecified("calibration of a non-finite raw value")
        return Fraction(x)
    return Fraction(x)


def calibrate(cal, raw):
    """Exact evaluation.  Returns (value rounded once, magnitude scale of the operands).

    The scale bounds the size of the intermediate terms; comparisons allow an absolute error of a few
    rounding units *of that scale*, so that any reasonable evaluation order of a correct implementation
    (Horner, slope-first, ...) passes even when terms cancel."""
    if isinstance(cal, Spline) and isinstance(raw, float) and (math.isnan(raw) or math.isinf(raw)) and not cal.extrapolate:
        # NaN and the infinities lie outside every closed range of points: without extrapolation the calibration must fail
        raise RefRaise("spline query outside the point range without extrapolation (non-finite raw value)", ("CalibrationError",))
    if isinstance(cal, Poly) and isinstance(raw, float) and math.isnan(raw) and any(e >= 1 for _, e in cal.terms):
        return math.nan, 0.0   # a term of order >= 1 in NaN is NaN (also with coefficient 0), whatever the evaluation order
    x = frac(raw)
    if isinstance(cal, Poly):
        terms = [Fraction(c) * x ** e for c, e in cal.terms]
        return float(sum(terms)), float(sum(abs(t) for t in terms))
    # points ordered by raw value; points that share a raw value (a step: left limit, then right limit) keep their document order
    pts = sorted(((Fraction(r), Fraction(c)) for r, c in cal.points), key=lambda p: p[0])
    xs = [p[0] for p in pts]
    ys = [p[1] for p in pts]
    lo, hi = xs[0], xs[-1]
    if xs.count(x) > 1:
        raise RefUnspecified("spline queried exactly at a step (two points with the same raw value)")

    def line(a, b):
        if xs[a] == xs[b]:
            raise RefUnspecified("spline segment of zero length")
        v = ys[a] + (ys[b] - ys[a]) * (x - xs[a]) / (xs[b] - xs[a])
        return float(v), float(abs(ys[a]) + abs(ys[b]) + abs((ys[b] - ys[a]) * (x - xs[a]) / (xs[b] - xs[a])))
    if lo <= x <= hi:
        if cal.order == 0:
            i = max(j for j in range(len(xs)) if xs[j] <= x)
            return float(ys[i]), float(abs(ys[i]))
        if x == hi:
            return float(ys[-1]), float(abs(ys[-1]) + (abs(ys[-2]) if len(ys) > 1 else 0))
        i = max(j for j in range(len(xs) - 1) if xs[j] <= x)
        return line(i, i + 1)
    if not cal.extrapolate:
        raise RefRaise("spline query outside the point range without extrapolation", ("CalibrationError",))
    if cal.order == 0:
        v = ys[-1] if x > hi else ys[0]
        return float(v), float(abs(v))
    if len(pts) < 2:
        raise RefUnspecified("first-order extrapolation with a single point")
    return line(len(xs) - 2, len(xs) - 1) if x > hi else line(0, 1)


# ----------------------------------------------------------------------------- criteria
OPS = {
    "==": "eq", "eq": "eq", "!=": "ne", "neq": "ne",
    "&lt;": "lt", "lt": "lt", "<": "lt", "&gt;": "gt", "gt": "gt", ">": "gt",
    "&lt;=": "le", "leq": "le", "<=": "le", "&gt;=": "ge", "geq": "ge", ">=": "ge",
}


def _relation_of(op: str) -> str:
    """The relation a spelling names: the sixteen documented spellings, and any other entity / word form reduced to what it says."""
    if op in OPS:
        return OPS[op]
    t = op.strip().replace("&lt;", "<").replace("&gt;", ">").replace("&amp;", "&")
    t = {"&le;": "<=", "&ge;": ">=", "&ne;": "!=", "&eq;": "==", "le": "<=", "ge": ">=", "ne": "!="}.get(t, t)
    return {"==": "eq", "!=": "ne", "<": "lt", ">": "gt", "<=": "le", ">=": "ge"}[t]


def relate(op: str, a, b) -> bool:
    k = _relation_of(op)
    if isinstance(a, float) and math.isnan(a) or isinstance(b, float) and math.isnan(b):
        return k == "ne"
    return {"eq": a == b, "ne": a != b, "lt": a < b, "gt": a > b, "le": a <= b, "ge": a >= b}[k]


def coerce(literal: str, like):
    """Interpret the literal in the type of the value it is compared to."""
    try:
        if isinstance(like, bool):
            return int(literal)
        if isinstance(like, int):
            return int(literal)
        if isinstance(like, float):
            return float(literal)
        if isinstance(like, str):
            return literal
    except ValueError:
        raise RefRaise(f"literal {literal!r} cannot be read as {type(like).__name__}", None)
    raise RefUnspecified(f"comparison against a {type(like).__name__} value")


class Env:
    """Values decoded so far: name -> Item."""

    def __init__(self):
        self.items = {}
        self.order = []

    def add(self, it: Item):
        if it.name in self.items:
            # The same parameter decoded twice on one path: the packet mapping can hold only one entry.  Which value
            # "the document prescribes" for it is unspecified, so the entry keeps its first position and is marked as
            # not judged; everything else (other parameters, the cursor) still is.
            old = self.items[it.name]
            it.unjudged = True
            self.order[self.order.index(old)] = it
            self.items[it.name] = it
            return
        self.items[it.name] = it
        self.order.append(it)


def eval_cmp(c: Cmp, env: Env, current_raw=None) -> bool:
    if c.param in env.items:
        it = env.items[c.param]
        v = it.value if c.use_cal else it.raw
    elif current_raw is not None:
        v = current_raw  # a context match that refers to the field's own raw value
    else:
        raise RefUnspecified(f"criterion references {c.param}, which is not decoded yet")
    if isinstance(v, bytes):
        raise RefUnspecified("comparison against a bytes value")
    return relate(c.op, v, coerce(c.value, v))


def eval_cond(c: Cond, env: Env) -> bool:
    def val(name, cal):
        if name not in env.items:
            raise RefUnspecified(f"condition references {name}, which is not decoded yet")
        it = env.items[name]
        return it.value if cal else it.raw
    a = val(c.left, c.left_cal)
    if c.right_param is not None:
        b = val(c.right_param, c.right_cal)
        if isinstance(a, (str, bytes)) != isinstance(b, (str, bytes)):
            raise RefUnspecified("condition compares text with a number")
    else:
        b = coerce(c.right_value, a)
    if isinstance(a, bytes) or isinstance(b, bytes):
        raise RefUnspecified("condition on bytes values")
    return relate(c.op, a, b)


def eval_and(a: And, env) -> bool:
    return all(eval_cond(c, env) for c in a.conds) and all(eval_or(o, env) for o in a.ors)


def eval_or(o: Or, env) -> bool:
    return any(eval_cond(c, env) for c in o.conds) or any(eval_and(a, env) for a in o.ands)


def eval_boolexpr(b: BoolExpr, env) -> bool:
    e = b.expr
    if isinstance(e, Cond):
        return eval_cond(e, env)
    return eval_and(e, env) if isinstance(e, And) else eval_or(e, env)


def eval_criteria(crit, env: Env, current_raw=None) -> bool:
    """A criteria list is a conjunction: it holds when every conjunct holds.  A conjunct that is false makes the list false, also when a
    LATER conjunct could not be evaluated (it refers to a parameter this packet does not carry, say): 'criteria all hold' is then simply
    not the case, and documents rely on an earlier conjunct guarding a later one.  An ill-formed conjunct BEFORE a false one is the one
    order-dependent situation and stays unspecified."""
    errors = []
    for c in crit:
        try:
            r = eval_cmp(c, env, current_raw) if isinstance(c, Cmp) else eval_boolexpr(c, env)
        except (RefRaise, RefUnspecified) as e:
            errors.append(e)
            continue
        if not r:
            if errors:
                raise RefUnspecified("conjunction with an ill-formed conjunct before a false one")
            return False
    if errors:
        raise errors[0]
    return True


# ----------------------------------------------------------------------------- field decoding
class Cursor:
    def __init__(self, bits: str):
        self.bits = bits
        self.pos = 0

    def take(self, n: int) -> str:
        if n < 0:
            raise RefRaise("negative field width", None)
        if self.pos + n > len(self.bits):
            raise RefOverrun()
        s = self.bits[self.pos:self.pos + n]
        self.pos += n
        return s


def resolve_length(length, env: Env) -> int:
    if isinstance(length, Fixed):
        return length.bits
    if isinstance(length, Dyn):
        if length.ref not in env.items:
            raise RefUnspecified(f"length references {length.ref}, which is not decoded yet")
        it = env.items[length.ref]
        v = it.value if length.use_cal else it.raw
        if isinstance(v, (str, bytes)):
            raise RefUnspecified("length taken from a non-numeric parameter")
        if isinstance(v, float) and (math.isnan(v) or math.isinf(v)):
            raise RefRaise("non-finite length", None)
        x = Fraction(v)
        if length.slope is not None or length.intercept is not None:
            x = Fraction(length.slope or 0) * x + Fraction(length.intercept or 0)
        if x.denominator != 1:
            raise RefRaise("non-integral length", None)
        if x < 0:
            raise RefRaise("negative length", None)
        return int(x)
    if isinstance(length, Lookup):
        for crit, v in length.entries:
            if eval_criteria(crit, env):
                x = Fraction(v)
                if x.denominator != 1 or x < 0:
                    raise RefRaise("looked-up length is not a non-negative integer", None)
                return int(x)
        raise RefRaise("no discrete lookup entry matches", None)
    raise TypeError(length)


CODECS = {"US-ASCII": "ascii", "ISO-8859-1": "latin-1", "Windows-1252": "cp1252", "UTF-8": "utf-8",
          "UTF-16BE": "utf-16-be", "UTF-16LE": "utf-16-le", "UTF-32BE": "utf-32-be", "UTF-32LE": "utf-32-le"}


def codec_for(enc: StrEnc) -> str:
    if enc.charset in CODECS:
        return CODECS[enc.charset]
    be = enc.byte_order == "mostSignificantByteFirst"
    return {"UTF-16": "utf-16-be" if be else "utf-16-le", "UTF-32": "utf-32-be" if be else "utf-32-le"}[enc.charset]


def unit_width(codec: str) -> int:
    return 2 if codec.startswith("utf-16") else 4 if codec.startswith("utf-32") else 1


def decode_text(b: bytes, codec: str) -> str:
    try:
        return b.decode(codec)
    except UnicodeDecodeError:
        raise RefRaise("undecodable text", None)


def decode_string(enc: StrEnc, cur: Cursor, env: Env):
    L = resolve_length(enc.length, env)
    s = cur.take(L)
    pad = (-L) % 8
    padded = s + "0" * pad
    raw = int(padded, 2).to_bytes(len(padded) // 8, "big") if padded else b""
    codec = codec_for(enc)
    if enc.lead is not None:
        if enc.lead > L:
            raise RefUnspecified("size tag wider than the buffer")
        tag = int(s[:enc.lead], 2) if enc.lead else 0
        if tag % 8 != 0:
            raise RefRaise("size tag is not a whole number of bytes", None)
        if enc.lead + tag > L:
            raise RefUnspecified("size tag exceeds the (unpadded) buffer")
        body = s[enc.lead:enc.lead + tag]
        text = decode_text(int(body, 2).to_bytes(tag // 8, "big") if tag else b"", codec)
    elif enc.term is not None:
        t = bytes.fromhex(enc.term)
        w = unit_width(codec)
        idx = None
        for i in range(0, len(raw) - len(t) + 1, w if len(t) % w == 0 else 1):
            if raw[i:i + len(t)] == t:
                idx = i
                break
        if idx is None:
            raise RefUnspecified("buffer does not contain the termination character")
        if (idx + len(t)) * 8 > L:
            raise RefUnspecified("termination character found only by using padding bits")
        # a byte-level search that hits earlier at a misaligned offset is the library's D17; the statement is character level
        text = decode_text(raw[:idx], codec)
    else:
        text = decode_text(raw, codec)
    return text, raw, L


def decode_binary(enc: BinEnc, cur: Cursor, env: Env):
    L = resolve_length(enc.length, env)
    s = cur.take(L)
    v = int(s, 2).to_bytes((L + 7) // 8, "big") if L else b""
    return v, L


def decode_numeric_raw(enc, cur: Cursor):
    s = cur.take(enc.bits)
    if isinstance(enc, IntEnc):
        if enc.lsb_first:
            if enc.bits % 8:
                raise RefUnspecified("little-endian integer whose width is not a whole number of bytes")
            s = reverse_bytes_bits(s)
        v = int(s, 2)
        return v if enc.enc == "unsigned" else twos(v, enc.bits)
    if enc.lsb_first:
        s = reverse_bytes_bits(s)
    return mil1750a(s) if enc.enc in ("MILSTD_1750A", "MIL-1750A") else ieee(s)


def numeric_calibrators(pt: PType):
    enc = pt.enc
    default = enc.default_cal
    if pt.kind in ("AbsoluteTime", "RelativeTime") and (pt.scale is not None or pt.offset is not None):
        terms = []
        if pt.offset is not None:
            terms.append((pt.offset, 0))
        terms.append((pt.scale if pt.scale is not None else 1, 1))
        default = Poly(tuple(terms))
    return enc.ctx_cals, default


def decode_param(doc: Doc, pname: str, cur: Cursor, env: Env) -> Item:
    p = doc.param(pname)
    pt = doc.ptype(p.ptype)
    enc = pt.enc
    start = cur.pos
    if isinstance(enc, StrEnc):
        text, raw, L = decode_string(enc, cur, env)
        if pt.kind == "Enumerated":
            table = {str(v).encode(enc.charset if enc.charset in CODECS else codec_for(enc)): lab for v, lab in pt.enum}
            if raw not in table:
                raise RefRaise("unlisted enumeration value", ("ValueError",))
            return Item(pname, table[raw], raw, start=start, width=L)
        if pt.kind == "Boolean":
            return Item(pname, bool(raw), raw, start=start, width=L)
        return Item(pname, text, raw, start=start, width=L)
    if isinstance(enc, BinEnc):
        v, L = decode_binary(enc, cur, env)
        if pt.kind == "Boolean":
            return Item(pname, bool(v), v, start=start, width=L)
        if pt.kind == "Enumerated":
            raise RefUnspecified("binary-encoded enumeration")
        return Item(pname, v, v, start=start, width=L)
    try:
        raw = decode_numeric_raw(enc, cur)
    except RefUnspecified:
        if isinstance(enc, IntEnc) and enc.lsb_first and enc.bits % 8 and pt.kind == "Integer" and enc.default_cal is None and not enc.ctx_cals:
            # which VALUE a little-endian field of, say, 12 bits has is not specified - that it occupies 12 bits is: the item is
            # there, its value is not judged, the cursor and everything after it are
            return Item(pname, 0, 0, start=start, width=enc.bits, unjudged=True)
        raise
    if pt.kind == "Enumerated":
        for v, lab in pt.enum:
            key = float(v) if isinstance(enc, FloatEnc) else int(v)
            if key == raw and not (isinstance(raw, float) and math.isnan(raw)):
                return Item(pname, lab, raw, start=start, width=enc.bits)
        raise RefRaise("unlisted enumeration value", ("ValueError",))
    if pt.kind == "Boolean":
        return Item(pname, bool(raw), raw, start=start, width=enc.bits)
    ctx, default = numeric_calibrators(pt)
    for cc in ctx:
        if eval_criteria(cc.match, env, current_raw=raw):
            v, sc = calibrate(cc.cal, raw)
            return Item(pname, v, raw, calibrated=True, scale=sc, start=start, width=enc.bits)
    if default is not None:
        v, sc = calibrate(default, raw)
        return Item(pname, v, raw, calibrated=True, scale=sc, start=start, width=enc.bits)
    return Item(pname, raw, raw, start=start, width=enc.bits)


# ----------------------------------------------------------------------------- containers
def parse_entries(doc: Doc, c: Container, cur: Cursor, env: Env, depth=0):
    if depth > 32:
        raise RefUnspecified("container nesting too deep")
    for kind, name in c.entries:
        if kind == "p":
            env.add(decode_param(doc, name, cur, env))
        else:
            parse_entries(doc, doc.container(name), cur, env, depth + 1)


def decode_packet(doc: Doc, packet: bytes, root: Optional[str] = None) -> Outcome:
    cur = Cursor(to_bits(packet))
    env = Env()
    path = []
    try:
        c = doc.container(root or doc.root)
        while True:
            path.append(c.name)
            parse_entries(doc, c, cur, env)
            kids = [k for k in doc.containers if k.base == c.name]
            ok = [k for k in kids if eval_criteria(k.criteria or (), env)]
            if len(ok) == 1:
                c = ok[0]
                continue
            if len(ok) == 0:
                if c.abstract:
                    return Outcome("unrecognized", list(env.order), cur.pos, "abstract container with no satisfied child", path=tuple(path))
                return Outcome("parsed", list(env.order), cur.pos, path=tuple(path))
            return Outcome("unrecognized", list(env.order), cur.pos, "more than one satisfied child", path=tuple(path))
    except RefRaise as e:
        return Outcome("raised", list(env.order), cur.pos, e.why, exc=e.exc, path=tuple(path))
    except RefOverrun:
        return Outcome("raised", list(env.order), cur.pos, "field extends past the end of the packet", exc=None, overrun=True, path=tuple(path))
    except RefUnspecified as e:
        return Outcome("unspecified", list(env.order), cur.pos, str(e), path=tuple(path))


def min_bits_needed(doc: Doc, packet: bytes) -> Optional[int]:
    """Bits a well-formed decode consumes (None if it does not parse)."""
    o = decode_packet(doc, packet)
    return o.consumed if o.kind == "parsed" else None
