"""Shared exploration plumbing: tallies, violations, worker fan-out, guards.

Three exploration kernels live elsewhere (mc/envexplore.py for the reactive
framer, mc/hist.py helpers for histories); this module is what they share.
"""
from __future__ import annotations

import collections
import concurrent.futures as cf
import contextlib
import hashlib
import json
import multiprocessing as mp
import os
import resource
import signal
import time
import traceback
import warnings

MAX_PER_SIGNATURE = 3
MAX_SIGNATURES = 300
OVERFLOW_KEY = '{"kind": "signature-overflow"}'
MAX_SAMPLES_PER_TALLY = 3


class CaseTimeout(BaseException):
    """Raised by the per-case alarm.  BaseException so library code cannot swallow it."""


class Violation(dict):
    """A property violation: {'sig': {...}, 'case': {...}, 'expected':..., 'observed':..., 'note': str}"""


def jsonable(x):
    """Make x JSON-serialisable in a readable, deterministic way."""
    if isinstance(x, dict):
        return {str(k): jsonable(v) for k, v in x.items()}
    if isinstance(x, (list, tuple)):
        return [jsonable(v) for v in x]
    if isinstance(x, (set, frozenset)):
        return sorted((jsonable(v) for v in x), key=repr)
    if isinstance(x, (bytes, bytearray)):
        return {"hex": bytes(x).hex()}
    if isinstance(x, float):
        if x != x:
            return "NaN"
        if x in (float("inf"), float("-inf")):
            return "inf" if x > 0 else "-inf"
        return x
    if isinstance(x, int) and not isinstance(x, bool) and x.bit_length() > 4000:
        return {"int_hex": hex(x)[:70] + "...", "bits": x.bit_length()}   # decimal conversion of huge ints is refused by CPython
    if isinstance(x, (str, int, bool)) or x is None:
        return x
    try:
        return repr(x)
    except ValueError:
        return f"<{type(x).__name__} without a printable form>"


def digest(obj) -> str:
    return hashlib.blake2b(json.dumps(jsonable(obj), sort_keys=True).encode(), digest_size=8).hexdigest()


class Tally:
    """Per-worker accumulator; merged by the parent."""

    def __init__(self):
        self.evals = 0
        self.nontrivial = 0
        self.states = 0
        self.transitions = 0
        self.traces = 0
        self.programs = 0
        self.outcomes = collections.Counter()
        self.extra = collections.Counter()
        self.by_sig: dict[str, list[Violation]] = {}   # signature -> a few representative violations
        self.sig_counts = collections.Counter()
        self.n_violations = 0
        self.samples = []
        self.notes = []
        self.caps = []

    def violation(self, sig, case, expected=None, observed=None, note=""):
        self.n_violations += 1
        sig = jsonable(sig)
        key = json.dumps(sig, sort_keys=True)
        self.sig_counts[key] += 1
        if key not in self.by_sig and len(self.by_sig) >= MAX_SIGNATURES:
            key = OVERFLOW_KEY  # too many distinct signatures: keep an explicit overflow bucket (never matched as known)
            sig = {"kind": "signature-overflow"}
        bucket = self.by_sig.setdefault(key, [])
        if len(bucket) < MAX_PER_SIGNATURE:
            bucket.append(Violation(sig=sig, case=jsonable(case), expected=jsonable(expected),
                                    observed=jsonable(observed), note=note))

    @property
    def violations(self):
        return [v for vs in self.by_sig.values() for v in vs]

    def sample(self, s):
        if len(self.samples) < MAX_SAMPLES_PER_TALLY:
            self.samples.append(jsonable(s))

    def merge(self, other: "Tally"):
        self.evals += other.evals
        self.nontrivial += other.nontrivial
        self.states += other.states
        self.transitions += other.transitions
        self.traces += other.traces
        self.programs += other.programs
        self.outcomes.update(other.outcomes)
        self.extra.update(other.extra)
        self.n_violations += other.n_violations
        self.sig_counts.update(other.sig_counts)
        for key, vs in other.by_sig.items():
            if key not in self.by_sig and len(self.by_sig) >= MAX_SIGNATURES:
                key = OVERFLOW_KEY
            bucket = self.by_sig.setdefault(key, [])
            for v in vs:
                if len(bucket) < MAX_PER_SIGNATURE:
                    bucket.append(v if key != OVERFLOW_KEY else Violation({**v, "sig": {"kind": "signature-overflow"}}))
        for s in other.samples:
            if len(self.samples) < 8:
                self.samples.append(s)
        self.notes.extend(n for n in other.notes if n not in self.notes)
        self.caps.extend(c for c in other.caps if c not in self.caps)
        return self


@contextlib.contextmanager
def case_alarm(seconds: float):
    """Deterministic last-resort guard around one case (or a tiny batch)."""
    def _handler(signum, frame):
        raise CaseTimeout(f"case exceeded {seconds}s")
    old = signal.signal(signal.SIGALRM, _handler)
    signal.setitimer(signal.ITIMER_REAL, seconds)
    try:
        yield
    finally:
        signal.setitimer(signal.ITIMER_REAL, 0)
        signal.signal(signal.SIGALRM, old)


@contextlib.contextmanager
def observed_warnings():
    """Record every warning, independent of the once-per-location registry."""
    with warnings.catch_warnings(record=True) as w:
        warnings.simplefilter("always")
        yield w


def limit_memory(gib: float = 6.0):
    soft = int(gib * (1 << 30))
    try:
        resource.setrlimit(resource.RLIMIT_AS, (soft, resource.RLIM_INFINITY))
    except (ValueError, OSError):
        pass


def _worker_init(mem_gib):
    # Workers are long-lived; keep them quiet and bounded.
    if mem_gib:
        limit_memory(mem_gib)
    import logging
    logging.disable(logging.CRITICAL)


class _FormatAndDrop(__import__("logging").Handler):
    """Formats every record (so that lazily formatted arguments are evaluated, as a real handler would) and drops it."""
    def emit(self, record):
        try:
            record.getMessage()
        except Exception:  # noqa: BLE001 - a real StreamHandler reports formatting errors on stderr and carries on
            pass


_LOG_HANDLER = _FormatAndDrop()


def logging_mode(live: bool):
    """live=False: logging disabled altogether (the library's log calls are dead).  live=True: the library's loggers are enabled down to
    DEBUG with a handler attached, as under `spp -v` or an application that configured logging.  The properties do not depend on the
    logging configuration, so partitions alternate between the two."""
    import logging
    lg = logging.getLogger("space_packet_parser")
    if live:
        logging.disable(logging.NOTSET)
        lg.setLevel(logging.DEBUG)
        lg.propagate = False
        if _LOG_HANDLER not in lg.handlers:
            lg.addHandler(_LOG_HANDLER)
    else:
        logging.disable(logging.CRITICAL)


def _run_task(payload):
    func, task = payload
    try:
        import zlib
        logging_mode(bool(zlib.crc32(repr(task).encode()) & 1))
        t = func(task)
        if not isinstance(t, Tally):
            raise TypeError(f"task function returned {type(t)}")
        return t
    except CaseTimeout as e:  # an un-attributed timeout: still a violation of this partition
        t = Tally()
        t.violation({"kind": "timeout", "where": "partition"}, {"task": repr(task)[:500]}, observed=str(e),
                    note="partition exceeded its budget outside a guarded case")
        return t
    except BaseException as e:  # noqa: BLE001 - harness bug or implementation blew up the worker
        t = Tally()
        t.violation({"kind": "harness-exception", "exc": type(e).__name__}, {"task": repr(task)[:500]},
                    observed=traceback.format_exc()[-3000:],
                    note="exception escaped the task function")
        return t


def fan_out(func, tasks, jobs: int | None = None, mem_gib: float | None = 8.0, seed: int = 0) -> Tally:
    """Run func(task) -> Tally for every task on a pool of long-lived workers; merge."""
    tasks = list(tasks)
    total = Tally()
    if not tasks:
        return total
    sl = int(os.environ.get("VERIF_SLICE", "1") or 1)
    if sl > 1 and len(tasks) > 1:
        # the second-interpreter pass of the expensive checks runs every sl-th partition of every fan-out (at least one)
        tasks = tasks[(seed % sl)::sl] or tasks[:1]
    jobs = jobs or int(os.environ.get("VERIF_JOBS", "0")) or min(16, os.cpu_count() or 1)
    jobs = max(1, min(jobs, len(tasks)))
    # the seed only rotates the order in which workers receive partitions
    if seed:
        k = seed % len(tasks)
        tasks = tasks[k:] + tasks[:k]
    if jobs == 1:
        import logging
        logging.disable(logging.CRITICAL)
        for t in tasks:
            total.merge(_run_task((func, t)))
        return total
    ctx = mp.get_context("fork")
    done = 0
    with cf.ProcessPoolExecutor(max_workers=jobs, mp_context=ctx, initializer=_worker_init,
                                initargs=(mem_gib,)) as ex:
        futs = {ex.submit(_run_task, (func, t)): t for t in tasks}
        for fut in cf.as_completed(futs):
            task = futs[fut]
            try:
                total.merge(fut.result())
            except BaseException as e:  # noqa: BLE001 - worker died (OOM kill, segfault)
                total.violation({"kind": "worker-died", "exc": type(e).__name__}, {"task": repr(task)[:500]},
                                observed=repr(e), note="worker process died while running this partition")
            done += 1
    return total


def chunked(seq, n):
    seq = list(seq)
    size = max(1, (len(seq) + n - 1) // n)
    return [seq[i:i + size] for i in range(0, len(seq), size)]


class Stopwatch:
    def __init__(self):
        self.t0 = time.time()

    def elapsed(self):
        return time.time() - self.t0
