"""Kernel E-thread: every interleaving of a few real threads at chosen yield points.

The bodies run on real `threading.Thread`s, but only one of them runs at a time: each thread parks at every yield point (and before its first
step) and goes on only when the controller hands it the baton.  A *schedule* is the sequence of thread choices made at the scheduling points;
the explorer enumerates schedules depth first, replaying a prefix and taking the default choice (stay with the running thread, else the lowest
id) afterwards, optionally bounded in the number of preemptions (switching away from a thread that could have gone on).  With no bound the
enumeration is every interleaving of the yield points.

Yield points are where the code under test touches the objects the harness owns: `YieldingPacket` parks at every item read, membership test and
item store of a packet.  Switches between those points reorder nothing the other thread can observe through the packet; what they do reorder -
reads and writes of state shared through the library's own objects - is exactly what the property forbids to matter.
"""
from __future__ import annotations

import threading


class _Run:
    def __init__(self, bodies, prefix):
        self.bodies = bodies
        self.prefix = list(prefix)
        self.points = []      # [(enabled tuple, chosen, running_before)]
        self.results = [None] * len(bodies)
        self.sems = [threading.Semaphore(0) for _ in bodies]
        self.ctl = threading.Semaphore(0)
        self.done = [False] * len(bodies)
        self.ids = {}

    def point(self):
        """Called by a managed thread: park until scheduled again."""
        i = self.ids.get(threading.get_ident())
        if i is None:
            return
        self.ctl.release()
        self.sems[i].acquire()

    def _thread(self, i):
        self.ids[threading.get_ident()] = i
        self.sems[i].acquire()
        try:
            self.results[i] = ("ok", self.bodies[i](self.point))
        except BaseException as e:  # noqa: BLE001 - the observation
            self.results[i] = ("raised", type(e).__name__, str(e)[:120])
        self.done[i] = True
        self.ctl.release()

    def execute(self):
        ths = [threading.Thread(target=self._thread, args=(i,), daemon=True) for i in range(len(self.bodies))]
        for t in ths:
            t.start()
        running = None
        step = 0
        while not all(self.done):
            enabled = tuple(i for i in range(len(self.bodies)) if not self.done[i])
            order = ([running] if running in enabled else []) + [i for i in enabled if i != running]
            if step < len(self.prefix):
                k = self.prefix[step]
                if k >= len(order):
                    raise RuntimeError(f"schedule prefix diverged at step {step}: choice {k} of {order}")
            else:
                k = 0
            chosen = order[k]
            self.points.append((order, k, running))
            running = chosen
            step += 1
            self.sems[chosen].release()
            if not self.ctl.acquire(timeout=30):
                raise RuntimeError("a managed thread neither parked nor finished within 30 s")
        for t in ths:
            t.join(timeout=5)
        return self


def explore(make_bodies, check, bound=None, max_execs=200_000):
    """make_bodies() -> list of callables body(point) (fresh objects per execution where needed); check(results, choices) is called for every
    complete execution.  -> dict(executions, capped, max_points)."""
    stats = {"executions": 0, "capped": False, "max_points": 0}
    stack = [[]]
    while stack:
        prefix = stack.pop()
        if stats["executions"] >= max_execs:
            stats["capped"] = True
            break
        run = _Run(make_bodies(), prefix).execute()
        stats["executions"] += 1
        stats["max_points"] = max(stats["max_points"], len(run.points))
        choices = [k for _, k, _ in run.points]
        check(run.results, choices)
        # alternatives at every point after the prefix
        pre = 0
        costs = []
        for (order, k, running) in run.points:
            costs.append(pre)
            if k != 0 and running is not None and running in order:
                pre += 1
        for i in range(len(prefix), len(run.points)):
            order, k, running = run.points[i]
            for alt in range(1, len(order)):
                cost = costs[i] + (1 if (running is not None and running in order) else 0)
                if bound is not None and cost > bound:
                    continue
                stack.append(choices[:i] + [alt])
    return stats


def yielding_packet_class():
    """A CCSDSPacket whose item reads, membership tests and item stores are yield points of the run that is current on the calling thread."""
    from space_packet_parser.packets import CCSDSPacket

    class YieldingPacket(CCSDSPacket):
        # the body that owns the packet sets  packet._pt = point  (left unset, the packet behaves like any other)
        def _park(self):
            pt = self.__dict__.get("_pt")
            if pt is not None:
                pt()

        def __getitem__(self, k):
            self._park()
            return super().__getitem__(k)

        def __contains__(self, k):
            self._park()
            return super().__contains__(k)

        def __setitem__(self, k, v):
            self._park()
            return super().__setitem__(k, v)

        def get(self, k, d=None):
            self._park()
            return super().get(k, d)
    return YieldingPacket
