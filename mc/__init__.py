"""Bounded-exhaustive (small scope) model checking of space_packet_parser.

See /verif/DESIGN.md.  Everything here drives the *installed, editable* copy of
/repo through its public API and compares it with independent reference models.
"""
import os

VERIF_ROOT = os.path.dirname(os.path.dirname(os.path.abspath(__file__)))
REPO_ROOT = os.environ.get("SPP_REPO", "/repo")
