"""DocSpec: an independent abstract syntax for XTCE packet definitions.

Three renderers: XML text (several namespace spellings, comment / whitespace injection), library
objects (public constructors only) and - in mc/ref/interp.py - the reference interpreter.
Nothing here imports the library except `build_objects`.
"""
from __future__ import annotations

import zlib
import re
from dataclasses import dataclass, field, replace
from typing import Optional, Tuple, Union
from xml.sax.saxutils import escape, quoteattr

XTCE_URI = "http://www.omg.org/space/xtce"
XSI_URI = "http://www.w3.org/2001/XMLSchema-instance"


# ----------------------------------------------------------------------------- criteria
@dataclass(frozen=True)
class Cmp:
    param: str
    op: str = "=="
    value: str = "0"
    use_cal: bool = True


@dataclass(frozen=True)
class Cond:
    left: str
    op: str
    right_param: Optional[str] = None
    right_value: Optional[str] = None
    left_cal: bool = True
    right_cal: bool = True


@dataclass(frozen=True)
class And:
    conds: Tuple[Cond, ...] = ()
    ors: Tuple["Or", ...] = ()


@dataclass(frozen=True)
class Or:
    conds: Tuple[Cond, ...] = ()
    ands: Tuple[And, ...] = ()


@dataclass(frozen=True)
class BoolExpr:
    expr: Union[Cond, And, Or]


# a criteria list: () = none; (Cmp,) = Comparison; (Cmp, Cmp, ..) = ComparisonList; (BoolExpr,) = BooleanExpression
Criteria = Tuple[Union[Cmp, BoolExpr], ...]


# ----------------------------------------------------------------------------- calibrators
@dataclass(frozen=True)
class Poly:
    terms: Tuple[Tuple[float, int], ...]  # (coefficient, exponent)


@dataclass(frozen=True)
class Spline:
    points: Tuple[Tuple[float, float], ...]  # (raw, calibrated), strictly increasing raw
    order: int = 0
    extrapolate: bool = False


@dataclass(frozen=True)
class CtxCal:
    match: Criteria
    cal: Union[Poly, Spline]


# ----------------------------------------------------------------------------- encodings
@dataclass(frozen=True)
class IntEnc:
    bits: int
    enc: str = "unsigned"  # unsigned | signed | twosComplement
    lsb_first: bool = False
    default_cal: Optional[Union[Poly, Spline]] = None
    ctx_cals: Tuple[CtxCal, ...] = ()
    explicit_attrs: bool = True  # write encoding/byteOrder attributes explicitly in XML


@dataclass(frozen=True)
class FloatEnc:
    bits: int
    enc: str = "IEEE754"  # IEEE754 | IEEE754_1985 | MILSTD_1750A
    lsb_first: bool = False
    default_cal: Optional[Union[Poly, Spline]] = None
    ctx_cals: Tuple[CtxCal, ...] = ()
    explicit_attrs: bool = True


@dataclass(frozen=True)
class Fixed:
    bits: int


@dataclass(frozen=True)
class Dyn:
    ref: str
    use_cal: bool = True
    slope: Optional[int] = None  # None/None = no LinearAdjustment element
    intercept: Optional[int] = None


@dataclass(frozen=True)
class Lookup:
    entries: Tuple[Tuple[Tuple[Cmp, ...], float], ...]  # (criteria, value)


Length = Union[Fixed, Dyn, Lookup]


@dataclass(frozen=True)
class StrEnc:
    length: Length
    charset: str = "UTF-8"
    byte_order: Optional[str] = None  # only for UTF-16 / UTF-32 without LE/BE suffix
    term: Optional[str] = None  # hex
    lead: Optional[int] = None  # bits of the size tag


@dataclass(frozen=True)
class BinEnc:
    length: Length


Encoding = Union[IntEnc, FloatEnc, StrEnc, BinEnc]


# ----------------------------------------------------------------------------- types / parameters / containers
@dataclass(frozen=True)
class PType:
    name: str
    kind: str  # Integer Float Enumerated Boolean String Binary AbsoluteTime RelativeTime
    enc: Encoding
    unit: Optional[str] = None
    enum: Tuple[Tuple[Union[int, float, str], str], ...] = ()  # (value, label)
    scale: Optional[float] = None  # time types
    offset: Optional[float] = None
    epoch: Optional[str] = None
    offset_from: Optional[str] = None


@dataclass(frozen=True)
class Param:
    name: str
    ptype: str
    short: Optional[str] = None
    long: Optional[str] = None


@dataclass(frozen=True)
class Container:
    name: str
    entries: Tuple[Tuple[str, str], ...]  # ('p', parameter name) | ('c', container name)
    base: Optional[str] = None
    criteria: Optional[Criteria] = None  # None = no RestrictionCriteria element
    abstract: bool = False
    short: Optional[str] = None
    long: Optional[str] = None
    force_list: bool = False  # render a one-element criteria as ComparisonList


@dataclass(frozen=True)
class Doc:
    ptypes: Tuple[PType, ...]
    params: Tuple[Param, ...]
    containers: Tuple[Container, ...]
    root: str = "CCSDSPacket"
    name: Optional[str] = "S"
    date: Optional[str] = "2026-01-01T00:00:00"

    def ptype(self, name):
        for p in self.ptypes:
            if p.name == name:
                return p
        raise KeyError(name)

    def param(self, name):
        for p in self.params:
            if p.name == name:
                return p
        raise KeyError(name)

    def container(self, name):
        for c in self.containers:
            if c.name == name:
                return c
        raise KeyError(name)


# ----------------------------------------------------------------------------- standard header
HEADER_NAMES = ("VERSION", "TYPE", "SEC_HDR_FLG", "PKT_APID", "SEQ_FLGS", "SRC_SEQ_CTR", "PKT_LEN")
HEADER_BITS = (3, 1, 1, 11, 2, 14, 16)


def header_ptypes(prefix="H"):
    return tuple(PType(f"{prefix}U{b}", "Integer", IntEnc(b)) for b in sorted(set(HEADER_BITS)))


def header_params(names=HEADER_NAMES, prefix="H"):
    return tuple(Param(n, f"{prefix}U{b}") for n, b in zip(names, HEADER_BITS))


def header_entries(names=HEADER_NAMES):
    return tuple(("p", n) for n in names)


# ----------------------------------------------------------------------------- XML rendering
class El:
    __slots__ = ("tag", "attrs", "children", "text")

    def __init__(self, tag, attrs=None, children=None, text=None):
        self.tag = tag
        self.attrs = attrs or {}
        self.children = children or []
        self.text = text


def _b(x: bool) -> str:
    return "true" if x else "false"


def _num(x) -> str:
    if isinstance(x, float) and x.is_integer() and abs(x) < 1e15:
        return repr(x)
    return repr(x) if isinstance(x, float) else str(x)


def _cmp_el(c: Cmp, minimal=False) -> El:
    a = {"parameterRef": c.param, "value": c.value}
    if not (minimal and c.op == "=="):
        a["comparisonOperator"] = c.op
    if not (minimal and c.use_cal):
        a["useCalibratedValue"] = _b(c.use_cal)
    return El("Comparison", a)


def _cond_el(c: Cond) -> El:
    kids = [El("ParameterInstanceRef", {"parameterRef": c.left, "useCalibratedValue": _b(c.left_cal)}),
            El("ComparisonOperator", text=c.op)]
    if c.right_param is not None:
        kids.append(El("ParameterInstanceRef", {"parameterRef": c.right_param, "useCalibratedValue": _b(c.right_cal)}))
    else:
        kids.append(El("Value", text=str(c.right_value)))
    return El("Condition", children=kids)


def _and_el(a: And) -> El:
    return El("ANDedConditions", children=[_cond_el(c) for c in a.conds] + [_or_el(o) for o in a.ors])


def _or_el(o: Or) -> El:
    return El("ORedConditions", children=[_cond_el(c) for c in o.conds] + [_and_el(a) for a in o.ands])


def _boolexpr_el(b: BoolExpr) -> El:
    e = b.expr
    kid = _cond_el(e) if isinstance(e, Cond) else _and_el(e) if isinstance(e, And) else _or_el(e)
    return El("BooleanExpression", children=[kid])


def _criteria_el(crit: Criteria, force_list=False, minimal=False) -> El:
    if len(crit) == 1 and isinstance(crit[0], BoolExpr):
        return _boolexpr_el(crit[0])
    if len(crit) == 1 and not force_list:
        return _cmp_el(crit[0], minimal)
    return El("ComparisonList", children=[_cmp_el(c, minimal) for c in crit])


def _cal_el(cal) -> El:
    if isinstance(cal, Poly):
        return El("PolynomialCalibrator", children=[El("Term", {"coefficient": _num(c), "exponent": str(e)})
                                                     for c, e in cal.terms])
    return El("SplineCalibrator", {"order": str(cal.order), "extrapolate": _b(cal.extrapolate)},
              [El("SplinePoint", {"raw": _num(r), "calibrated": _num(c)}) for r, c in cal.points])


def _numeric_enc_el(enc, minimal=False) -> El:
    tag = "IntegerDataEncoding" if isinstance(enc, IntEnc) else "FloatDataEncoding"
    a = {"sizeInBits": str(enc.bits)}
    default_enc = "unsigned" if isinstance(enc, IntEnc) else "IEEE754"
    if enc.explicit_attrs or enc.enc != default_enc:
        a["encoding"] = enc.enc
    if enc.explicit_attrs or enc.lsb_first:
        a["byteOrder"] = "leastSignificantByteFirst" if enc.lsb_first else "mostSignificantByteFirst"
    kids = []
    if enc.default_cal is not None:
        kids.append(El("DefaultCalibrator", children=[_cal_el(enc.default_cal)]))
    if enc.ctx_cals:
        kids.append(El("ContextCalibratorList", children=[
            El("ContextCalibrator", children=[
                El("ContextMatch", children=[_criteria_el(cc.match)]),
                El("Calibrator", children=[_cal_el(cc.cal)])]) for cc in enc.ctx_cals]))
    return El(tag, a, kids)


def _length_kids(length, for_string: bool):
    """Children describing a computed length (inside Variable for strings / SizeInBits for binaries)."""
    if isinstance(length, Dyn):
        kids = [El("ParameterInstanceRef", {"parameterRef": length.ref, "useCalibratedValue": _b(length.use_cal)})]
        if length.slope is not None or length.intercept is not None:
            a = {}
            if length.slope is not None:
                a["slope"] = str(length.slope)
            if length.intercept is not None:
                a["intercept"] = str(length.intercept)
            kids.append(El("LinearAdjustment", a))
        return [El("DynamicValue", children=kids)]
    if isinstance(length, Lookup):
        return [El("DiscreteLookupList", children=[
            El("DiscreteLookup", {"value": _num(v)}, [_criteria_el(crit)]) for crit, v in length.entries])]
    raise TypeError(length)


def _enc_el(enc) -> El:
    if isinstance(enc, (IntEnc, FloatEnc)):
        return _numeric_enc_el(enc)
    if isinstance(enc, StrEnc):
        a = {"encoding": enc.charset}
        if enc.byte_order:
            a["byteOrder"] = enc.byte_order
        if isinstance(enc.length, Fixed):
            size = El("SizeInBits", children=[El("Fixed", children=[El("FixedValue", text=str(enc.length.bits))])])
        else:
            size = El("Variable", children=_length_kids(enc.length, True))
        if enc.lead is not None:
            size.children.append(El("LeadingSize", {"sizeInBitsOfSizeTag": str(enc.lead)}))
        if enc.term is not None:
            size.children.append(El("TerminationChar", text=enc.term))
        return El("StringDataEncoding", a, [size])
    if isinstance(enc, BinEnc):
        if isinstance(enc.length, Fixed):
            return El("BinaryDataEncoding", children=[El("SizeInBits", children=[El("FixedValue", text=str(enc.length.bits))])])
        return El("BinaryDataEncoding", children=[El("SizeInBits", children=_length_kids(enc.length, False))])
    raise TypeError(enc)


def _ptype_el(pt: PType) -> El:
    tag = pt.kind + "ParameterType"
    if pt.kind in ("AbsoluteTime", "RelativeTime"):
        a = {}
        if pt.unit is not None:
            a["units"] = pt.unit
        if pt.scale is not None:
            a["scale"] = _num(pt.scale)
        if pt.offset is not None:
            a["offset"] = _num(pt.offset)
        kids = [El("Encoding", a, [_enc_el(pt.enc)])]
        if pt.offset_from is not None or pt.epoch is not None:
            rk = []
            if pt.offset_from is not None:
                rk.append(El("OffsetFrom", {"parameterRef": pt.offset_from}))
            if pt.epoch is not None:
                rk.append(El("Epoch", text=pt.epoch))
            kids.append(El("ReferenceTime", children=rk))
        return El(tag, {"name": pt.name}, kids)
    kids = []
    if pt.unit is not None:
        kids.append(El("UnitSet", children=[El("Unit", text=pt.unit)]))
    else:
        kids.append(El("UnitSet"))   # the customary empty unit set
    kids.append(_enc_el(pt.enc))
    if pt.kind == "Enumerated":
        kids.append(El("EnumerationList", children=[El("Enumeration", {"value": _num(v) if not isinstance(v, str) else v,
                                                                      "label": lab}) for v, lab in pt.enum]))
    return El(tag, {"name": pt.name}, kids)


def _param_el(p: Param) -> El:
    a = {"name": p.name, "parameterTypeRef": p.ptype}
    if p.short is not None:
        a["shortDescription"] = p.short
    kids = [El("LongDescription", text=p.long)] if p.long is not None else []
    return El("Parameter", a, kids)


def _container_el(c: Container) -> El:
    a = {"name": c.name}
    if c.abstract:
        a["abstract"] = "true"
    if c.short is not None:
        a["shortDescription"] = c.short
    kids = []
    if c.long is not None:
        kids.append(El("LongDescription", text=c.long))
    if c.base is not None:
        bk = []
        if c.criteria is not None:
            bk.append(El("RestrictionCriteria", children=[_criteria_el(c.criteria, c.force_list)]))
        kids.append(El("BaseContainer", {"containerRef": c.base}, bk))
    kids.append(El("EntryList", children=[
        El("ParameterRefEntry", {"parameterRef": n}) if k == "p" else El("ContainerRefEntry", {"containerRef": n})
        for k, n in c.entries]))
    return El("SequenceContainer", a, kids)


def doc_tree(doc: Doc) -> El:
    hdr = {"version": "1.0", "validationStatus": "Unknown"}
    if doc.date is not None:
        hdr["date"] = doc.date
    root_attrs = {}
    if doc.name is not None:
        root_attrs["name"] = doc.name
    return El("SpaceSystem", root_attrs, [
        El("Header", hdr),
        El("TelemetryMetaData", children=[
            El("ParameterTypeSet", children=[_ptype_el(p) for p in doc.ptypes]),
            El("ParameterSet", children=[_param_el(p) for p in doc.params]),
            El("ContainerSet", children=[_container_el(c) for c in doc.containers]),
        ])])


NS_STYLES = ("xtce", "q", "XTCE", "default", "none", "none+xsi")
EXTRA_NS = {"dc": "http://purl.org/dc/elements/1.1/", "xi": "http://www.w3.org/2001/XInclude", "xlink": "http://www.w3.org/1999/xlink",
            "xsi": "http://www.w3.org/2001/XMLSchema-instance", "zz": "urn:example:mission"}


def ns_prefix_arg(style: str):
    """The xtce_ns_prefix argument that goes with a namespace style."""
    # the two 'both' styles bind the XTCE namespace twice on the root (xmlns= and xmlns:xtce=): the elements are spelled one way, the loader
    # is told the OTHER binding, which names the same namespace
    return {"xtce": "xtce", "q": "q", "XTCE": "XTCE", "default": None, "none": None, "none+xsi": None,
            "both:unprefixed,loaded-as-xtce": "xtce", "both:prefixed,loaded-as-default": None, "xtce+extras": "xtce", "xtce+foreign-default": "xtce"}[style]


def count_positions(doc: Doc) -> int:
    """Number of inter-element positions at which a comment can be inserted."""
    n = [0]

    def walk(e):
        n[0] += 1  # before this element's start tag (inside its parent) - not for root
        for k in e.children:
            walk(k)
        if e.children:
            n[0] += 1  # after the last child, before the end tag
        elif e.text is None:
            n[0] += 1  # inside an element that is otherwise empty
    for k in doc_tree(doc).children:
        walk(k)
    return n[0] + 1


BOOL_ATTRS = ("useCalibratedValue", "abstract", "extrapolate")
# attribute values that equal the library's documented default: a document that leaves them out means the same
DEFAULT_ATTRS = {
    ("Comparison", "comparisonOperator"): "==", ("Comparison", "useCalibratedValue"): "true",
    ("ParameterInstanceRef", "useCalibratedValue"): "true",
    ("IntegerDataEncoding", "encoding"): "unsigned", ("IntegerDataEncoding", "byteOrder"): "mostSignificantByteFirst",
    ("FloatDataEncoding", "encoding"): "IEEE754", ("FloatDataEncoding", "byteOrder"): "mostSignificantByteFirst",
    ("StringDataEncoding", "encoding"): "UTF-8",
    ("SplineCalibrator", "order"): "0", ("SplineCalibrator", "extrapolate"): "false",
    ("SequenceContainer", "abstract"): "false",
    ("LinearAdjustment", "slope"): "0", ("LinearAdjustment", "intercept"): "0",
}


def render_xml(doc: Doc, style: str = "xtce", comments=None, whitespace: bool = False,
               tree: Optional[El] = None, bool_case: str = "lower", omit_defaults: bool = False,
               text_style: str = "plain", extra_attrs: bool = False, xml_encoding: str = "UTF-8", padded_numbers: bool = False) -> bytes:
    """Serialise.  comments: None | 'all' | set of position indices (see count_positions).
    text_style: how element text and attribute values are spelled - 'plain', 'charref' (first character as a numeric character reference,
    decimal and hexadecimal alternating), 'entity' (element text through general entities declared in an internal DTD subset; attribute
    values through character references) or 'cdata' (element text in a CDATA section).  XML defines all four to carry the same characters.
    bool_case: spelling of boolean attribute values, 'lower' (true/false), 'title' (True/False) or 'upper' (TRUE/FALSE); the library reads
    all three alike in every place where it reads a boolean."""
    tree = tree or doc_tree(doc)
    pfx = {"xtce": "xtce:", "q": "q:", "XTCE": "XTCE:", "default": "", "none": "", "none+xsi": "",
           "both:unprefixed,loaded-as-xtce": "", "both:prefixed,loaded-as-default": "xtce:", "xtce+extras": "xtce:", "xtce+foreign-default": "xtce:"}[style]
    out = ["<?xml version='1.0' encoding='UTF-8'?>\n"]
    pos = [0]
    entities = {}   # text -> entity name (text_style 'entity')
    nref = [0]

    def charref(t):
        if not t:
            return escape(t)
        nref[0] += 1
        return (f"&#{ord(t[0])};" if nref[0] % 2 else f"&#x{ord(t[0]):X};") + escape(t[1:])

    def spell_attr(v):
        if text_style in ("charref", "entity"):
            t = str(v)
            if not t:
                return '""'
            nref[0] += 1
            rest = escape(t[1:], {'"': "&quot;", "\n": "&#10;", "\r": "&#13;", "\t": "&#9;"})
            return '"' + (f"&#{ord(t[0])};" if nref[0] % 2 else f"&#x{ord(t[0]):x};") + rest + '"'
        return quoteattr(str(v))

    def spell_text(t):
        if text_style == "charref":
            return charref(t)
        if text_style == "entity" and t:
            return "&" + entities.setdefault(t, f"t{len(entities)}") + ";"
        if text_style == "cdata" and "]]>" not in t:
            return "<![CDATA[" + t + "]]>"
        return escape(t)

    def want_comment():
        i = pos[0]
        pos[0] += 1
        return comments == "all" or (comments is not None and comments != "all" and i in comments)

    def ws(depth):
        return ("\n" + "  " * depth) if whitespace else ""

    def emit(e: El, depth: int, is_root=False):
        av = dict(e.attrs)
        if padded_numbers and e.tag == "Enumeration" and re.fullmatch(r"-?\d+", str(av.get("value", ""))):
            # integers spelled as tables often spell them: zero-padded to a common width (int() reads "007" and "-02" as 7 and -2)
            v_ = str(av["value"])
            av["value"] = ("-" + v_[1:].zfill(3)) if v_.startswith("-") else v_.zfill(3)
        if padded_numbers and "sizeInBits" in av and str(av["sizeInBits"]).isdigit():
            av["sizeInBits"] = str(av["sizeInBits"]).zfill(2)
        if extra_attrs and e.tag in ("ParameterRefEntry", "ContainerRefEntry"):
            av["shortDescription"] = "as used in this container"      # the schema lets an entry carry a description of its own
        if extra_attrs and e.tag in ("IntegerParameterType", "FloatParameterType", "EnumeratedParameterType"):
            # attributes of the schema that describe the engineering value, not the encoding: they change nothing about how bits are read
            if e.tag == "IntegerParameterType":
                av["signed"] = "true" if len(av.get("name", "")) % 2 else "false"
            av["sizeInBits"] = "64" if len(av.get("name", "")) % 3 else "32"
            if e.tag != "EnumeratedParameterType":
                av["initialValue"] = "1"
        if omit_defaults:
            for k in list(av):
                if DEFAULT_ATTRS.get((e.tag, k)) == str(av[k]):
                    del av[k]
        if bool_case != "lower":
            for k in BOOL_ATTRS:
                if av.get(k) in ("true", "false"):
                    av[k] = av[k].title() if bool_case == "title" else av[k].upper()
        attrs = "".join(f" {k}={spell_attr(v)}" for k, v in av.items())
        if is_root:
            if style in ("xtce", "q", "XTCE"):
                attrs += f' xmlns:{pfx[:-1]}="{XTCE_URI}"'
            elif style == "default":
                attrs += f' xmlns="{XTCE_URI}"'
            elif style == "none+xsi":
                attrs += f' xmlns:xsi="{XSI_URI}"'
            elif style.startswith("both:"):
                attrs += f' xmlns="{XTCE_URI}" xmlns:xtce="{XTCE_URI}"'
            elif style == "xtce+foreign-default":
                # the root also declares a DEFAULT namespace that is not XTCE and that no element uses
                attrs += f' xmlns:xtce="{XTCE_URI}" xmlns="http://www.w3.org/1999/xhtml"'
            elif style == "xtce+extras":
                # the XTCE prefix among other declarations the document makes (none of them used by an element)
                attrs += "".join(f' xmlns:{k}="{v}"' for k, v in EXTRA_NS.items() if k < "xtce") + f' xmlns:xtce="{XTCE_URI}"' + \
                    "".join(f' xmlns:{k}="{v}"' for k, v in EXTRA_NS.items() if k > "xtce")
        tag = pfx + e.tag
        if not e.children and e.text is None:
            if want_comment():   # a comment as the only content of an otherwise empty element
                out.append(f"<{tag}{attrs}><!-- c{pos[0]} --></{tag}>")
            else:
                out.append(f"<{tag}{attrs}/>")
            return
        out.append(f"<{tag}{attrs}>")
        if extra_attrs and e.tag == "DefaultCalibrator":
            # the schema lets a calibrator carry ancillary data in front of the calibration itself
            out.append(f'<{pfx}AncillaryDataSet><{pfx}AncillaryData name="source">bench 3</{pfx}AncillaryData></{pfx}AncillaryDataSet>')
        if e.text is not None:
            out.append(spell_text(e.text))
            if comments == "all" and e.text != "" and e.text.strip() == "":
                # text that consists of blanks only is still the element's text when a comment follows it inside the element
                out.append("<!-- after blank text -->")
        for k in e.children:
            if want_comment():
                out.append(ws(depth + 1) + f"<!-- c{pos[0]} -->")
            out.append(ws(depth + 1))
            emit(k, depth + 1)
        if e.children:
            if want_comment():
                out.append(ws(depth + 1) + f"<!-- c{pos[0]} -->")
            out.append(ws(depth))
        out.append(f"</{tag}>")

    emit(tree, 0, True)
    out.append("\n")
    if entities:
        decl = "".join('<!ENTITY %s "%s">' % (n, escape(t, {'"': "&quot;", "%": "&#37;"})) for t, n in entities.items())
        out.insert(1, f"<!DOCTYPE {pfx}SpaceSystem [{decl}]>\n")
    if xml_encoding != "UTF-8":
        # the document stored in another character encoding, as its XML declaration says (UTF-16 comes with its byte order mark)
        try:
            return ("".join(["<?xml version='1.0' encoding='%s'?>\n" % xml_encoding] + out[1:])).encode(xml_encoding)
        except UnicodeEncodeError:
            pass
    return "".join(out).encode("utf-8")


# ----------------------------------------------------------------------------- object rendering (public constructors)
def build_objects(doc: Doc, style: str = "xtce"):
    """Assemble the definition with the library's public constructors."""
    from space_packet_parser.xtce import calibrators, comparisons, containers, definitions, encodings, parameter_types, parameters

    def mk_cmp(c: Cmp):
        return comparisons.Comparison(c.value, c.param, operator=c.op, use_calibrated_value=c.use_cal)

    def mk_cond(c: Cond):
        if c.right_param is not None:
            return comparisons.Condition(c.left, c.op, right_param=c.right_param, left_use_calibrated_value=c.left_cal,
                                         right_use_calibrated_value=c.right_cal)
        rv = c.right_value
        if isinstance(rv, str) and zlib.crc32(f"{c.left}|{c.op}".encode()) % 3:
            # a definition assembled in code gives numbers as numbers where their text form is the same text
            for conv in (int, float):
                try:
                    if repr(conv(rv)) == rv:
                        rv = conv(rv)
                        break
                except ValueError:
                    pass
        return comparisons.Condition(c.left, c.op, right_value=rv, left_use_calibrated_value=c.left_cal,
                                     right_use_calibrated_value=False)

    def mk_and(a: And):
        return comparisons.Anded([mk_cond(c) for c in a.conds], [mk_or(o) for o in a.ors])

    def mk_or(o: Or):
        return comparisons.Ored([mk_cond(c) for c in o.conds], [mk_and(a) for a in o.ands])

    def mk_crit(crit: Criteria):
        out = []
        for c in crit:
            if isinstance(c, Cmp):
                out.append(mk_cmp(c))
            else:
                e = c.expr
                out.append(comparisons.BooleanExpression(
                    mk_cond(e) if isinstance(e, Cond) else mk_and(e) if isinstance(e, And) else mk_or(e)))
        return out

    def mk_cal(cal):
        if cal is None:
            return None
        if isinstance(cal, Poly):
            return calibrators.PolynomialCalibrator([calibrators.PolynomialCoefficient(float(c), int(e)) for c, e in cal.terms])
        return calibrators.SplineCalibrator([calibrators.SplinePoint(float(r), float(c)) for r, c in cal.points],
                                            order=cal.order, extrapolate=cal.extrapolate)

    def mk_adjuster(length: Dyn):
        if length.slope is None and length.intercept is None:
            return None
        m = length.slope or 0
        b = length.intercept or 0

        def adjuster(x):
            y = m * float(x) + b
            if not float(y).is_integer():
                raise ValueError("non-integral length")
            return int(y)
        return adjuster

    def mk_lookup(length: Lookup):
        import numpy as np
        return [comparisons.DiscreteLookup([mk_cmp(c) for c in crit], (np.float64(v) if i % 2 else float(v))) for i, (crit, v) in enumerate(length.entries)]

    def mk_enc(enc, pt: PType):
        if isinstance(enc, IntEnc):
            return encodings.IntegerDataEncoding(enc.bits, enc.enc,
                                                 byte_order="leastSignificantByteFirst" if enc.lsb_first else "mostSignificantByteFirst",
                                                 default_calibrator=mk_cal(enc.default_cal),
                                                 context_calibrators=[calibrators.ContextCalibrator(mk_crit(cc.match), mk_cal(cc.cal))
                                                                      for cc in enc.ctx_cals] or None)
        if isinstance(enc, FloatEnc):
            return encodings.FloatDataEncoding(enc.bits, encoding=enc.enc,
                                               byte_order="leastSignificantByteFirst" if enc.lsb_first else "mostSignificantByteFirst",
                                               default_calibrator=mk_cal(enc.default_cal),
                                               context_calibrators=[calibrators.ContextCalibrator(mk_crit(cc.match), mk_cal(cc.cal))
                                                                    for cc in enc.ctx_cals] or None)
        if isinstance(enc, StrEnc):
            kw = {"encoding": enc.charset}
            if enc.byte_order:
                kw["byte_order"] = enc.byte_order
            if isinstance(enc.length, Fixed):
                kw["fixed_raw_length"] = enc.length.bits
            elif isinstance(enc.length, Dyn):
                kw["dynamic_length_reference"] = enc.length.ref
                kw["use_calibrated_value"] = enc.length.use_cal
                kw["length_linear_adjuster"] = mk_adjuster(enc.length)
            else:
                kw["discrete_lookup_length"] = mk_lookup(enc.length)
            if enc.term is not None:
                kw["termination_character"] = enc.term
            if enc.lead is not None:
                kw["leading_length_size"] = enc.lead
            return encodings.StringDataEncoding(**kw)
        if isinstance(enc, BinEnc):
            if isinstance(enc.length, Fixed):
                return encodings.BinaryDataEncoding(fixed_size_in_bits=enc.length.bits)
            if isinstance(enc.length, Dyn):
                return encodings.BinaryDataEncoding(size_reference_parameter=enc.length.ref,
                                                    use_calibrated_value=enc.length.use_cal,
                                                    linear_adjuster=mk_adjuster(enc.length))
            return encodings.BinaryDataEncoding(size_discrete_lookup_list=mk_lookup(enc.length))
        raise TypeError(enc)

    ptypes = {}
    for pt in doc.ptypes:
        enc = mk_enc(pt.enc, pt)
        cls = getattr(parameter_types, pt.kind + "ParameterType")
        if pt.kind == "Enumerated":
            if isinstance(pt.enc, StrEnc):
                from mc.ref.interp import codec_for
                enum = {str(v).encode(codec_for(pt.enc)): lab for v, lab in pt.enum}
            elif isinstance(pt.enc, FloatEnc):
                # numbers as a caller has them: plain, or (every other type, by its name) numpy scalars
                import numpy as np
                enum = {(np.float64(v) if len(pt.name) % 2 else float(v)): lab for v, lab in pt.enum}
            else:
                # ... plain ints, numpy integers, or the members of an IntEnum (in rotation by the type's name)
                import enum as _enum
                import numpy as np
                how = len(pt.name) % 3
                if how == 1:
                    enum = {np.int64(v): lab for v, lab in pt.enum}
                elif how == 2:
                    members = _enum.IntEnum("Raw_" + "".join(ch for ch in pt.name if ch.isalnum()), {f"V{i}": int(v) for i, (v, _) in enumerate(pt.enum)})
                    enum = {members[f"V{i}"]: lab for i, (v, lab) in enumerate(pt.enum)}
                else:
                    enum = {int(v): lab for v, lab in pt.enum}
            ptypes[pt.name] = cls(pt.name, enc, enumeration=enum, unit=pt.unit)
        elif pt.kind in ("AbsoluteTime", "RelativeTime"):
            terms = []
            if pt.offset is not None:
                terms.append(calibrators.PolynomialCoefficient(float(pt.offset), 0))
            if pt.scale is not None:
                terms.append(calibrators.PolynomialCoefficient(float(pt.scale), 1))
            elif pt.offset is not None:
                terms.append(calibrators.PolynomialCoefficient(1, 1))
            if terms:
                enc.default_calibrator = calibrators.PolynomialCalibrator(terms)
            ptypes[pt.name] = cls(pt.name, enc, unit=pt.unit, epoch=pt.epoch, offset_from=pt.offset_from)
        else:
            ptypes[pt.name] = cls(pt.name, enc, unit=pt.unit)
    params = {p.name: parameters.Parameter(p.name, ptypes[p.ptype], short_description=p.short, long_description=p.long)
              for p in doc.params}
    built = {}

    def mk_container(name):
        if name in built:
            return built[name]
        c = doc.container(name)
        entries = [params[n] if k == "p" else mk_container(n) for k, n in c.entries]
        sc = containers.SequenceContainer(name=c.name, entry_list=entries, short_description=c.short,
                                          long_description=c.long, base_container_name=c.base,
                                          restriction_criteria=mk_crit(c.criteria or ()),
                                          # the flag as a caller has it: a bool or a numpy bool (by the container's name)
                                          abstract=(bool(c.abstract), __import__("numpy").bool_(bool(c.abstract)))[len(c.name) % 2])
        built[name] = sc
        return sc

    for c in doc.containers:
        mk_container(c.name)
    for c in doc.containers:
        if c.base is not None:
            built[c.base].inheritors.append(c.name)
    ns = {"xtce": {"xtce": XTCE_URI}, "q": {"q": XTCE_URI}, "XTCE": {"XTCE": XTCE_URI}, "default": {None: XTCE_URI}, "none": {}, "none+xsi": {},
          "xtce+extras": {**{k: v for k, v in EXTRA_NS.items() if k < "xtce"}, "xtce": XTCE_URI, **{k: v for k, v in EXTRA_NS.items() if k > "xtce"}}}[style]
    # the container set is documented as "an iterable": it is handed over as a list, a tuple, a one-shot generator, an iterator or a dict view in
    # rotation (by a property of the document, so that the choice is reproducible)
    clist = [built[c.name] for c in doc.containers]
    form = (len(doc.params) + len(doc.ptypes) + len(doc.containers)) % 5
    cset = (clist, tuple(clist), (c for c in clist), iter(clist), {c.name: c for c in clist}.values())[form]
    return definitions.XtcePacketDefinition(container_set=cset, ns=ns,
                                            xtce_ns_prefix=ns_prefix_arg(style) if ns else None,
                                            root_container_name=doc.root, space_system_name=doc.name, date=doc.date)


def load_xml(xml: bytes, style: str = "xtce", root: str = "CCSDSPacket"):
    import io
    from space_packet_parser.xtce.definitions import XtcePacketDefinition
    return XtcePacketDefinition.from_xtce(io.BytesIO(xml), xtce_ns_prefix=ns_prefix_arg(style), root_container_name=root)


TEXT_STYLES = ("plain", "charref", "entity", "cdata")


def doc_xml(doc: Doc, style: str = "xtce", **kw) -> bytes:
    """The document as the checks hand it to the loader: unless the caller fixes it, the spelling of characters (plain, character references,
    internal entities, CDATA) rotates with the document's content, so every family of documents is read in all four; so do leaving out
    default-valued attributes and adding schema attributes that do not bear on decoding."""
    if "text_style" not in kw:
        import zlib
        plain = render_xml(doc, style, **kw)
        c = zlib.crc32(plain)
        ts = TEXT_STYLES[c % 4]
        # likewise: attributes that equal their documented default left out (every fourth document) and schema attributes the decoding does
        # not depend on added (every other document)
        more = {}
        if "omit_defaults" not in kw and (c >> 2) % 4 == 0:
            more["omit_defaults"] = True
        if "extra_attrs" not in kw and (c >> 4) % 2 == 0:
            more["extra_attrs"] = True
        if "padded_numbers" not in kw and (c >> 7) % 2 == 0:
            more["padded_numbers"] = True
        if "xml_encoding" not in kw and (c >> 5) % 4 < 2:
            more["xml_encoding"] = ("UTF-16", "ISO-8859-1")[(c >> 5) % 4]   # every fourth document each; ISO-8859-1 only where the text fits
        return plain if ts == "plain" and not more else render_xml(doc, style, text_style=ts, **more, **kw)
    return render_xml(doc, style, **kw)


def load_doc(doc: Doc, style: str = "xtce", **kw):
    return load_xml(doc_xml(doc, style, **kw), style, doc.root)
