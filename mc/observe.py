"""Observing the implementation and comparing an observation with a reference Outcome."""
from __future__ import annotations

import math
import threading
import zlib

from mc.kernel import observed_warnings
from mc.ref.interp import Outcome


def kind_of(v) -> str:
    if isinstance(v, bytes):
        return "bytes"
    if isinstance(v, str):
        return "str"
    if isinstance(v, bool):
        return "bool"
    if isinstance(v, float):
        return "float"
    if isinstance(v, int):
        # the int-backed boolean value class prints as True/False (only 0 and 1 can; huge ints are never turned into text here)
        return "bool" if (v == 0 or v == 1) and repr(v) in ("True", "False") else "int"
    return type(v).__name__


def plain(v):
    k = kind_of(v)
    if k == "bytes":
        return bytes(v)
    if k == "str":
        return str(v)
    if k == "float":
        return float(v)
    if k == "bool":
        return bool(v)
    if k == "int":
        return int(v)
    return v


def _kind_with_sign(v) -> str:
    """kind_of, with negative zero told apart (tuples of items are compared with ==, under which -0.0 equals 0.0)."""
    k = kind_of(v)
    if k == "float" and v == 0 and math.copysign(1.0, v) < 0:
        return "float:negative-zero"
    return k


def items_of(packet):
    out = []
    for name, v in packet.items():
        raw = getattr(v, "raw_value", "<no raw_value>")
        out.append((name, _kind_with_sign(v), plain(v), _kind_with_sign(raw), plain(raw)))
    return out


def exc_names(e) -> tuple:
    return tuple(c.__name__ for c in type(e).__mro__)


def parse_one(defn, raw: bytes, root=None):
    """Parse a single packet with parse_ccsds_packet.  Returns an observation tuple.
    One packet in sixty-four (chosen by its content, so that a replay takes the same route) is parsed on a worker thread instead of the thread that
    imported the library: a decode does not depend on the thread it runs on."""
    if type(raw) is bytes and zlib.crc32(raw) % 64 == 3 and threading.current_thread() is threading.main_thread():
        box = []
        th = threading.Thread(target=lambda: box.append(_parse_one_here(defn, raw, root)))
        th.start()
        th.join()
        if box:
            return box[0]
        return ("raised", ("WorkerThreadDied",), "the decode ended the worker thread with a BaseException", [])
    return _parse_one_here(defn, raw, root)


def _parse_one_here(defn, raw: bytes, root=None):
    from space_packet_parser.exceptions import UnrecognizedPacketTypeError
    from space_packet_parser.packets import CCSDSPacket
    pkt = CCSDSPacket(raw_data=raw)
    try:
        with observed_warnings() as w:
            out = defn.parse_ccsds_packet(pkt, root_container_name=root) if root else defn.parse_ccsds_packet(pkt)
    except UnrecognizedPacketTypeError as e:
        pd = getattr(e, "partial_data", None)
        return ("unrecognized", items_of(pd) if pd is not None else None, None, 0)
    except Exception as e:  # noqa: BLE001 - the observation
        return ("raised", exc_names(e), str(e)[:160], items_of(pkt))
    return ("parsed", items_of(out), out.raw_data.pos, len(w))


def show(x) -> str:
    """repr() that never trips over CPython's limit on converting huge ints to decimal text."""
    if isinstance(x, int) and not isinstance(x, bool) and x.bit_length() > 4000:
        return f"<{x.bit_length()}-bit int {hex(x)[:40]}...>"
    try:
        return repr(x)
    except ValueError:
        return f"<{type(x).__name__}>"


def float_close(a: float, b: float, ulps=4) -> bool:
    if math.isnan(a) or math.isnan(b):
        return math.isnan(a) and math.isnan(b)
    if a == b:
        return True
    if math.isinf(a) or math.isinf(b):
        return False
    return abs(a - b) <= ulps * max(math.ulp(a), math.ulp(b))


def same_value(want, got, tolerant=False, scale=0.0) -> bool:
    kw, kg = kind_of(want), kind_of(got)
    if kw != kg:
        return False
    if kw == "float":
        if tolerant:
            if float_close(want, got):
                return True
            return (not math.isnan(want) and not math.isnan(got) and not math.isinf(want) and not math.isinf(got)
                    and abs(want - got) <= 16 * 2.0 ** -52 * scale)
        if math.isnan(want) or math.isnan(got):
            return math.isnan(want) and math.isnan(got)
        return want == got and math.copysign(1, want) == math.copysign(1, got)
    return want == got


def compare_items(want_items, got_items, upto=None) -> str | None:
    """want_items: list[Item]; got_items: list of (name, kind, value, rawkind, raw)."""
    if got_items is None:
        return "no items observable"
    n = len(want_items) if upto is None else upto
    if upto is None and len(got_items) != len(want_items):
        return f"item count {len(got_items)} != {len(want_items)}: got {[g[0] for g in got_items]} want {[w.name for w in want_items]}"
    for i in range(n):
        w = want_items[i]
        if i >= len(got_items):
            return f"missing item #{i} {w.name}"
        name, k, v, rk, rv = got_items[i]
        if name != w.name:
            return f"item #{i} is {name}, expected {w.name}"
        if getattr(w, "unjudged", False):
            continue
        if not same_value(w.value, v, tolerant=w.calibrated, scale=w.scale):
            return f"{name}: value {show(v)} ({k}) != expected {show(w.value)} ({kind_of(w.value)})"
        if not same_value(w.raw, rv):
            return f"{name}: raw_value {show(rv)} ({rk}) != expected {show(w.raw)} ({kind_of(w.raw)})"
    return None


def compare_outcome(want: Outcome, obs) -> str | None:
    """None if the observation conforms to the reference outcome, else a reason."""
    if want.kind == "unspecified":
        return None
    tag = obs[0]
    if want.kind == "parsed":
        if tag != "parsed":
            return f"expected a parsed packet, observed {tag}: {obs[1] if tag == 'raised' else ''} {obs[2] if tag == 'raised' else ''}"
        r = compare_items(want.items, obs[1])
        if r:
            return r
        if obs[2] != want.consumed:
            return f"cursor {obs[2]} != consumed bits {want.consumed}"
        return None
    if want.kind == "unrecognized":
        if tag != "unrecognized":
            return f"expected unrecognized ({want.why}), observed {tag} {obs[1] if tag == 'raised' else ''}"
        return compare_items(want.items, obs[1])
    if want.kind == "raised":
        if want.overrun and tag == "parsed":
            # a field that extends past the end of the packet: the library may fail, or deliver the packet with its cursor beyond the
            # end (which the generator then flags; C14 decides that).  The values are not judged.
            return None if obs[2] > want.consumed else f"field extends past the end of the packet but the cursor ({obs[2]}) does not show it"
        if tag != "raised":
            return f"expected a failure ({want.why}), observed {tag}"
        if want.exc is not None and not any(n in obs[1] for n in want.exc):
            return f"expected {want.exc} ({want.why}), observed {obs[1][0]}: {obs[2]}"
        return None
    return f"unknown outcome kind {want.kind}"
