"""Environment seams: scripted sources, owned clock, liveness guards.

Nothing here touches /repo.  The scripted socket is a real subclass of
socket.socket (so the library's isinstance test selects the socket path), but it
never opens a descriptor.
"""
from __future__ import annotations

import contextlib
import hashlib
import io
import socket
import sys
import types

DEAD_POLL_LIMIT = 4  # recv/read calls tolerated after the source has answered b''


class Livelock(BaseException):
    """The implementation keeps polling a source that has already signalled end of data."""


class Horizon(BaseException):
    """The implementation produced more items than the input could possibly contain."""


class Pruned(BaseException):
    """Raised by a scripted source to abandon an execution whose state was already explored."""


class ScheduleExhausted(BaseException):
    """Raised when an execution asks for more data than the run is prepared to deliver (socket: would block)."""


def _summ(v):
    """Summarise one local variable generically (by value for scalars, by length+digest for bytes)."""
    if v is None or isinstance(v, (bool, int, float, str)):
        return v
    if isinstance(v, (bytes, bytearray)):
        b = bytes(v)
        return ("b", len(b), hashlib.blake2b(b, digest_size=8).digest())
    if isinstance(v, (tuple, list)):
        return (type(v).__name__, tuple(_summ(x) for x in v))
    if isinstance(v, dict):
        return ("dict", tuple(sorted((repr(k), _summ(x)) for k, x in v.items())))
    return ("obj", type(v).__name__)


def impl_frames_key(source_code):
    """Key of the chain of space_packet_parser frames above the scripted source.

    `source_code` is the code object of the source's recv/read method; the implementation frame
    is that method's caller.  Returns None if the caller is not a library frame
    (cannot inspect => no merging).
    """
    f = sys._getframe(1)
    while f is not None and f.f_code is not source_code:
        f = f.f_back
    if f is None:
        return None
    f = f.f_back
    if f is None or not f.f_globals.get("__name__", "").startswith("space_packet_parser"):
        return None
    key = []
    while f is not None and f.f_globals.get("__name__", "").startswith("space_packet_parser"):
        loc = f.f_locals
        key.append((f.f_code.co_name, f.f_lasti,
                    tuple(sorted((k, _summ(v)) for k, v in loc.items()))))
        f = f.f_back
    return tuple(key)


class ScriptedSocket(socket.socket):
    """A socket whose recv() answers are decided by the explorer.

    `decide(n, remaining, key)` returns the number of bytes to deliver (0 => b'').
    """

    def __init__(self, data: bytes, decide, inspect=True, msg_max=None):  # deliberately no super().__init__: no descriptor
        # msg_max: message-preserving mode (SOCK_SEQPACKET / datagram): the peer sends messages of 1..msg_max bytes; a recv(n) with n smaller
        # than the next message returns its first n bytes and the REST OF THAT MESSAGE IS LOST, as the kernel does
        self.msg_max = msg_max
        self.truncated = 0
        self._data = data
        self._off = 0
        self._decide = decide
        self._dead_polls = 0
        self._inspect = inspect
        self.calls = 0
        self.closed = False  # the peer closed (possibly before delivering everything: a crash point)

    @property
    def delivered(self):
        return self._off

    def recv(self, n, flags=0):
        self.calls += 1
        remaining = 0 if self.closed else len(self._data) - self._off
        if remaining == 0:
            self.closed = True
            self._dead_polls += 1
            if self._dead_polls > DEAD_POLL_LIMIT:
                raise Livelock(f"recv called {self._dead_polls} times after the peer closed")
        n_menu = self.msg_max if self.msg_max else n
        c = self._decide(n_menu, remaining, self._key_now if self._inspect else None, self)
        if c < 0 or c > remaining or (n_menu is not None and n_menu >= 0 and c > n_menu):
            raise AssertionError(f"explorer bug: illegal delivery {c} (n={n_menu}, remaining={remaining})")
        if c == 0:
            self.closed = True
        take = c if (not self.msg_max or n is None or n < 0) else min(c, n)
        self.truncated += c - take
        out = self._data[self._off:self._off + take]
        self._off += c
        return out

    @staticmethod
    def _key_now():
        return impl_frames_key(ScriptedSocket.recv.__code__)

    # keep accidental real-socket operations loud
    def close(self):
        pass

    def fileno(self):
        return -1


class CountingBytesIO(io.BytesIO):
    """BytesIO (an io.BufferedIOBase) that counts reads after EOF to make polling visible."""

    def __init__(self, data: bytes):
        super().__init__(data)
        self._dead_polls = 0
        self.calls = 0

    def read(self, n=-1):
        self.calls += 1
        out = super().read(n)
        if not out:
            self._dead_polls += 1
            if self._dead_polls > DEAD_POLL_LIMIT:
                raise Livelock(f"read called {self._dead_polls} times after EOF")
        return out


CLOCK_STUB = types.SimpleNamespace(time_ns=lambda: 0, time=lambda: 0.0, perf_counter=lambda: 0.0,
                                   perf_counter_ns=lambda: 0, monotonic=lambda: 0.0, monotonic_ns=lambda: 0,
                                   sleep=lambda s: None)


@contextlib.contextmanager
def owned_clock():
    """Replace the `time` reference of the framer module by a stub so that start_time is constant."""
    import space_packet_parser.packets as pk
    real = getattr(pk, "time", None)
    stub = types.SimpleNamespace(time_ns=lambda: 0, time=lambda: 0.0, perf_counter=lambda: 0.0,
                                 perf_counter_ns=lambda: 0, monotonic=lambda: 0.0, monotonic_ns=lambda: 0,
                                 sleep=lambda s: None)
    if real is not None:
        pk.time = stub
    try:
        yield
    finally:
        if real is not None:
            pk.time = real


def pull(gen, horizon):
    """Pull every item from a generator with a horizon.  Returns (items, end) where end is
    'stop' | ('raised', exc) | 'horizon' | 'livelock'."""
    items = []
    while True:
        try:
            it = next(gen)
        except StopIteration:
            return items, "stop"
        except Livelock as e:
            return items, ("livelock", str(e))
        except (Pruned, ScheduleExhausted):
            raise
        except Exception as e:  # noqa: BLE001 - the observation
            return items, ("raised", type(e).__name__, str(e)[:200])
        items.append(it)
        if len(items) > horizon:
            return items, "horizon"


class WriteOnlyStream:
    """A stand-in for sys.stdout that can only be written to (a GUI redirector, a logger adapter, a tee): print() needs nothing else."""
    def __init__(self):
        self.chars = 0

    def write(self, text):
        self.chars += len(text)
        return len(text)
