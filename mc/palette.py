"""The field-kind palette (DESIGN.md Appendix A) used by C01 / C09 / C15 / C18.

A kind builds, for a unique tag, the parameter types and the ordered fields it contributes.
Computed-length kinds are wired to an earlier reference field when one is offered, otherwise they
bring their own small LEN field.
"""
from __future__ import annotations

from dataclasses import dataclass
from typing import Callable, Optional

from mc.spec import (And, BinEnc, BoolExpr, Cmp, Cond, CtxCal, Dyn, Fixed, FloatEnc, IntEnc, Lookup, Or, Param, Poly, PType,
                     Spline, StrEnc)


@dataclass
class Built:
    ptypes: list
    fields: list          # [(param name, ptype name)]
    static_width: Optional[int]  # total bits if statically known
    ref_raw: Optional[str] = None   # name of a field usable as a raw length reference by later kinds
    ref_cal: Optional[str] = None   # name of a calibrated field usable as a length reference


@dataclass
class Kind:
    name: str
    build: Callable  # (tag, ctx) -> Built ; ctx = {"ref_raw": name|None, "ref_cal": name|None, "start": bit offset|None, "last": bool}
    core: bool = False


def _simple(name, kindname, enc_fn, width, core=False, ref=False, unit=None, **extra):
    def build(tag, ctx):
        pt = PType(f"T_{tag}", kindname, enc_fn(tag, ctx), unit=unit, **extra)
        f = f"F_{tag}"
        return Built([pt], [(f, pt.name)], width, ref_raw=f if ref == "raw" else None, ref_cal=f if ref == "cal" else None)
    return Kind(name, build, core)


POLY_A = Poly(((1.5, 0), (0.5, 1)))
POLY_3 = Poly(((-1.25, 0), (2.0, 1), (0.5, 2)))
SPL0 = Spline(((0.0, -2.0), (8.0, 0.5), (64.0, 10.0), (255.0, 0.0)), 0, False)
SPL1X = Spline(((3.0, 0.0), (31.0, 10.0), (200.0, -2.0)), 1, True)
# knots at the ends of the 64-bit range and just above 2**53: the raws of the all-ones / index / 0x5a patterns sit next to knots where no float can
SPL_BIG = Spline(((0.0, 0.0), (72623859790382848.0, 1.0), (6510615555426900480.0, 2.0), (9223372036854775808.0, 50.0), (18446744073709551616.0, 100.0)), 0, False)


def _own_len(tag, bits=3):
    pt = PType(f"LEN_T_{tag}", "Integer", IntEnc(bits))
    return pt, f"LEN_{tag}"


def _dyn_kind(name, family, charset=None, use_cal=False, slope=8, intercept=0, term=None, lead=None, core=False, no_adjust=False, cal_factor=2.0, signed_ref=False):
    def build(tag, ctx):
        pts, fields = [], []
        ref = (ctx.get("ref_cal") if cal_factor == 2.0 else None) if use_cal else (None if signed_ref else ctx.get("ref_raw"))
        if ref is None:
            if use_cal:
                lpt = PType(f"LENC_T_{tag}", "Integer", IntEnc(3, default_cal=Poly(((cal_factor, 1),))))
                ref = f"LENC_{tag}"
            elif signed_ref:
                lpt, ref = PType(f"LENS_T_{tag}", "Integer", IntEnc(3, "twosComplement")), f"LENS_{tag}"
            else:
                lpt, ref = _own_len(tag)
            pts.append(lpt)
            fields.append((ref, lpt.name))
        d = Dyn(ref, use_cal, None if no_adjust else slope, None if no_adjust else intercept)
        if family == "str":
            enc = StrEnc(d, charset or "UTF-8", None, term, lead)
            pt = PType(f"T_{tag}", "String", enc)
        else:
            pt = PType(f"T_{tag}", "Binary", BinEnc(d))
        pts.append(pt)
        fields.append((f"F_{tag}", pt.name))
        return Built(pts, fields, None)
    return Kind(name, build, core)


def _lookup_kind(name, family, core=False):
    def build(tag, ctx):
        # the first entry yields 0 bits (no payload) for the second packet of a stream; it matches before the others
        lk = Lookup((((Cmp("SRC_SEQ_CTR", "==", "1"),), 0.0), ((Cmp("SEQ_FLGS", "==", "3"), Cmp("TYPE", "==", "0")), 16.0), ((Cmp("PKT_APID", ">=", "1"),), 8.0),
                     ((Cmp("PKT_APID", "==", "0"),), 24.0)))
        pt = PType(f"T_{tag}", "String", StrEnc(lk, "ISO-8859-1")) if family == "str" else PType(f"T_{tag}", "Binary", BinEnc(lk))
        return Built([pt], [(f"F_{tag}", pt.name)], None)
    return Kind(name, build, core)


def _rest_kind():
    def build(tag, ctx):
        start = ctx.get("start")
        if start is None or not ctx.get("last"):
            # cannot take "the rest": fall back to a length taken from an own LEN field
            lpt, ref = _own_len(tag)
            pt = PType(f"T_{tag}", "Binary", BinEnc(Dyn(ref, False, 8, 0)))
            return Built([lpt, pt], [(ref, lpt.name), (f"F_{tag}", pt.name)], None)
        pt = PType(f"T_{tag}", "Binary", BinEnc(Dyn("PKT_LEN", True, 8, 56 - start)))
        return Built([pt], [(f"F_{tag}", pt.name)], None)
    return Kind("bin-rest(PKT_LEN)", build, True)


def palette():
    K = []
    I = lambda *a, **k: (lambda tag, ctx: IntEnc(*a, **k))  # noqa: E731
    F = lambda *a, **k: (lambda tag, ctx: FloatEnc(*a, **k))  # noqa: E731
    S = lambda *a, **k: (lambda tag, ctx: StrEnc(*a, **k))  # noqa: E731
    B = lambda *a, **k: (lambda tag, ctx: BinEnc(*a, **k))  # noqa: E731
    # unsigned, MSB first
    K += [_simple("u1", "Integer", I(1), 1), _simple("u3", "Integer", I(3), 3, core=True, ref="raw"),
          _simple("u8", "Integer", I(8), 8, core=True), _simple("u12", "Integer", I(12), 12, core=True),
          _simple("u16", "Integer", I(16), 16), _simple("u32", "Integer", I(32), 32, unit="counts"),
          _simple("u64", "Integer", I(64), 64), _simple("u72", "Integer", I(72), 72)]
    # signed
    K += [_simple("s4", "Integer", I(4, "signed"), 4, core=True), _simple("s8", "Integer", I(8, "twosComplement"), 8),
          _simple("s16", "Integer", I(16, "signed"), 16), _simple("s33", "Integer", I(33, "twosComplement"), 33, core=True),
          _simple("s64", "Integer", I(64, "signed"), 64)]
    # LSB first
    K += [_simple("u16le", "Integer", I(16, "unsigned", True), 16, core=True), _simple("u24le", "Integer", I(24, "unsigned", True), 24),
          _simple("s32le", "Integer", I(32, "signed", True), 32), _simple("u64le", "Integer", I(64, "unsigned", True), 64)]
    # IEEE
    K += [_simple("f16be", "Float", F(16), 16), _simple("f16le", "Float", F(16, "IEEE754", True), 16, core=True),
          _simple("f32be", "Float", F(32), 32, core=True, unit="V"), _simple("f32le", "Float", F(32, "IEEE754_1985", True), 32),
          _simple("f64be", "Float", F(64), 64), _simple("f64le", "Float", F(64, "IEEE754", True), 64)]
    K += [_simple("m1750be", "Float", F(32, "MILSTD_1750A"), 32, core=True), _simple("m1750le", "Float", F(32, "MILSTD_1750A", True), 32)]
    # calibrated
    K += [_simple("u3+poly(2x)", "Integer", I(3, default_cal=Poly(((2.0, 1),))), 3, ref="cal"),
          _simple("u8+poly", "Integer", I(8, default_cal=POLY_A), 8, core=True),
          _simple("s8+poly3terms", "Integer", I(8, "signed", default_cal=POLY_3), 8),
          _simple("u8+spline0", "Integer", I(8, default_cal=SPL0), 8),
          _simple("u8+spline1+extrapolate", "Integer", I(8, default_cal=SPL1X), 8, core=True),
          _simple("u64+spline0(knots beyond 2**53)", "Integer", I(64, default_cal=SPL_BIG), 64),
          # two points at one raw value, the calibrated value stepping DOWN there (left limit 50, right limit 20), and up again later
          _simple("u8+spline0(step down at 2, up at 165)", "Integer", I(8, default_cal=Spline(((0.0, 10.0), (2.0, 50.0), (2.0, 20.0), (165.0, 20.0), (165.0, 90.0), (255.0, 0.0)), 0, False)), 8),
          _simple("u8+spline1(step down at 90)", "Integer", I(8, default_cal=Spline(((0.0, 10.0), (90.0, 50.0), (90.0, 20.0), (255.0, 30.0)), 1, False)), 8),
          _simple("f32+poly", "Float", F(32, default_cal=Poly(((0.0, 0), (2.0, 1)))), 32),
          # numbers that need all their digits: 17-digit and very small / large coefficients, spline coordinates, time scales
          _simple("u8+poly(long coefficients)", "Integer", I(8, default_cal=Poly(((1234567.5, 0), (1.52587890625e-05, 1), (0.1, 2), (-0.3333333333333333, 3)))), 8),
          _simple("u8+spline1(long coordinates)", "Integer", I(8, default_cal=Spline(((0.0, -273.15000000000003), (100.5, 1e-07), (255.0, 12345678.901234567)), 1, True)), 8),
          _simple("s16+ctx(long coefficients)", "Integer", I(16, "signed", ctx_cals=(CtxCal((Cmp("PKT_APID", ">=", "1"),), Poly(((2.718281828459045, 0), (6.02214076e+23, 1)))),)), 16)]

    def ctx2(tag, ctx):
        return IntEnc(8, default_cal=Poly(((100.0, 0), (1.0, 1))), ctx_cals=(
            CtxCal((Cmp("SEQ_FLGS", "==", "0"),), Poly(((10.0, 0), (1.0, 1)))),
            CtxCal((Cmp("PKT_APID", "==", "1"), Cmp("TYPE", "==", "0")), Spline(((0.0, 0.0), (255.0, 510.0)), 1, False)),
            CtxCal((BoolExpr(Or((Cond("PKT_APID", "==", right_value="2", right_cal=False),),
                                (And((Cond("SEQ_FLGS", ">=", right_value="1", right_cal=False), Cond("VERSION", "!=", right_param="TYPE"))),))),),
                   Poly(((30.0, 0), (1.0, 1))))))
    K.append(_simple("u8+ctx3(earlier)+default", "Integer", ctx2, 8, core=True))

    def ctx_own(tag, ctx):
        return IntEnc(8, ctx_cals=(CtxCal((Cmp(f"F_{tag}", "<", "16", use_cal=False),), Poly(((0.25, 1),))),
                                   CtxCal((Cmp(f"F_{tag}", ">=", "128", use_cal=False), Cmp("PKT_APID", "!=", "0")), POLY_A)))
    K.append(_simple("u8+ctx(own raw)", "Integer", ctx_own, 8))

    def ctx_flags(tag, ctx):
        # two-parameter conditions with different selectors on each side, in both orders; CALREF is calibrated (2x)
        return IntEnc(8, default_cal=Poly(((200.0, 0), (1.0, 1))), ctx_cals=(
            CtxCal((BoolExpr(Cond("SEQ_FLGS", "<", right_param=f"CALREF_{tag}", left_cal=False, right_cal=True)),), Poly(((1000.0, 0), (1.0, 1)))),
            CtxCal((BoolExpr(And((Cond(f"CALREF_{tag}", ">=", right_param="SEQ_FLGS", left_cal=True, right_cal=False),
                                  Cond(f"CALREF_{tag}", "<", right_value="3", left_cal=False, right_cal=False)))),), Poly(((2000.0, 0), (1.0, 1))))))

    def build_flags(tag, ctx):
        ref = PType(f"CALREF_T_{tag}", "Integer", IntEnc(2, default_cal=Poly(((2.0, 1),))))
        pt = PType(f"T_{tag}", "Integer", ctx_flags(tag, ctx))
        return Built([ref, pt], [(f"CALREF_{tag}", ref.name), (f"F_{tag}", pt.name)], 10)
    K.append(Kind("u8+ctx(two-parameter conditions, mixed selectors)", build_flags))

    def build_sometimes(tag, ctx):
        # G is calibrated (a float) only in the first packets of a stream and a plain int afterwards; F's contexts compare against G's value,
        # so the same Comparison objects meet a float first and ints later (and the other way round in other streams)
        g = PType(f"G_T_{tag}", "Integer", IntEnc(8, ctx_cals=(CtxCal((Cmp("SRC_SEQ_CTR", "<", "3"),), Poly(((0.5, 1),))),)))
        f = PType(f"T_{tag}", "Integer", IntEnc(8, ctx_cals=(CtxCal((Cmp(f"G_{tag}", "==", "4"),), Poly(((1000.0, 0), (1.0, 1)))),
                                                            CtxCal((Cmp(f"G_{tag}", ">", "100"),), Poly(((2000.0, 0), (1.0, 1)))),
                                                            CtxCal((Cmp(f"G_{tag}", "<=", "0"),), Poly(((3000.0, 0), (1.0, 1)))))))
        return Built([g, f], [(f"G_{tag}", g.name), (f"F_{tag}", f.name)], 16)
    K.append(Kind("u8+ctx(on a parameter that is only sometimes calibrated)", build_sometimes))
    # enumerated
    K += [_simple("enum-u2", "Enumerated", I(2), 2, core=True, enum=((0, "OFF"), (1, "ON"), (2, "STANDBY"), (3, "FAULT"))),
          _simple("enum-s4", "Enumerated", I(4, "signed"), 4, enum=((-8, "MIN"), (-1, "NEG"), (0, "ZERO"), (7, "MAX"), (5, "FIVE"), (-6, "A"), (-3, "B"))),
          _simple("enum-f16", "Enumerated", F(16), 16, enum=((0.0, "ZERO"), (1.0, "ONE"), (-1.9990234375, "ALLBITS_NO"), (2.5, "X"))),
          _simple("enum-str8", "Enumerated", S(Fixed(8), "US-ASCII"), 8, enum=((" ", "SPACE"), ("A", "LETTER_A"), ("Z", "LETTER_Z"), ("U", "LETTER_U"))),
          _simple("enum-str16-utf16be", "Enumerated", S(Fixed(16), "UTF-16BE"), 16, enum=(("A", "LETTER_A"), ("\u0101", "A_MACRON"), ("\u5a5a", "CJK_5A5A"), ("\u0202", "X0202"))),
          _simple("enum-str16-utf16+byteOrderMSB", "Enumerated", S(Fixed(16), "UTF-16", "mostSignificantByteFirst"), 16,
                  enum=(("A", "LETTER_A"), ("\u0101", "A_MACRON"), ("\u5a5a", "CJK_5A5A"), ("\u0202", "X0202"), ("\ua5a5", "XA5A5"))),
          _simple("enum-str16-utf16+byteOrderLSB", "Enumerated", S(Fixed(16), "UTF-16", "leastSignificantByteFirst"), 16,
                  enum=(("A", "LETTER_A"), ("\u0101", "A_MACRON"), ("\u5a5a", "CJK_5A5A"), ("\u0202", "X0202"), ("\ua5a5", "XA5A5"))),
          _simple("enum-u8+poly", "Enumerated", I(8, default_cal=POLY_A), 8, enum=tuple((v, f"L{v}") for v in (0, 1, 0x55, 0x5A, 0xA5, 0xAA, 0xFF, 0x80, 0x7F, 2, 4, 8, 16, 32, 64)))]
    # boolean
    K += [_simple("bool-u1", "Boolean", I(1), 1, core=True), _simple("bool-u8", "Boolean", I(8), 8),
          _simple("bool-f16", "Boolean", F(16), 16), _simple("bool-u8+poly", "Boolean", I(8, default_cal=POLY_A), 8)]
    # strings, fixed
    K += [_simple("str16-ascii", "String", S(Fixed(16), "US-ASCII"), 16, core=True),
          _simple("str12-utf8", "String", S(Fixed(12), "UTF-8"), 12),
          _simple("str24-term00-utf8", "String", S(Fixed(24), "UTF-8", None, "00"), 24, core=True),
          _simple("str40-cp1252", "String", S(Fixed(40), "Windows-1252"), 40),
          _simple("str40-term(e-acute, 2 bytes)-utf8", "String", S(Fixed(40), "UTF-8", None, "c3a9"), 40),
          _simple("str32-term0058-utf16be", "String", S(Fixed(32), "UTF-16BE", None, "0058"), 32),
          _simple("str24-lead8-ascii", "String", S(Fixed(24), "US-ASCII", None, None, 8), 24, core=True),
          _simple("str27-lead3-ascii", "String", S(Fixed(27), "US-ASCII", None, None, 3), 27),
          _simple("str32-utf16le", "String", S(Fixed(32), "UTF-16LE"), 32),
          _simple("str32-utf32be", "String", S(Fixed(32), "UTF-32BE"), 32),
          _simple("str16-cp1252", "String", S(Fixed(16), "Windows-1252"), 16),
          _simple("str16-latin1", "String", S(Fixed(16), "ISO-8859-1"), 16, unit="text"),
          _simple("str32-utf16+byteOrder", "String", S(Fixed(32), "UTF-16", "mostSignificantByteFirst"), 32)]
    # strings, computed
    K += [_dyn_kind("str-dyn(raw ref, x8)", "str", "ISO-8859-1", core=True),
          _dyn_kind("str-dyn(calibrated ref, x8+8)-latin1", "str", "ISO-8859-1", use_cal=True, slope=8, intercept=8),
          _dyn_kind("str-dyn(raw ref, x8)-term-utf8", "str", "UTF-8", term="00"),
          _lookup_kind("str-lookup(3 entries)", "str", core=True)]
    # binary
    K += [_simple("bin8", "Binary", B(Fixed(8)), 8), _simple("bin12", "Binary", B(Fixed(12)), 12, core=True),
          _simple("bin17", "Binary", B(Fixed(17)), 17),
          _dyn_kind("bin-dyn(raw ref, x8)", "bin", core=True),
          _dyn_kind("bin-dyn(calibrated ref, x8)", "bin", use_cal=True),
          _dyn_kind("bin-dyn(calibrated ref, no adjustment)", "bin", use_cal=True, no_adjust=True),
          _dyn_kind("bin-dyn(raw ref, x1+3)", "bin", slope=1, intercept=3),
          # a signed length reference (-4..3) with an intercept that keeps every length at or above 0 bits
          _dyn_kind("bin-dyn(signed raw ref, x8+32)", "bin", slope=8, intercept=32, signed_ref=True),
          # the calibrated length is a multiple of one half; the adjustment multiplies it by 16 (always a whole number of bits) / by 8 plus 4
          _dyn_kind("bin-dyn(calibrated ref in halves, x16)", "bin", use_cal=True, slope=16, cal_factor=0.5),
          _dyn_kind("str-dyn(calibrated ref in halves, x8+4)-latin1", "str", "ISO-8859-1", use_cal=True, slope=8, intercept=4, cal_factor=0.5),
          _rest_kind(), _lookup_kind("bin-lookup", "bin", core=True)]
    # time
    K += [_simple("abstime-u32(scale,offset,units,epoch)", "AbsoluteTime", I(32), 32, core=True, unit="seconds", scale=0.5, offset=16.0, epoch="TAI"),
          _simple("reltime-u16(scale only)", "RelativeTime", I(16), 16, scale=0.125),
          _simple("abstime-u16(offsetFrom)", "AbsoluteTime", I(16), 16, unit="s", offset_from="SRC_SEQ_CTR"),
          _simple("reltime-u32(long scale and offset)", "RelativeTime", I(32), 32, scale=1.0000000000000002e-03, offset=-946727935.816),
          _simple("abstime-u16(no scale, linear calibrator on the encoding)", "AbsoluteTime", I(16, default_cal=Poly(((1.5, 0), (0.5, 1)))), 16, unit="s"),
          # polynomials on a time encoding that the scale/offset attributes of <Encoding> cannot express
          _simple("abstime-u16(constant polynomial on the encoding)", "AbsoluteTime", I(16, default_cal=Poly(((315964800.0, 0),))), 16, unit="s", epoch="1970-01-01T00:00:00"),
          _simple("reltime-u16(quadratic polynomial on the encoding)", "RelativeTime", I(16, default_cal=Poly(((10.0, 0), (0.5, 2)))), 16),
          _simple("abstime-u8(first and second order, no constant)", "AbsoluteTime", I(8, default_cal=Poly(((2.0, 1), (0.25, 2)))), 8, unit="s")]
    return K
