"""C06 — Match criteria evaluate to the mathematical truth of their comparisons.

E-prod.  Object level (public constructors + evaluate): full truth tables of Comparison and
Condition over value/raw/literal alphabets that include falsy values and int-vs-float pairs;
every AND/OR tree up to a size bound under every truth assignment; DiscreteLookup.
Consumer level (documents): the same criteria as RestrictionCriteria, read from XML, observed
through which container a packet ends up in.
"""
from __future__ import annotations

import itertools
import math

from mc import docs
from mc.kernel import Tally, case_alarm, chunked, fan_out, observed_warnings
from mc.observe import compare_outcome, parse_one
from mc.ref import interp
from mc.ref.interp import decode_packet
from mc.spec import (And, BoolExpr, Cmp, Cond, Container, Doc, FloatEnc, IntEnc, Or, Param, Poly, PType, StrEnc, Fixed,
                     header_entries, header_params, header_ptypes, load_doc, build_objects)

PROP = "C06"
LEVEL = "exploration"

KNOWN_OPS = ["==", "eq", "!=", "neq", "&lt;", "lt", "<", "&gt;", "gt", ">", "&lt;=", "leq", "<=", "&gt;=", "geq", ">="]


def _accepted_spellings():
    """The operator spellings the library accepts NOW (its own table), so that a spelling added later is judged too; each is read for what it
    says: entity and word forms are reduced to the relation they name."""
    try:
        from space_packet_parser.xtce.comparisons import MatchCriteria
        keys = [k for k in MatchCriteria._valid_operators if isinstance(k, str)]
    except Exception:  # noqa: BLE001
        keys = []
    return KNOWN_OPS + sorted(k for k in keys if k not in KNOWN_OPS)


def relation_named(op):
    """'&ge;' / 'geq' / '>=' / '&gt;=' -> '>='; None when the spelling is not understood."""
    t = op.strip().replace("&lt;", "<").replace("&gt;", ">").replace("&amp;", "&")
    t = {"&le;": "<=", "&ge;": ">=", "&ne;": "!=", "&eq;": "==", "le": "<=", "ge": ">=", "ne": "!=", "leq": "<=", "geq": ">=", "neq": "!=", "eq": "==", "lt": "<", "gt": ">",
         "=<": None, "=>": None}.get(t, t)
    return t if t in ("==", "!=", "<", ">", "<=", ">=") else None


OPS = _accepted_spellings()
CANON_OPS = ["==", "!=", "<", ">", "<=", ">="]

INT_VALS = [0, 1, -1, 7]
FLOAT_VALS = [0.0, -0.0, 2.0, 2.5, 0.30000000000000004, 1e-10, 2.0000000001]   # the last three: a rounding error away from 0.3, 0 and 2
STR_VALS = ["", "a", "b", "1", "1.0"]
BOOL_VALS = [False, True]
# literals in every spelling Python's int() / float() accept (leading zeros, sign, surrounding blanks, digit-group underscores, exponents) and
# some they reject for that type (a float literal against an int value, hex notation, the empty string): rejected ones must fail, not match
LITS = {"int": ["-1", "0", "1", "7", "8", "007", "+7", " 7 ", "-0", "0_7", "0x7", "7.0", "1e0", ""],
        "float": ["0.0", "-0.0", "2.0", "2.5", "0.3", "3", "-1e0", "02.50", "+2.5", " 2.5\t", "2.5e0", "25e-1", ".5", "2.", "2_0.0", "inf", "-inf", "nan", "0x2", ""],
        "str": ["", "a", "b", "ab"], "bool": ["0", "1", "01", " 1", "true", ""]}


def _mk_value(common, v, raw="same"):
    cls = {bool: common.BoolParameter, int: common.IntParameter, float: common.FloatParameter, str: common.StrParameter,
           bytes: common.BinaryParameter}[type(v)]
    return cls(v) if raw == "same" else cls(v, raw)


def _kind(v):
    return "bool" if isinstance(v, bool) else type(v).__name__


# literals handed to the constructor as Python numbers (definitions built from spreadsheets, numpy columns ...): interpreted in the type of
# the value they are compared to, exactly like text literals
NUM_LITS = {"int": [7, 0, -1, 7.0, 7.4, True], "float": [2.5, 2, 0, True, -0.0], "bool": [1, 0, True, False, 1.0], "str": [1, 1.0, True, 7, 2.5]}


def _expect_cmp(op, selected, literal):
    try:
        if not isinstance(literal, str):
            base = int if isinstance(selected, (bool, int)) else float if isinstance(selected, float) else str
            return interp.relate(op, selected, base(literal))
        return interp.relate(op, selected, interp.coerce(literal, selected))
    except interp.RefRaise:
        return "raise"


def _is_bool(x, want):
    return x is want


OTHER_OP = {"==": "!=", "!=": "==", "<": ">=", "<=": ">", ">": "<=", ">=": "<"}


def _comparison(comparisons, lit, name, op, use_cal, edited):
    """A Comparison stating (name op lit); edited: stated otherwise at first and then corrected through its public attributes."""
    if not edited:
        return comparisons.Comparison(lit, name, operator=op, use_calibrated_value=use_cal)
    c = comparisons.Comparison(lit, "OTHER", operator=OTHER_OP.get(op, "=="), use_calibrated_value=not use_cal)
    c.operator, c.referenced_parameter, c.use_calibrated_value = op, name, use_cal
    return c


def _condition(comparisons, left, op, edited, **kw):
    if not edited:
        return comparisons.Condition(left, op, **kw)
    kw2 = dict(kw)
    kw2["left_use_calibrated_value"] = not kw.get("left_use_calibrated_value", True)
    c = comparisons.Condition("OTHER", OTHER_OP.get(op, "=="), **kw2)
    c.left_param, c.operator, c.left_use_calibrated_value = left, op, kw.get("left_use_calibrated_value", True)
    return c


def _task_comparison(task):
    from space_packet_parser import common
    from space_packet_parser.packets import CCSDSPacket
    from space_packet_parser.xtce import comparisons
    t = Tally()
    vals = INT_VALS + FLOAT_VALS + STR_VALS + BOOL_VALS
    with case_alarm(600):
        for op in task["ops"]:
            for use_cal in (True, False):
                for v in vals:
                    for raw in INT_VALS + FLOAT_VALS + STR_VALS:  # a raw value is never a plain Python bool
                        sel = v if use_cal else raw
                        for lit in LITS[_kind(sel)] + NUM_LITS[_kind(sel)]:
                            want = _expect_cmp(op, sel, lit)
                            if want == "raise":
                                continue
                            pkt = CCSDSPacket(P=_mk_value(common, v, raw), OTHER=common.IntParameter(5))
                            t.evals += 1
                            try:
                                with observed_warnings():
                                    c = _comparison(comparisons, lit, "P", op, use_cal, edited=t.evals % 3 == 0)
                                    got = c.evaluate(pkt)
                            except Exception as e:  # noqa: BLE001
                                got = f"raised:{type(e).__name__}"
                            t.outcomes[f"cmp:{want}"] += 1
                            t.nontrivial += 1
                            if not _is_bool(got, want):
                                t.violation({"kind": "comparison", "falsy_operand": not bool(sel) if not isinstance(sel, float) else sel == 0,
                                             "operand": _kind(sel), "got": str(got)[:30]},
                                            {"form": "Comparison", "op": op, "use_cal": use_cal, "value": v, "raw": raw, "literal": lit,
                                             "vkind": _kind(v), "rkind": _kind(raw)},
                                            expected=want, observed=repr(got))
                # own raw value form (context match referring to the field being calibrated)
                for cur in INT_VALS + FLOAT_VALS:
                    for lit in LITS[_kind(cur)]:
                        want = _expect_cmp(op, cur, lit)
                        if want == "raise":
                            continue
                        t.evals += 1
                        try:
                            with observed_warnings():
                                c = comparisons.Comparison(lit, "SELF", operator=op, use_calibrated_value=use_cal)
                                got = c.evaluate(CCSDSPacket(OTHER=common.IntParameter(5)), cur)
                        except Exception as e:  # noqa: BLE001
                            got = f"raised:{type(e).__name__}"
                        t.nontrivial += 1
                        t.outcomes[f"cmp-own-raw:{want}"] += 1
                        if not _is_bool(got, want):
                            t.violation({"kind": "comparison-own-raw", "got": str(got)[:30]},
                                        {"form": "Comparison-own-raw", "op": op, "use_cal": use_cal, "current": cur, "literal": lit,
                                         "ckind": _kind(cur)}, expected=want, observed=repr(got))
    t.sample({"form": "Comparison", "op": task["ops"][0], "use_cal": True, "value": 0, "raw": 7, "literal": "0"})
    return t


def _task_condition(task):
    from space_packet_parser import common
    from space_packet_parser.packets import CCSDSPacket
    from space_packet_parser.xtce import comparisons
    t = Tally()
    nums = INT_VALS + FLOAT_VALS + BOOL_VALS
    with case_alarm(900):
        for op in task["ops"]:
            # parameter vs parameter: numbers against numbers (int-vs-float both orders), text against text
            pairs = [(a, b) for a in nums for b in nums] + [(a, b) for a in STR_VALS for b in STR_VALS]
            for (lv, rv) in pairs:
                for lcal, rcal in itertools.product((True, False), repeat=2):
                    if (isinstance(lv, bool) and not lcal) or (isinstance(rv, bool) and not rcal):
                        continue  # a raw value is never a plain Python bool
                    # value and raw are given different contents so that a wrong selector shows
                    for (lother, rother) in ((9, 9), (0, 0)):
                        if isinstance(lv, str):
                            lother, rother = "zz", "zz"
                        L = _mk_value(common, lv, lother) if lcal else _mk_value(common, type(lv)(lother) if not isinstance(lv, str) else lother, lv)
                        R = _mk_value(common, rv, rother) if rcal else _mk_value(common, type(rv)(rother) if not isinstance(rv, str) else rother, rv)
                        want = interp.relate(op, lv, rv)
                        pkt = CCSDSPacket(L=L, R=R)
                        t.evals += 1
                        try:
                            with observed_warnings():
                                c = _condition(comparisons, "L", op, t.evals % 3 == 0, right_param="R", left_use_calibrated_value=lcal,
                                               right_use_calibrated_value=rcal)
                                got = c.evaluate(pkt)
                        except Exception as e:  # noqa: BLE001
                            got = f"raised:{type(e).__name__}"
                        t.nontrivial += 1
                        t.outcomes[f"cond-pp:{want}"] += 1
                        if not _is_bool(got, want):
                            t.violation({"kind": "condition", "mixed": _kind(lv) != _kind(rv), "got": str(got)[:30]},
                                        {"form": "Condition-param-param", "op": op, "left": lv, "right": rv, "lkind": _kind(lv),
                                         "rkind": _kind(rv), "left_cal": lcal, "right_cal": rcal},
                                        expected=want, observed=repr(got))
            # operands beyond 2**53: Python compares int with float exactly; going through float() does not
            big = [2 ** 53, 2 ** 53 + 1, float(2 ** 53), 2 ** 60, 2 ** 60 + 1, float(2 ** 60), -(2 ** 53) - 1, float(-(2 ** 53)), 2 ** 64 - 1, float(2 ** 64)]
            for lv, rv in itertools.product(big, repeat=2):
                for lcal, rcal in ((True, True), (True, False), (False, True)):
                    L = _mk_value(common, lv, type(lv)(1)) if lcal else _mk_value(common, type(lv)(1), lv)
                    R = _mk_value(common, rv, type(rv)(1)) if rcal else _mk_value(common, type(rv)(1), rv)
                    want = interp.relate(op, lv, rv)
                    t.evals += 1
                    try:
                        got = comparisons.Condition("L", op, right_param="R", left_use_calibrated_value=lcal, right_use_calibrated_value=rcal).evaluate(
                            CCSDSPacket(L=L, R=R))
                    except Exception as e:  # noqa: BLE001
                        got = f"raised:{type(e).__name__}"
                    t.nontrivial += 1
                    t.outcomes[f"cond-pp-big:{want}"] += 1
                    if not _is_bool(got, want):
                        t.violation({"kind": "condition", "mixed": _kind(lv) != _kind(rv), "big": True, "got": str(got)[:30]},
                                    {"form": "Condition-param-param", "op": op, "left": repr(lv), "right": repr(rv), "lkind": _kind(lv), "rkind": _kind(rv),
                                     "left_cal": lcal, "right_cal": rcal, "big": True}, expected=want, observed=repr(got))
            for lv in big:
                if not isinstance(lv, int):
                    continue
                for lit in (str(lv), str(lv + 1), str(lv - 1)):
                    want = interp.relate(op, lv, int(lit))
                    for form in ("Comparison", "Condition"):
                        t.evals += 1
                        try:
                            if form == "Comparison":
                                got = comparisons.Comparison(lit, "L", operator=op).evaluate(CCSDSPacket(L=common.IntParameter(lv)))
                            else:
                                got = comparisons.Condition("L", op, right_value=lit, right_use_calibrated_value=False).evaluate(CCSDSPacket(L=common.IntParameter(lv)))
                        except Exception as e:  # noqa: BLE001
                            got = f"raised:{type(e).__name__}"
                        if not _is_bool(got, want):
                            t.violation({"kind": "comparison-big-int", "form": form, "got": str(got)[:30]},
                                        {"form": form + "-big", "op": op, "value": repr(lv), "literal": lit, "big": True}, expected=want, observed=repr(got))
            # operands with far more than 4300 decimal digits (a 16384-bit field): the relation is computed, nothing turns them into text
            from mc.observe import show
            huge = [1 << 16383, (1 << 16383) + 1, (1 << 16384) - 1]
            for lv, rv in itertools.product(huge, repeat=2):
                want = interp.relate(op, lv, rv)
                for form in ("Condition-param-param", "Comparison-own-raw", "Condition-param-small-literal"):
                    t.evals += 1
                    try:
                        with observed_warnings():
                            if form == "Condition-param-param":
                                got = comparisons.Condition("L", op, right_param="R").evaluate(CCSDSPacket(L=common.IntParameter(lv), R=common.IntParameter(rv)))
                            elif form == "Comparison-own-raw":
                                got, want_f = comparisons.Comparison("7", "SELF", operator=op, use_calibrated_value=False).evaluate(CCSDSPacket(), lv), interp.relate(op, lv, 7)
                            else:
                                got, want_f = comparisons.Condition("L", op, right_value="7", right_use_calibrated_value=False).evaluate(CCSDSPacket(L=common.IntParameter(lv))), interp.relate(op, lv, 7)
                    except Exception as e:  # noqa: BLE001
                        got = f"raised:{type(e).__name__}"
                    w_ = want if form == "Condition-param-param" else interp.relate(op, lv, 7)
                    if not _is_bool(got, w_):
                        t.violation({"kind": "comparison-huge-int", "form": form, "got": str(got)[:30]},
                                    {"form": form + "-huge", "op": op, "left": show(lv), "right": show(rv), "big": True}, expected=w_, observed=str(got)[:60])
            # parameter vs literal
            for lv in nums + STR_VALS:
                for lcal in (True, False):
                    if isinstance(lv, bool) and not lcal:
                        continue
                    for lit in LITS[_kind(lv)]:
                        want = _expect_cmp(op, lv, lit)
                        if want == "raise":
                            continue
                        other = "zz" if isinstance(lv, str) else type(lv)(3)
                        L = _mk_value(common, lv, other) if lcal else _mk_value(common, other, lv)
                        t.evals += 1
                        try:
                            with observed_warnings():
                                c = _condition(comparisons, "L", op, t.evals % 3 == 0, right_value=lit, left_use_calibrated_value=lcal,
                                               right_use_calibrated_value=False)
                                got = c.evaluate(CCSDSPacket(L=L))
                        except Exception as e:  # noqa: BLE001
                            got = f"raised:{type(e).__name__}"
                        t.nontrivial += 1
                        t.outcomes[f"cond-pv:{want}"] += 1
                        if not _is_bool(got, want):
                            t.violation({"kind": "condition-value", "got": str(got)[:30]},
                                        {"form": "Condition-param-value", "op": op, "left": lv, "lkind": _kind(lv), "literal": lit,
                                         "left_cal": lcal}, expected=want, observed=repr(got))
    return t


# ----------------------------------------------------------------------------- reuse: evaluation is a pure function of (criterion, packet)
def _task_reuse(task):
    """One criterion object evaluated on a HISTORY of packets whose operand kinds differ (int, float, bool, str ...):
    every result must be what a fresh object gives.  All ordered pairs and triples of operands."""
    from space_packet_parser import common
    from space_packet_parser.packets import CCSDSPacket
    from space_packet_parser.xtce import comparisons
    t = Tally()
    operands = [0, 1, 7, -1, 0.0, 2.0, 2.5, -0.0, True, False]
    with case_alarm(900):
        for op in task["ops"]:
            for lit in ("0", "1", "2", "7"):
                for use_cal in (True, False):
                    for hist in itertools.product(operands, repeat=task["depth"]):
                        try:
                            c = comparisons.Comparison(lit, "P", operator=op, use_calibrated_value=use_cal)
                            d = comparisons.Condition("P", op, right_value=lit, left_use_calibrated_value=use_cal, right_use_calibrated_value=False)
                            e = comparisons.Condition("P", op, right_param="Q", left_use_calibrated_value=use_cal, right_use_calibrated_value=use_cal)
                            be = comparisons.BooleanExpression(comparisons.Anded([d], [comparisons.Ored([e, d], [])]))
                            dl = comparisons.DiscreteLookup([c], 8.0)
                        except Exception as ex:  # noqa: BLE001
                            t.violation({"kind": "reuse-construction-failed"}, {"op": op}, observed=repr(ex))
                            continue
                        for step, v in enumerate(hist):
                            if step == len(hist) // 2 and not isinstance(hist[0], bool):
                                # in between, the Comparison object is asked about the raw value of a parameter that is being decoded (its
                                # parameter is not in the packet yet): a context match on the field's own value
                                w0 = _expect_cmp(op, hist[0], lit)
                                if w0 != "raise":
                                    t.evals += 1
                                    try:
                                        with observed_warnings():
                                            g0 = c.evaluate(CCSDSPacket(Q=common.IntParameter(5)), hist[0])
                                    except Exception as ex:  # noqa: BLE001
                                        g0 = f"raised:{type(ex).__name__}"
                                    if g0 is not w0:
                                        t.violation({"kind": "criterion-has-memory", "form": "Comparison-own-raw", "step": step, "got": str(g0)[:30]},
                                                    {"form": "reuse:Comparison-own-raw", "op": op, "literal": lit, "use_cal": use_cal, "history": list(hist), "step": step},
                                                    expected=w0, observed=repr(g0))
                            if isinstance(v, bool) and not use_cal:
                                continue  # a raw value is never a plain bool
                            other = 9 if not isinstance(v, float) else 9.5
                            P = _mk_value(common, v, other) if use_cal else _mk_value(common, other, v)
                            q = 1 if step % 2 == 0 else 1.0
                            Q = _mk_value(common, q, 5) if use_cal else _mk_value(common, 5, q)
                            pkt = CCSDSPacket(P=P, Q=Q)
                            want_c = _expect_cmp(op, v, lit)
                            want_e = interp.relate(op, v, q)
                            want_be = (want_c is True) and (want_e or want_c is True)
                            for name, obj, want in (("Comparison", c, want_c), ("Condition-value", d, want_c), ("Condition-param", e, want_e),
                                                    ("BooleanExpression", be, want_be), ("DiscreteLookup", dl, 8.0 if want_c is True else None)):
                                if want_c == "raise":
                                    continue
                                t.evals += 1
                                try:
                                    with observed_warnings():
                                        got = obj.evaluate(pkt)
                                except Exception as ex:  # noqa: BLE001
                                    got = f"raised:{type(ex).__name__}"
                                ok = (got is want) if isinstance(want, bool) else (got == want and type(got) is type(want))
                                if not ok:
                                    t.violation({"kind": "criterion-has-memory", "form": name, "step": step, "got": str(got)[:30]},
                                                {"form": "reuse:" + name, "op": op, "literal": lit, "use_cal": use_cal, "history": list(hist), "step": step},
                                                expected=want, observed=repr(got),
                                                note="the same criterion object gives a different answer after having evaluated other packets")
                        t.nontrivial += 1
                        t.states += 1
    t.sample({"form": "reuse", "op": task["ops"][0], "history": [2.5, 7, 0], "objects": ["Comparison", "Condition", "BooleanExpression", "DiscreteLookup"]})
    return t


# ----------------------------------------------------------------------------- boolean trees
def gen_trees(kind, leaves, depth):
    """All trees (kind, n_direct_leaves, children) with exactly `leaves` leaves and nesting depth <= depth.
    Children are groups of the opposite kind; canonical (children sorted) to avoid permutation duplicates."""
    other = "or" if kind == "and" else "and"
    out = []
    for direct in range(leaves, -1, -1):
        rest = leaves - direct
        if rest == 0:
            out.append((kind, direct, ()))
            continue
        if depth <= 1:
            continue
        # partitions of `rest` into 1..3 child groups
        for parts in _partitions(rest, 3):
            child_sets = [gen_trees(other, p, depth - 1) for p in parts]
            for combo in itertools.product(*child_sets):
                if list(combo) == sorted(combo, key=repr):
                    out.append((kind, direct, tuple(combo)))
    return [t for t in out if t[1] + len(t[2]) >= 1]


def _partitions(n, maxparts, minpart=1):
    if n == 0:
        yield ()
        return
    if maxparts == 0:
        return
    for first in range(minpart, n + 1):
        for rest in _partitions(n - first, maxparts - 1, first):
            yield (first,) + rest


def tree_depth(t):
    return 1 + max((tree_depth(c) for c in t[2]), default=0)


def tree_to_spec(t, leaf_iter, leaf_mode):
    kind, direct, kids = t
    conds = tuple(_leaf(next(leaf_iter), leaf_mode) for _ in range(direct))
    subs = tuple(tree_to_spec(k, leaf_iter, leaf_mode) for k in kids)
    return And(conds, subs) if kind == "and" else Or(conds, subs)


def _leaf(i, mode):
    if mode == "value":
        return Cond(f"P{i}", "==" if i % 2 == 0 else ">=", right_value="1", left_cal=True, right_cal=False)
    # parameter-vs-parameter leaf, int on the left, float on the right (mixed numeric types)
    return Cond(f"P{i}", "==", right_param="ONE", left_cal=True, right_cal=True)


def tree_truth(t, vals, counter):
    kind, direct, kids = t
    res = []
    for _ in range(direct):
        res.append(bool(vals[counter[0]]))
        counter[0] += 1
    for k in kids:
        res.append(tree_truth(k, vals, counter))
    return all(res) if kind == "and" else any(res)


def _lib_expr(comparisons, node):
    def cond(c):
        if c.right_param is not None:
            return comparisons.Condition(c.left, c.op, right_param=c.right_param, left_use_calibrated_value=c.left_cal,
                                         right_use_calibrated_value=c.right_cal)
        return comparisons.Condition(c.left, c.op, right_value=c.right_value, left_use_calibrated_value=c.left_cal,
                                     right_use_calibrated_value=False)
    if isinstance(node, Cond):
        return cond(node)
    if isinstance(node, And):
        return comparisons.Anded([cond(c) for c in node.conds], [_lib_expr(comparisons, o) for o in node.ors])
    return comparisons.Ored([cond(c) for c in node.conds], [_lib_expr(comparisons, a) for a in node.ands])


def _task_trees(task):
    from space_packet_parser import common
    from space_packet_parser.packets import CCSDSPacket
    from space_packet_parser.xtce import comparisons
    t = Tally()
    with case_alarm(900):
        for tree in task["trees"]:
            n = _count_leaves(tree)
            for mode in ("value", "param"):
                spec = tree_to_spec(tree, iter(range(n)), mode)
                be = comparisons.BooleanExpression(_lib_expr(comparisons, spec))
                for vals in itertools.product((0, 1), repeat=n):
                    pkt = CCSDSPacket(**{f"P{i}": common.IntParameter(v) for i, v in enumerate(vals)},
                                      ONE=common.FloatParameter(1.0))
                    want = tree_truth(tree, vals, [0])
                    t.evals += 1
                    try:
                        got = be.evaluate(pkt)
                    except Exception as e:  # noqa: BLE001
                        got = f"raised:{type(e).__name__}"
                    t.outcomes[f"tree:{want}"] += 1
                    if not _is_bool(got, want):
                        t.violation({"kind": "boolean-expression", "leaf_mode": mode, "got": str(got)[:30]},
                                    {"form": "BooleanExpression", "tree": tree, "assignment": vals, "leaf_mode": mode},
                                    expected=want, observed=repr(got))
            # leaves that REPEAT parameters: the same condition text occurs in different groups, and leaves that differ only in
            # their raw/calibrated selector; values and raw values of the two parameters vary independently
            if n <= task.get("repeat_max_leaves", 4):
                for binding in itertools.product(range(2), repeat=n):
                    leaves = [Cond(f"P{b}", "==", right_value="1", left_cal=(i % 2 == 0), right_cal=False) for i, b in enumerate(binding)]
                    it = iter(leaves)

                    def build(node):
                        kind, direct, kids = node
                        conds = tuple(next(it) for _ in range(direct))
                        subs = tuple(build(k) for k in kids)
                        return And(conds, subs) if kind == "and" else Or(conds, subs)
                    spec = build(tree)
                    be = comparisons.BooleanExpression(_lib_expr(comparisons, spec))
                    for v0, r0, v1, r1 in itertools.product((0, 1), repeat=4):
                        pkt = CCSDSPacket(P0=common.IntParameter(v0, r0), P1=common.IntParameter(v1, r1))
                        leaf_vals = [((v0, r0), (v1, r1))[b][0 if i % 2 == 0 else 1] for i, b in enumerate(binding)]
                        want = tree_truth(tree, leaf_vals, [0])
                        t.evals += 1
                        try:
                            got = be.evaluate(pkt)
                        except Exception as e:  # noqa: BLE001
                            got = f"raised:{type(e).__name__}"
                        if not _is_bool(got, want):
                            t.violation({"kind": "boolean-expression", "leaf_mode": "repeated-parameters", "got": str(got)[:30]},
                                        {"form": "BooleanExpression", "tree": tree, "binding": binding, "assignment": (v0, r0, v1, r1), "leaf_mode": "repeat"},
                                        expected=want, observed=repr(got))
            t.nontrivial += 1
            t.states += 1
    if task["trees"]:
        t.sample({"form": "BooleanExpression", "tree": task["trees"][-1], "assignments": "all 2^leaves",
                  "leaf_modes": ["value", "param(int-vs-float)", "repeated parameters with alternating raw/calibrated selectors"]})
    return t


def _task_threads(task):
    """Kernel E-thread: ONE criterion object evaluated by two threads at the same time, each on its own packet, under EVERY interleaving of
    their packet accesses (item reads and membership tests are the yield points): each evaluation returns what it returns alone."""
    from space_packet_parser import common
    from space_packet_parser.xtce import comparisons
    from mc.threadexplore import explore, yielding_packet_class
    YP = yielding_packet_class()
    t = Tally()
    with case_alarm(1500):
        for tree in task["trees"]:
            n = _count_leaves(tree)
            for mode in ("value", "param"):
                spec = tree_to_spec(tree, iter(range(n)), mode)
                be = comparisons.BooleanExpression(_lib_expr(comparisons, spec))
                lk = comparisons.DiscreteLookup([comparisons.Comparison("1", "P0"), comparisons.Comparison("0", f"P{n - 1}", operator=">=")], 16.0)
                # pairs of assignments: all-true with all-false, and each single flip against its complement
                pairs = [((1,) * n, (0,) * n)] + [(tuple(1 if j == i else 0 for j in range(n)), tuple(0 if j == i else 1 for j in range(n))) for i in range(min(n, 2))]
                for obj_name, obj in (("BooleanExpression", be), ("DiscreteLookup", lk)):
                    for va, vb in pairs:
                        def mk_pkt(vals, point=None):
                            p = YP(**{f"P{i}": common.IntParameter(v) for i, v in enumerate(vals)}, ONE=common.FloatParameter(1.0))
                            if point is not None:
                                p.__dict__["_pt"] = point
                            return p
                        want = tuple(("ok", obj.evaluate(mk_pkt(v))) for v in (va, vb))

                        def make_bodies():
                            return [lambda point, v=v: obj.evaluate(mk_pkt(v, point)) for v in (va, vb)]

                        def check(results, choices):
                            t.evals += 1
                            t.traces += 1
                            t.transitions += len(choices)
                            if tuple(results) != want:
                                t.violation({"kind": "concurrent-evaluation-differs", "form": obj_name},
                                            {"form": "threads:" + obj_name, "tree": tree, "leaf_mode": mode, "assignments": [list(va), list(vb)], "schedule": list(choices)},
                                            expected=list(want), observed=list(results),
                                            note="two threads evaluating one criterion object on different packets: a result differs from the evaluation alone")
                        st = explore(make_bodies, check, bound=None if n <= 3 else 3, max_execs=20000)
                        t.states += st["executions"]
                        if st["capped"]:
                            t.caps.append(f"thread interleavings capped at 20000 for a tree of {n} leaves")
                        t.outcomes[f"threads:{obj_name}"] += st["executions"]
            t.nontrivial += 1
    return t


def _count_leaves(t):
    return t[1] + sum(_count_leaves(k) for k in t[2])


# ----------------------------------------------------------------------------- discrete lookup (object level)
def _task_lookup(task):
    from space_packet_parser import common
    from space_packet_parser.packets import CCSDSPacket
    from space_packet_parser.xtce import comparisons
    t = Tally()
    crits = [(("A", "==", "0"),), (("A", "==", "1"),), (("A", "<", "2"),), (("A", "==", "1"), ("B", "==", "0")),
             (("A", "!=", "0"), ("B", ">=", "1"), ("A", "<=", "1"))]
    for crit in crits:
        for value in (0.0, 8.0, 16.0, 8):
            for a, b in itertools.product(range(3), repeat=2):
                pkt = CCSDSPacket(A=common.IntParameter(a), B=common.IntParameter(b))
                env = {"A": a, "B": b}
                holds = all(interp.relate(op, env[p], int(lit)) for p, op, lit in crit)
                want = value if holds else None
                dl = comparisons.DiscreteLookup([comparisons.Comparison(lit, p, operator=op) for p, op, lit in crit], value)
                t.evals += 1
                try:
                    got = dl.evaluate(pkt)
                except Exception as e:  # noqa: BLE001
                    got = f"raised:{type(e).__name__}"
                t.nontrivial += 1
                t.outcomes[f"lookup:{'hit' if holds else 'miss'}"] += 1
                if not (got == want and type(got) is type(want)):
                    t.violation({"kind": "discrete-lookup"}, {"form": "DiscreteLookup", "criteria": crit, "value": value, "A": a, "B": b},
                                expected=want, observed=repr(got))
    # a lookup asked about a value that is being decoded (documented second argument): comparisons on a parameter the packet does not carry
    # yet are made against that value, the others against the packet
    for crit in ((("SELF", "==", "1"),), (("SELF", ">=", "1"), ("A", "==", "0")), (("A", "!=", "2"), ("SELF", "<", "2"))):
        for cur in (0, 1, 2, 1.0):
            for a in range(3):
                env = {"A": a, "SELF": cur}
                holds = all(interp.relate(op, env[p], int(lit)) for p, op, lit in crit)
                # evaluable in order up to the first failing comparison
                dl = comparisons.DiscreteLookup([comparisons.Comparison(lit, p, operator=op, use_calibrated_value=(p != "SELF")) for p, op, lit in crit], 24.0)
                t.evals += 1
                try:
                    with observed_warnings():
                        got = dl.evaluate(CCSDSPacket(A=common.IntParameter(a)), cur)
                except Exception as e:  # noqa: BLE001
                    got = f"raised:{type(e).__name__}"
                t.nontrivial += 1
                want = 24.0 if holds else None
                if not (got == want and type(got) is type(want)):
                    t.violation({"kind": "discrete-lookup", "own_value": True}, {"form": "DiscreteLookup-own-value", "criteria": crit, "A": a, "current": cur},
                                expected=want, observed=repr(got))
    # lookup LISTS as their consumers use them (a binary and a string field sized by the list): the value of the FIRST entry whose criteria
    # all hold; entries after it are not consulted (here some of them refer to a parameter Z that the packet does not carry)
    from space_packet_parser.xtce import encodings
    allc = crits + [(("Z", "==", "1"),), (("A", ">=", "0"), ("Z", "<", "5"))]
    lists = [pair for pair in itertools.permutations(range(len(allc)), 2)] + [(0, 1, 2), (2, 5, 0), (1, 6, 3), (3, 4, 5), (5, 0, 1), (4, 2, 6)]
    for idxs in lists:
        values = [8 * (j + 1) if (j + sum(idxs)) % 4 else 0 for j in range(len(idxs))]     # a matching entry may also yield 0 bits
        for a, b in itertools.product(range(3), repeat=2):
            env = {"A": a, "B": b}
            want = "no-match"
            for ci, val in zip(idxs, values):
                crit = allc[ci]
                if any(p not in env for p, _, _ in crit):
                    # evaluable up to the first comparison that fails, in order; anything else: not judged
                    ok_so_far = True
                    for p, op, lit in crit:
                        if p not in env:
                            want = "unjudged" if ok_so_far else want
                            break
                        if not interp.relate(op, env[p], int(lit)):
                            ok_so_far = False
                            break
                    if want == "unjudged":
                        break
                    continue
                if all(interp.relate(op, env[p], int(lit)) for p, op, lit in crit):
                    want = val
                    break
            if want == "unjudged":
                continue
            for form in ("binary", "string"):
                dls = [comparisons.DiscreteLookup([comparisons.Comparison(lit, p, operator=op) for p, op, lit in allc[ci]], val)
                       for ci, val in zip(idxs, values)]
                enc = (encodings.BinaryDataEncoding(size_discrete_lookup_list=dls) if form == "binary"
                       else encodings.StringDataEncoding(encoding="US-ASCII", discrete_lookup_length=dls))
                pkt = CCSDSPacket(raw_data=b"ABCDEFGHIJ", A=common.IntParameter(a), B=common.IntParameter(b))
                t.evals += 1
                try:
                    v = enc.parse_value(pkt)
                    got = pkt.raw_data.pos
                    raw = getattr(v, "raw_value", v)
                    if len(bytes(raw)) * 8 != got:
                        got = f"cursor {got} but {len(bytes(raw))} byte(s) returned"
                except Exception as e:  # noqa: BLE001
                    got = f"raised:{type(e).__name__}"
                t.nontrivial += 1
                t.outcomes[f"lookup-list:{'hit' if want != 'no-match' else 'miss'}"] += 1
                ok = (isinstance(got, str) and got.startswith("raised")) if want == "no-match" else got == want
                if not ok:
                    t.violation({"kind": "discrete-lookup-list", "consumer": form, "want": "failure" if want == "no-match" else "value"},
                                {"form": "DiscreteLookupList", "consumer": form, "entries": [[list(map(list, allc[ci])), val] for ci, val in zip(idxs, values)], "A": a, "B": b},
                                expected=want, observed=repr(got), note="a sized field must take the value of the first entry whose criteria all hold")
    return t


# ----------------------------------------------------------------------------- consumer level (documents)
def selector_params():
    """Fields decoded by every root: A u2, S s3(signed), F f16, C u2+poly(0.5x), E enum u2 (labels a, b, ab, 'a '), T str8, B bool u1, P0..P4 u1."""
    pts = header_ptypes() + (
        PType("A_T", "Integer", IntEnc(2)),
        PType("S_T", "Integer", IntEnc(3, "signed")),
        PType("F_T", "Float", FloatEnc(16)),
        PType("C_T", "Integer", IntEnc(2, default_cal=Poly(((0.5, 1),)))),
        PType("E_T", "Enumerated", IntEnc(2), enum=((0, "a"), (1, "b"), (2, "ab"), (3, "a "))),   # the last label differs from the first by a trailing blank
        PType("T_T", "String", StrEnc(Fixed(8), "US-ASCII")),
        PType("B_T", "Boolean", IntEnc(1)),
        PType("P_T", "Integer", IntEnc(1)),
        PType("M_T", "Integer", IntEnc(8)),
    )
    names = [("A", "A_T"), ("S", "S_T"), ("F", "F_T"), ("C", "C_T"), ("E", "E_T"), ("T", "T_T"), ("B", "B_T")] + \
            [(f"P{i}", "P_T") for i in range(5)] + [("ONEF", "F_T")]
    prs = header_params() + tuple(Param(n, t) for n, t in names) + (Param("MARK", "M_T"),)
    entries = header_entries() + tuple(("p", n) for n, _ in names)
    return pts, prs, entries


FIELD_BITS = [("A", 2), ("S", 3), ("F", 16), ("C", 2), ("E", 2), ("T", 8), ("B", 1)] + [(f"P{i}", 1) for i in range(5)] + [("ONEF", 16)]


def consumer_doc(criteria_list):
    pts, prs, entries = selector_params()
    conts = []
    for i, crit in enumerate(criteria_list):
        conts.append(Container(f"ROOT{i}", entries, abstract=True))
        conts.append(Container(f"HIT{i}", (("p", "MARK"),), base=f"ROOT{i}", criteria=crit))
    return Doc(pts, prs, tuple(conts), root="ROOT0")


def consumer_packets():
    """Assignments of the selector fields: a small product including zeros, negative, -0.0, mixed."""
    import struct
    f16 = {0.0: 0x0000, -0.0: 0x8000, 2.0: 0x4000, 2.5: 0x4100, 1.0: 0x3C00}
    out = []
    combos = []
    for a in range(4):
        for s in (0, 1, 7, 4):  # 0, 1, -1, -4
            combos.append((a, s, 0.0 if a % 2 else 2.5, a, (a + 1) % 4, "a" if a < 2 else "b", a & 1, (a & 1, s & 1, 1, 0, a >> 1)))
    for f in f16:
        combos.append((1, 1, f, 2, 0, "b", 1, (1, 0, 1, 0, 1)))
    combos.append((0, 0, 0.0, 0, 0, "a", 0, (0, 0, 0, 0, 0)))
    combos.append((1, 1, 0.0, 1, 3, " ", 1, (1, 0, 1, 0, 1)))   # a blank as the text field, the blank-padded enumeration label
    combos.append((3, 0, 2.0, 3, 3, "a", 0, (0, 1, 1, 0, 0)))
    combos.append((2, 2, 2.0, 2, 2, "b", 1, (1, 1, 1, 1, 1)))
    for a, s, f, c, e, tx, b, ps in combos:
        bits = (format(a, "02b") + format(s, "03b") + format(f16[f], "016b") + format(c, "02b") + format(e, "02b")
                + format(ord(tx), "08b") + format(b, "01b") + "".join(str(p) for p in ps) + format(f16[1.0], "016b"))
        bits += format(0x5A, "08b")  # MARK
        bits += "0" * ((-len(bits)) % 8)
        out.append(bits)
    for ps in itertools.product((0, 1), repeat=5):
        bits = ("01" + "001" + format(0x4000, "016b") + "01" + "01" + format(ord("a"), "08b") + "1" + "".join(str(p) for p in ps)
                + format(f16[1.0], "016b") + format(0x5A, "08b"))
        bits += "0" * ((-len(bits)) % 8)
        out.append(bits)
    return sorted(set(out))


def consumer_criteria(tier):
    crits = []
    # Comparison: every operator spelling on an int, canonical operators on the rest, both selectors
    for op in OPS:
        for lit in ("0", "1", "2"):
            crits.append((Cmp("A", op, lit),))
    for op in CANON_OPS:
        for lit in ("-1", "0", "1"):
            crits.append((Cmp("S", op, lit),))
        for lit in ("0.0", "2.0", "2.5", "0"):
            crits.append((Cmp("F", op, lit),))
        for use_cal, lit in ((True, "0.5"), (True, "0.0"), (True, "1"), (False, "1"), (False, "0")):
            crits.append((Cmp("C", op, lit, use_cal),))
        for use_cal, lit in ((True, "a"), (True, "ab"), (False, "0"), (False, "2")):
            crits.append((Cmp("E", op, lit, use_cal),))
        crits.append((Cmp("T", op, "a"),))
        for use_cal, lit in ((True, "0"), (True, "1"), (False, "0"), (False, "1")):
            crits.append((Cmp("B", op, lit, use_cal),))
        crits.append((Cmp("PKT_APID", op, "0"),))
        crits.append((Cmp("SEQ_FLGS", op, "0"),))
    # comparison lists of 1..3
    for a, b in itertools.product(("0", "1"), repeat=2):
        crits.append((Cmp("A", "==", a), Cmp("S", ">=", b)))
        crits.append((Cmp("A", "!=", a), Cmp("P0", "==", b), Cmp("C", "<", "1.0")))
    # conditions inside boolean expressions
    for op in CANON_OPS:
        crits.append((BoolExpr(Cond("A", op, right_value="1", right_cal=False)),))
        crits.append((BoolExpr(Cond("A", op, right_param="S")),))
        crits.append((BoolExpr(Cond("A", op, right_param="F")),))       # int vs float
        crits.append((BoolExpr(Cond("F", op, right_param="A")),))       # float vs int
        for lc, rc in itertools.product((True, False), repeat=2):   # every selector combination, in both operand orders
            crits.append((BoolExpr(Cond("C", op, right_param="A", left_cal=lc, right_cal=rc)),))  # (calibrated) float vs int
            crits.append((BoolExpr(Cond("A", op, right_param="C", left_cal=lc, right_cal=rc)),))
            crits.append((BoolExpr(Cond("E", "==" if op in ("==", "!=") else "!=", right_param="E", left_cal=lc, right_cal=lc)),))
        crits.append((BoolExpr(Cond("E", op, right_value="a", right_cal=False)),))
        crits.append((BoolExpr(Cond("E", op, right_value="1", left_cal=False, right_cal=False)),))
    # text values whose leading / trailing blanks are significant
    for op in ("==", "!="):
        for val in ("a ", " a", " ", "a", ""):
            crits.append((BoolExpr(Cond("E", op, right_value=val, right_cal=False)),))
            crits.append((BoolExpr(Cond("T", op, right_value=val, right_cal=False)),))
            if val:
                crits.append((Cmp("E", op, val),))
                crits.append((Cmp("T", op, val),))
    # groups that alternate four and five levels deep
    leaf = lambda n, v="1": Cond(n, "==", right_value=v, right_cal=False)  # noqa: E731
    deep_or = Or((leaf("A", "3"),), (And((leaf("B"),), (Or((leaf("P0"),), (And((leaf("P1"), leaf("P2")), (Or((leaf("P3"), leaf("P4")),),)),)),)),))
    deep_and = And((leaf("B"),), (Or((leaf("P0"),), (And((leaf("P1"),), (Or((leaf("P2"),), (And((leaf("P3"), leaf("P4")),),)),)),)),))
    crits.append((BoolExpr(deep_or),))
    crits.append((BoolExpr(deep_and),))
    # trees
    maxl = 3 if tier == "quick" else 4
    for n in range(1, maxl + 1):
        for kind in ("and", "or"):
            for tree in gen_trees(kind, n, 3):
                for mode in ("value", "param"):
                    crits.append((BoolExpr(_rename_one(tree_to_spec(tree, iter(range(n)), mode))),))
    return crits


def _rename_one(node):
    """The document calls the float constant ONEF."""
    if isinstance(node, Cond):
        return Cond(node.left, node.op, "ONEF" if node.right_param == "ONE" else node.right_param, node.right_value,
                    node.left_cal, node.right_cal)
    if isinstance(node, And):
        return And(tuple(_rename_one(c) for c in node.conds), tuple(_rename_one(o) for o in node.ors))
    return Or(tuple(_rename_one(c) for c in node.conds), tuple(_rename_one(a) for a in node.ands))


def _task_consumer(task):
    t = Tally()
    crits = task["crits"]
    doc = consumer_doc(crits)
    try:
        with case_alarm(120):
            # boolean attributes (useCalibratedValue ...) are written true / True / TRUE in rotation: the library reads them case-insensitively
            defn = load_doc(doc, bool_case=("lower", "title", "upper")[(task["base"] // max(1, len(crits))) % 3]) if task["via"] == "xml" else build_objects(doc)
    except BaseException as e:  # noqa: BLE001
        t.violation({"kind": "load-failed", "exc": type(e).__name__}, {"crits": crits[:3]}, observed=str(e)[:300])
        return t
    pkts = [docs.packet_for(0, b) for b in consumer_packets()]
    with case_alarm(900):
        for i, crit in enumerate(crits):
            hits = 0
            for pkt in pkts:
                want = decode_packet(doc, pkt, root=f"ROOT{i}")
                obs = parse_one(defn, pkt, root=f"ROOT{i}")
                t.evals += 1
                hits += want.kind == "parsed"
                t.outcomes[f"consumer:{want.kind}"] += 1
                why = compare_outcome(want, obs)
                if why:
                    t.violation({"kind": "consumer", "via": task["via"], "want": want.kind, "got": obs[0],
                                 "exc": obs[1][0] if obs[0] == "raised" else None},
                                {"form": "restriction-criteria", "criteria": repr(crit), "index": task["base"] + i,
                                 "packet": pkt.hex(), "via": task["via"], "tier": task["tier"]},
                                expected=want.kind, observed=obs[:3] if obs[0] == "raised" else obs[0], note=why)
            if 0 < hits < len(pkts):
                t.nontrivial += 1  # the criterion was seen both true and false
            t.programs += 1
    return t


def run(ctx):
    tally = fan_out(_task_comparison, [{"ops": [op]} for op in OPS], jobs=ctx.jobs, seed=ctx.seed)
    tally.merge(fan_out(_task_condition, [{"ops": [op]} for op in OPS], jobs=ctx.jobs, seed=ctx.seed))
    maxl, maxd = (4, 3) if ctx.quick else (5, 4)
    trees = []
    for n in range(1, maxl + 1):
        for kind in ("and", "or"):
            trees += gen_trees(kind, n, maxd)
    tally.merge(fan_out(_task_trees, [{"trees": ch} for ch in chunked(trees, 32)], jobs=ctx.jobs, seed=ctx.seed))
    tally.merge(_task_lookup({}))
    ttrees = [tr for tr in trees if _count_leaves(tr) <= (3 if ctx.quick else 4)]
    tally.merge(fan_out(_task_threads, [{"trees": ch} for ch in chunked(ttrees, 16)], jobs=ctx.jobs, seed=ctx.seed))
    tally.merge(fan_out(_task_reuse, [{"ops": [op], "depth": 2 if ctx.quick else 3} for op in CANON_OPS + ["leq", "&gt;"]], jobs=ctx.jobs, seed=ctx.seed))
    crits = consumer_criteria(ctx.tier)
    ctasks = []
    base = 0
    for ch in chunked(crits, 24):
        ctasks.append({"crits": ch, "via": "xml", "base": base, "tier": ctx.tier})
        ctasks.append({"crits": ch, "via": "objects", "base": base, "tier": ctx.tier})
        base += len(ch)
    tally.merge(fan_out(_task_consumer, ctasks, jobs=ctx.jobs, seed=ctx.seed))
    coverage = {
        "programs": tally.programs,
        "states": len(trees),
        "exhaustive": True,
        "bound": (f"Comparison: 16 operator spellings x both selectors x 13 values x 13 raw values x literals of the selected type (full truth table) "
                  f"+ own-raw-value form; Condition: 16 spellings x (parameter-vs-parameter over 10 numeric values incl. int-vs-float in both orders "
                  f"and bools, 3 strings; 4 selector combinations; 10 operands around 2^53, 2^60, 2^64 as int and as float) + parameter-vs-literal; BooleanExpression: all {len(trees)} AND/OR trees with <= {maxl} "
                  f"leaves and depth <= {maxd} x 2 leaf forms x all 2^leaves assignments, plus (<= 4 leaves) every binding of the leaves to 2 repeated parameters with alternating selectors x all 16 value/raw assignments; DiscreteLookup: 5 criteria lists x 4 values x 9 assignments; "
                  f"threads (kernel E-thread): one BooleanExpression / DiscreteLookup object evaluated by two real threads at once on different packets under EVERY interleaving of their packet accesses (trees of <= {3 if ctx.quick else 4} leaves; preemption bound 3 above 3 leaves); "
                  f"reuse: one Comparison/Condition/BooleanExpression/DiscreteLookup object evaluated over every history of {2 if ctx.quick else 3} operands of mixed kinds (10 operands); "
                  f"consumer level: {len(crits)} restriction criteria (every form) x {len(consumer_packets())} packets, loaded from XML and built from objects"),
        "rule": ("one evaluation = one evaluate() call or one packet routed through a criterion; distinct non-trivial = distinct truth-table cells "
                 "(object level), distinct trees, and consumer criteria that were observed both true and false"),
    }
    return {"level": LEVEL, "tally": tally, "coverage": coverage,
            "assumptions": ["literals that cannot be read in the value's type are outside the alphabet",
                            "boolean parameters are compared with literals 0/1"]}


def replay(case):
    form = case.get("form")
    t = None
    if form == "Comparison" or form == "Comparison-own-raw":
        t = _task_comparison({"ops": [case["op"]]})
    elif form and form.startswith("Condition"):
        t = _task_condition({"ops": [case["op"]]})
    elif form == "BooleanExpression":
        tree = _tuplify(case["tree"])
        t = _task_trees({"trees": [tree]})
    elif form and form.startswith("reuse:"):
        t = _task_reuse({"ops": [case["op"]], "depth": len(case["history"])})
        for v in t.violations:
            if v["case"].get("history") == case["history"] and v["case"].get("form") == form and v["case"].get("literal") == case["literal"] \
                    and v["case"].get("use_cal") == case["use_cal"] and v["case"].get("step") == case["step"]:
                return v
        return None
    elif form == "DiscreteLookup":
        t = _task_lookup({})
    elif form == "restriction-criteria":
        crits = consumer_criteria(case.get("tier", "thorough"))
        i = case["index"]
        t = _task_consumer({"crits": [crits[i]], "via": case["via"], "base": i, "tier": case.get("tier", "thorough")})
    if t is None:
        return None
    if case.get("big"):
        return next((v for v in (t.violations if t else []) if v["case"].get("big") and all(v["case"].get(k) == case.get(k) for k in case)), None)
    for v in t.violations:
        c = v["case"]
        if all(c.get(k) == case.get(k) for k in ("op", "use_cal", "value", "raw", "literal", "left", "right", "left_cal",
                                                  "right_cal", "assignment", "leaf_mode", "packet", "A", "B", "current")):
            return v
    return t.violations[0] if t.violations and form in ("restriction-criteria",) else None


def _tuplify(x):
    if isinstance(x, list):
        return tuple(_tuplify(y) for y in x)
    return x


def repro_py(case):
    return ("from space_packet_parser import common\nfrom space_packet_parser.packets import CCSDSPacket\n"
            "from space_packet_parser.xtce import comparisons\n"
            f"case = {case!r}\n# see mc/checks/c06.py for how each form is assembled; e.g. for a Comparison:\n"
            "# c = comparisons.Comparison(case['literal'], 'P', operator=case['op'], use_calibrated_value=case['use_cal'])\n"
            "# print(c.evaluate(CCSDSPacket(P=common.IntParameter(case['value'], case['raw']))))\n")
