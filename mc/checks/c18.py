"""C18 — The xarray dataset holds every parsed value, per APID, in order, without loss.

E-prod.  Definitions: APID 1 carries one field kind of the palette in turn (every encoding family,
calibrated, enum, bool, string, binary, time), APID 2 a different fixed layout.  Packets: value
extremes / pattern family of the kind; every APID interleaving of <= 3 (4) packets; file lists
[f1], [f1, f2], [f2, f1]; use_raw_values in {False, True}; a polymorphic APID must be rejected.
Oracle: the dataset against packet_generator's own items: one row per packet of that APID in
stream order, one variable per parameter, each cell equal (kind, NaN-aware, bit exact) to the
parsed value or raw value.
"""
from __future__ import annotations

import itertools
import math
import os

from mc import framing
from mc.checks import c01
from mc.kernel import Tally, case_alarm, fan_out, observed_warnings
from mc.observe import kind_of, plain
from mc.ref.interp import decode_packet
from mc.spec import (Cmp, Container, Doc, FloatEnc, IntEnc, Param, PType, StrEnc, Fixed, BinEnc, header_entries, header_params,
                     header_ptypes, load_doc)

PROP = "C18"
LEVEL = "exploration"

EXTRA_KINDS = None


def kinds():
    """Palette kinds plus a few dataset-specific ones (all integer widths are covered by u/s kinds below)."""
    out = [(k.name, k) for k in c01.pal() if k.name not in ("u72",)]
    return out


def int_width_doc_fields():
    """One layout with every unsigned and signed width 1..64 would be huge; use boundary widths."""
    widths = [1, 2, 7, 8, 9, 15, 16, 17, 31, 32, 33, 63, 64]
    pts, prs, ents = [], [], []
    for w in widths:
        for enc in ("unsigned", "twosComplement"):
            n = f"{'U' if enc == 'unsigned' else 'S'}{w}"
            pts.append(PType(f"{n}_T", "Integer", IntEnc(w, enc)))
            prs.append(Param(n, f"{n}_T"))
            ents.append(("p", n))
    # the other integer encodings XTCE names: whatever values the decoder yields for them (it reads them as two's complement), the dataset
    # must hold exactly those values
    # parameter names are labels: names that mean something to the dataset library (the row dimension is called "packet") are columns like any other
    for n in ("packet", "dim_0", "index", "coords", "attrs", "dims", "variables", "data_vars", "name", "time", "values"):
        pts.append(PType(f"NM_{n}_T", "Integer", IntEnc(8)))
        prs.append(Param(n, f"NM_{n}_T"))
        ents.append(("p", n))
    for w in (8, 16):
        for enc in ("onesComplement", "signMagnitude", "BCD", "packedBCD"):
            n = f"{enc[:2].upper()}{enc[-1].upper()}{w}"
            pts.append(PType(f"{n}_T", "Integer", IntEnc(w, enc)))
            prs.append(Param(n, f"{n}_T"))
            ents.append(("p", n))
    return pts, prs, ents


def make_doc(kind_index):
    ptypes = {p.name: p for p in header_ptypes()}
    params = {p.name: p for p in header_params()}
    if kind_index == "intwidths":
        pts, prs, ents = int_width_doc_fields()
        a_entries = tuple(ents)
        for p in pts:
            ptypes[p.name] = p
        for p in prs:
            params[p.name] = p
    else:
        b = c01.pal()[kind_index].build("0", {"ref_raw": None, "ref_cal": None, "start": 48, "last": True})
        for p in b.ptypes:
            ptypes[p.name] = p
        for fn, ptn in b.fields:
            params[fn] = Param(fn, ptn)
        a_entries = tuple(("p", fn) for fn, _ in b.fields)
    for p in (PType("BCNT_T", "Integer", IntEnc(16)), PType("BF_T", "Float", FloatEnc(32)), PType("BSEL_T", "Integer", IntEnc(8)),
              PType("BX_T", "Integer", IntEnc(8))):
        ptypes[p.name] = p
    for p in (Param("B_CNT", "BCNT_T"), Param("B_F", "BF_T"), Param("P_SEL", "BSEL_T"), Param("P_X", "BX_T"), Param("P_Y", "BX_T"),
              Param("R_SEL", "BSEL_T"), Param("R_T", "BCNT_T"), Param("R_M", "BX_T"), Param("M_X", "BX_T")):
        params[p.name] = p
    conts = (Container("CCSDSPacket", header_entries(), abstract=True),
             Container("A", a_entries, base="CCSDSPacket", criteria=(Cmp("PKT_APID", "==", "1"),)),
             Container("B", (("p", "B_CNT"), ("p", "B_F")), base="CCSDSPacket", criteria=(Cmp("PKT_APID", "==", "2"),)),
             # a polymorphic APID: the field set depends on a decoded value
             Container("P", (("p", "P_SEL"),), base="CCSDSPacket", criteria=(Cmp("PKT_APID", "==", "3"),)),
             Container("PX", (("p", "P_X"),), base="P", criteria=(Cmp("P_SEL", "==", "0"),)),
             Container("PY", (("p", "P_Y"),), base="P", criteria=(Cmp("P_SEL", "!=", "0"),)),
             # one APID, ONE field set, two field orders (two revisions of a layout): still one dataset
             Container("R", (("p", "R_SEL"),), base="CCSDSPacket", criteria=(Cmp("PKT_APID", "==", "4"),)),
             Container("RA", (("p", "R_T"), ("p", "R_M")), base="R", criteria=(Cmp("R_SEL", "==", "0"),)),
             Container("RB", (("p", "R_M"), ("p", "R_T")), base="R", criteria=(Cmp("R_SEL", "!=", "0"),)),
             # every other APID: one byte
             Container("M", (("p", "M_X"),), base="CCSDSPacket", criteria=(Cmp("PKT_APID", ">", "4"),)))
    return Doc(tuple(ptypes.values()), tuple(params.values()), conts)


def special_patterns(kind_name):
    """Contents that stress the dataset's dtypes: leading/trailing/embedded NULs and spaces, non-ASCII, extremes."""
    pats = []
    n = 320
    pats.append(bytes([0x41, 0x00]) * (n // 2))          # 'A\0A\0...'  (trailing NUL in every even-length field)
    pats.append(bytes([0x00, 0x41]) * (n // 2))          # leading NUL
    pats.append(bytes([0x20, 0x41, 0x20, 0x00]) * (n // 4))  # spaces and NUL
    pats.append(bytes([0xE9, 0x41]) * (n // 2))          # non-ASCII in single-byte charsets
    pats.append(bytes([0x01, 0x00, 0x00]) * (n // 3))
    pats.append(bytes([0x7F, 0xFF]) * (n // 2))
    pats.append(bytes([0x80, 0x00]) * (n // 2))
    pats.append(bytes([0x00, 0x00, 0x01, 0x80]) * (n // 4))   # tiny MIL-1750A: mantissa 1, exponent -128
    pats.append(bytes([0x40, 0x00, 0x00, 0x81]) * (n // 4))   # 1750A 0.5 * 2^-127
    pats.append(bytes([0x7F, 0xFF, 0xFF, 0x7F]) * (n // 4))   # 1750A max
    pats.append(bytes([0x02, 0x41, 0x00, 0x00, 0x00, 0x00]) * (n // 6))  # own LEN=... followed by text with NULs
    pats.append(bytes([0x10, 0x41, 0x00]) * (n // 3))          # lead8 size tag 16 bits: 'A\0'
    return pats


def cell_value(arr, i):
    v = arr[i]
    if hasattr(v, "item"):
        v = v.item()
    return v


def same_cell(want, got):
    kw = kind_of(want)
    kg = kind_of(got)
    if kw == "bool":
        # the int-backed boolean may be stored in whatever numeric column its encoding gets
        return kg in ("bool", "int", "float") and got == int(want)
    if kw == "int" and kg == "float":
        # a column that mixes calibrated (float) and uncalibrated (int) rows is a float column: exact values only
        return float(int(want)) == got and int(got) == int(want)
    if kw != kg:
        return False
    if kw == "float":
        if math.isnan(want) or math.isnan(got):
            return math.isnan(want) and math.isnan(got)
        return want == got and math.copysign(1, want) == math.copysign(1, got)
    return plain(want) == got


def classify_loss(want, got):
    w = plain(want)
    if isinstance(w, (bytes, str)):
        nul = b"\x00" if isinstance(w, bytes) else "\x00"
        if type(got) is type(w) and w.endswith(nul) and got == w.rstrip(nul):
            return "trailing-NUL-stripped"
        if isinstance(w, bytes) and isinstance(got, str):
            try:
                if got == w.decode("ascii").rstrip("\x00"):
                    return "bytes-cell-became-str"
            except UnicodeDecodeError:
                pass
    if isinstance(w, float) and isinstance(got, float):
        return "float-rounded-or-flushed"
    if isinstance(w, int) and isinstance(got, int):
        return "integer-changed"
    return "other"


def check_dataset(t: Tally, defn, doc, files, stream_pkts, use_raw, case, string_encoded, gen_kwargs=None, defn_arg=None):
    from space_packet_parser import xarr
    gen_kwargs = gen_kwargs or {}
    # expected rows from the library's own generator, file by file in the given order
    exp = {}
    with observed_warnings():
        try:
            for f in files:
                with open(f, "rb") as fh:
                    for p in defn.packet_generator(fh, **gen_kwargs):
                        exp.setdefault(p.raw_data.apid, []).append(p)
        except Exception as e:  # noqa: BLE001
            t.violation({"kind": "harness: generator raised"}, case, observed=repr(e)[:200])
            return
        try:
            # the documented argument types: one str / Path, or any iterable of them (list, tuple, one-shot generator, Path objects, a producer that re-uses one scratch path)
            import pathlib
            form = (len(files) + sum(len(p) for p in case.get("packets", [])[:3]) + (1 if use_raw else 0)) % 6
            scratch = files[0] + ".unpacked"

            def producer():
                # a producer that unpacks each file to ONE scratch path just before handing that path over (archives, compressed passes): the
                # path is good until the next one is asked for
                import shutil
                for f in files:
                    shutil.copyfile(f, scratch)
                    yield scratch
            if form == 5:
                arg = producer()
            elif len(files) == 1 and form % 2 == 0:
                arg = files[0] if form == 0 else pathlib.Path(files[0])
            else:
                arg = [list(files), tuple(files), (f for f in files), iter([pathlib.Path(f) for f in files]), map(str, files)][form]
            try:
                ds = xarr.create_dataset(arg, defn if defn_arg is None else defn_arg, use_raw_values=use_raw, **gen_kwargs)
            finally:
                if form == 5 and os.path.exists(scratch):
                    os.unlink(scratch)
        except Exception as e:  # noqa: BLE001
            t.evals += 1
            t.outcomes["create_dataset-raised"] += 1
            t.violation({"kind": "create-dataset-raised", "exc": type(e).__name__, "raw_mode": use_raw,
                         "string_encoded": string_encoded if type(e).__name__ == "UnicodeDecodeError" else None, "field_kind": case.get("kind_name") if not (use_raw and string_encoded) else "*"},
                        case, observed=f"{type(e).__name__}: {str(e)[:200]}", note="create_dataset failed on a stream whose packets all parse")
            return
    t.evals += 1
    t.outcomes["dataset"] += 1
    if set(ds.keys()) != set(exp.keys()):
        t.violation({"kind": "apid-set-differs"}, case, expected=sorted(exp), observed=sorted(ds.keys()))
        return
    for apid, pkts in exp.items():
        d = ds[apid]
        names = list(pkts[0].keys())
        # one variable per parameter (a parameter that shares its name with the row dimension is held as that dimension's coordinate variable)
        got_names = [v for v in d.variables if v in d.data_vars or v in names]
        if sorted(got_names) != sorted(names) or [v for v in d.data_vars] != [v for v in names if v in d.data_vars] or set(d.variables) - set(names):
            t.violation({"kind": "variables-differ"}, case, expected=names, observed=list(d.variables))
            continue
        for name in names:
            arr = d[name].values
            if len(arr) != len(pkts):
                t.violation({"kind": "row-count-differs"}, case, expected=len(pkts), observed=len(arr))
                break
            for i, p in enumerate(pkts):
                want = p[name].raw_value if use_raw else p[name]
                got = cell_value(arr, i)
                if not same_cell(want, got):
                    loss = classify_loss(want, got)
                    t.violation({"kind": "cell-differs", "loss": loss, "cell_kind": kind_of(want), "raw_mode": use_raw,
                                 "string_encoded": string_encoded if use_raw else None,
                                 "field_kind": case.get("kind_name") if loss in ("other", "integer-changed", "float-rounded-or-flushed") else "*"},
                                {**case, "apid": apid, "row": i, "variable": name},
                                expected=(kind_of(want), plain(want)), observed=(kind_of(got), got, str(arr.dtype)),
                                note="dataset cell differs from the parsed value")


def _task(task):
    """Several definitions per task, one after the other in one process: the parameter names (F_0, B_CNT ...) are the same in all of
    them while their types differ, so anything create_dataset remembers from an earlier definition shows up in the next one."""
    t = Tally()
    for ki in task["kinds"]:
        t.merge(_task_one({**task, "kind": ki}))
    return t


def _task_one(task):
    t = Tally()
    ki = task["kind"]
    doc = make_doc(ki)
    kname = "intwidths" if ki == "intwidths" else c01.pal()[ki].name
    work = task["work"]
    os.makedirs(work, exist_ok=True)
    try:
        with case_alarm(120):
            defn = load_doc(doc)
    except BaseException as e:  # noqa: BLE001
        t.violation({"kind": "load-failed", "exc": type(e).__name__}, {"kind": ki}, observed=str(e)[:300])
        return t
    string_encoded = False
    if ki != "intwidths":
        string_encoded = any(isinstance(p.enc, StrEnc) for p in c01.pal()[ki].build("0", {"start": 48, "last": True}).ptypes)
    pats = list(c01.base_patterns().values()) + special_patterns(kname)
    a_pkts = []
    for j, pat in enumerate(pats):
        pkt, o = c01.fit(doc, 1, pat, seqcount=j)
        if o.kind == "parsed" and not o.overrun and pkt not in a_pkts:
            a_pkts.append(pkt)
    import struct
    b_pkts = [framing.mk_packet(struct.pack(">Hf", 7, 1.5), apid=2, seqcount=500), framing.mk_packet(struct.pack(">Hf", 65535, -0.0), apid=2, seqcount=501)]
    base_case = {"kind": ki, "kind_name": kname}
    fcount = [0]

    def write(pkts):
        fcount[0] += 1
        # file names are labels: characters that mean something to a shell or to glob ([ ] * ?) are ordinary characters here
        path = os.path.join(work, ("c18_{p}_{k}.bin", "c18_{p}_[{k}].bin", "c18_{p}_{k}?.bin", "c18 {p} *{k}.bin")[fcount[0] % 4].format(p=os.getpid(), k=fcount[0] % 4))
        with open(path, "wb") as f:
            f.write(b"".join(pkts))
        return path

    try:
        with case_alarm(900):
            # (a) every A packet alone and all together (value extremes), both modes
            for use_raw in (False, True):
                for grp in [[p] for p in a_pkts] + ([a_pkts] if len(a_pkts) > 1 else []):
                    f1 = write(grp)
                    check_dataset(t, defn, doc, [f1], grp, use_raw, {**base_case, "packets": [p.hex() for p in grp][:6], "use_raw_values": use_raw, "files": 1},
                                  string_encoded)
            # (b) every APID interleaving of <= max_len packets over {A1, A2, B1, B2}, split over file lists
            fam = (a_pkts[:1] + a_pkts[-1:] if len(a_pkts) > 1 else a_pkts[:1]) + b_pkts
            for n in range(1, task["max_len"] + 1):
                for seq in itertools.product(range(len(fam)), repeat=n):
                    pk = [fam[i] for i in seq]
                    variants = [([pk], "[f1]")]
                    if n >= 2:
                        cut = n // 2
                        variants += [([pk[:cut], pk[cut:]], "[f1,f2]"), ([pk[cut:], pk[:cut]], "[f2,f1]")]
                    if n >= 2:
                        # a non-final file that does not end on a packet boundary: each file is framed on its own
                        variants += [([pk[:cut] + [b"\x07\x08\x09"], pk[cut:]], "[f1+3 stray bytes,f2]"),
                                     ([pk[:cut] + [fam[0][:9]], pk[cut:]], "[f1+incomplete packet,f2]")]
                    for parts, lab in variants:
                        files = [write(part) for part in parts]
                        use_raw = (sum(seq) + n) % 2 == 1
                        check_dataset(t, defn, doc, files, pk, use_raw,
                                      {**base_case, "seq": list(seq), "file_list": lab, "use_raw_values": use_raw, "packets": [p.hex() for p in pk]}, string_encoded)
            # (d) keyword arguments handed through to the packet generator, and the definition given as a file path
            from mc.spec import render_xml
            import pathlib
            xml_path = os.path.join(work, f"c18_{os.getpid()}_def.xml")
            with open(xml_path, "wb") as f:
                f.write(render_xml(doc))
            mix = [x for pair in zip(a_pkts, (b_pkts * len(a_pkts))[:len(a_pkts)]) for x in pair]
            for use_raw in (False, True):
                recs = [bytes([0xE0 + (i % 16)] * 4) + p for i, p in enumerate(mix)]
                check_dataset(t, defn, doc, [write(recs)], mix, use_raw, {**base_case, "variant": "skip_header_bytes=4", "use_raw_values": use_raw,
                                                                          "packets": [p.hex() for p in mix][:6]}, string_encoded, gen_kwargs={"skip_header_bytes": 4})
                longer = [framing.mk_packet(p[6:] + b"\x00\x00", apid=1, seqcount=900 + i) for i, p in enumerate(a_pkts[:2])]
                withbad = a_pkts[:1] + longer[:1] + b_pkts[:1] + a_pkts[-1:] + longer[1:]
                for pb in (False, True):
                    check_dataset(t, defn, doc, [write(withbad)], withbad, use_raw, {**base_case, "variant": f"parse_bad_pkts={pb}", "use_raw_values": use_raw,
                                                                                     "packets": [p.hex() for p in withbad][:6]}, string_encoded, gen_kwargs={"parse_bad_pkts": pb})
                check_dataset(t, defn, doc, [write(mix)], mix, use_raw, {**base_case, "variant": "definition given as a path", "use_raw_values": use_raw,
                                                                         "packets": [p.hex() for p in mix][:6]}, string_encoded,
                              defn_arg=xml_path if use_raw else pathlib.Path(xml_path))
            os.unlink(xml_path)
            # (e) one APID whose packets share one field set but not one field order
            r_pkts = [framing.mk_packet(bytes([0, 0x12, 0x34, 0x56]), apid=4, seqcount=1), framing.mk_packet(bytes([1, 0x78, 0x9A, 0xBC]), apid=4, seqcount=2),
                      framing.mk_packet(bytes([0, 0xFF, 0xFF, 0x00]), apid=4, seqcount=3), framing.mk_packet(bytes([9, 0x00, 0x00, 0x01]), apid=4, seqcount=4)]
            for n in (2, 3):
                for seq in itertools.product(range(4), repeat=n):
                    if len({r_pkts[i][6] == 0 for i in seq}) < 2:
                        continue
                    pk = [r_pkts[i] for i in seq] + b_pkts[:1]
                    for use_raw in (False, True):
                        check_dataset(t, defn, doc, [write(pk)], pk, use_raw, {**base_case, "variant": "same field set, two field orders", "seq": list(seq),
                                                                               "use_raw_values": use_raw, "packets": [p.hex() for p in pk]}, string_encoded)
            # (f) packet files are packet files whatever their first bytes look like: first packets whose header words spell the magic numbers
            # of gzip (1f 8b), bzip2 (42 5a), xz (fd 37), zstd (28 b5), zip (50 4b), and a UTF-8 byte order mark (ef bb)
            for magic in ("1f8b", "425a", "fd37", "28b5", "504b", "efbb"):
                w = int(magic, 16)
                first = framing.mk_packet(bytes([0x68 if magic == "425a" else 0x5A]), version=w >> 13, type_=(w >> 12) & 1, shflag=(w >> 11) & 1, apid=w & 0x7FF,
                                          seqflags={"1f8b": 0, "425a": 1}.get(magic, 3), seqcount={"425a": 0x2800}.get(magic, 0x0800))   # 1f 8b 08 .., 42 5a 68 ..
                assert first[:2].hex() == magic
                pk = [first] + b_pkts + [first]
                for use_raw in (False, True):
                    check_dataset(t, defn, doc, [write(pk)], pk, use_raw, {**base_case, "variant": f"file starting with the bytes {magic}", "use_raw_values": use_raw,
                                                                           "packets": [p.hex() for p in pk]}, string_encoded)
            # (g) many APIDs in one call: 150 and 300 of them, each met again after all the others (one file, and the repetition in a second file)
            for napid in (150, 300):
                once = [framing.mk_packet(bytes([a & 0xFF]), apid=5 + a, seqcount=a) for a in range(napid)]
                again = [framing.mk_packet(bytes([(a + 1) & 0xFF]), apid=5 + a, seqcount=a + 1) for a in range(napid)]
                for files_ in ([once + again], [once, again]):
                    check_dataset(t, defn, doc, [write(part) for part in files_], once + again, napid == 300,
                                  {**base_case, "variant": f"{napid} APIDs, each met twice, in {len(files_)} file(s)", "use_raw_values": napid == 300,
                                   "packets": [p.hex() for p in (once + again)[:4]]}, string_encoded)
            # (c) a polymorphic APID must be rejected with ValueError
            from space_packet_parser import xarr
            poly = [framing.mk_packet(bytes([0, 9]), apid=3), framing.mk_packet(bytes([1, 9]), apid=3, seqcount=1)]
            import pathlib
            fine = [framing.mk_packet(bytes([7]), apid=5, seqcount=0)]
            layouts = {"one file": [poly], "after a file without it": [fine, poly], "its two packets in two files": [poly[:1], poly[1:]]}
            for lname, parts in layouts.items():
                paths = [write(part) for part in parts]
                forms = {"a list": lambda: list(paths), "a tuple": lambda: tuple(paths), "a generator": lambda: (f for f in paths),
                         "an iterator of Path objects": lambda: iter([pathlib.Path(f) for f in paths]), "a map": lambda: map(str, paths)}
                if len(paths) == 1:
                    forms["one path"] = lambda: paths[0]
                for fname, mk in forms.items():
                    t.evals += 1
                    pcase = {**base_case, "polymorphic": lname, "files_given_as": fname}
                    with observed_warnings():
                        try:
                            xarr.create_dataset(mk(), defn)
                            t.violation({"kind": "polymorphic-apid-accepted"}, pcase, note="packets of one APID with different field sets were not rejected")
                        except ValueError:
                            t.outcomes["polymorphic-rejected"] += 1
                        except Exception as e:  # noqa: BLE001
                            t.violation({"kind": "polymorphic-apid-wrong-exception", "exc": type(e).__name__}, pcase, observed=repr(e)[:200])
    except BaseException as e:  # noqa: BLE001
        t.violation({"kind": "check-aborted", "exc": type(e).__name__}, base_case, observed=repr(e)[:300])
    for i in range(4):
        try:
            os.unlink(os.path.join(work, ("c18_{p}_{k}.bin", "c18_{p}_[{k}].bin", "c18_{p}_{k}?.bin", "c18 {p} *{k}.bin")[i].format(p=os.getpid(), k=i)))
        except OSError:
            pass
    t.programs += 1
    t.nontrivial += len(a_pkts)
    t.sample({"field_kind": kname, "value_packets": len(a_pkts), "interleavings": f"all sequences of <= {task['max_len']} over 4 packets", "file_lists": ["[f1]", "[f1,f2]", "[f2,f1]"]})
    return t


def _task_own_root(task):
    """A definition object whose root container is not the conventional one (named when it was loaded): create_dataset(files, definition) uses
    the definition as it is - its rows are what the definition's own generator yields - also when a container of the conventional name exists."""
    from mc.spec import Container, Doc, IntEnc, Param, PType, header_entries, header_params, header_ptypes
    t = Tally()
    work = task["work"]
    os.makedirs(work, exist_ok=True)
    pts = tuple(header_ptypes()) + (PType("OB_T", "Integer", IntEnc(8)), PType("OW_T", "Integer", IntEnc(16, "twosComplement")))
    prs = tuple(header_params()) + (Param("HI", "OB_T"), Param("LO", "OB_T"), Param("WORD", "OW_T"))
    for with_conventional in (True, False):
        conts = (Container("Telemetry", tuple(header_entries()) + (("p", "HI"), ("p", "LO"))),)
        if with_conventional:
            conts += (Container("CCSDSPacket", tuple(header_entries()) + (("p", "WORD"),)),)
        doc = Doc(pts, prs, conts, root="Telemetry")
        defn = load_doc(doc)
        pkts = [framing.mk_packet(bytes([0xFF, 0xD6]), apid=9, seqcount=1), framing.mk_packet(bytes([0x01, 0x02]), apid=9, seqcount=2)]
        path = os.path.join(work, f"c18r_{os.getpid()}.bin")
        with open(path, "wb") as f:
            f.write(b"".join(pkts))
        for use_raw in (False, True):
            check_dataset(t, defn, doc, [path], pkts, use_raw, {"variant": "definition with its own root container", "conventional_root_also_defined": with_conventional,
                                                                "use_raw_values": use_raw, "own_root": True, "packets": [p.hex() for p in pkts]}, False)
        os.unlink(path)
    t.nontrivial += 2
    return t


def _task_many_files(task):
    """A long file list (a day of one-file-per-pass data): more files than the process may hold open at once.  The soft descriptor limit is
    lowered for the duration of the call, as it is on machines with the customary limits of 256 or 1024."""
    import resource
    t = Tally()
    work = task["work"]
    os.makedirs(work, exist_ok=True)
    doc = make_doc("intwidths")
    defn = load_doc(doc)
    import struct
    pats = list(c01.base_patterns().values())
    a_pkts = []
    for j, pat in enumerate(pats):
        pkt, o = c01.fit(doc, 1, pat, seqcount=j)
        if o.kind == "parsed" and not o.overrun:
            a_pkts.append(pkt)
    files, stream = [], []
    d = os.path.join(work, f"c18many_{os.getpid()}")
    os.makedirs(d, exist_ok=True)
    for i in range(task["n_files"]):
        pk = [a_pkts[i % len(a_pkts)]] if i % 3 else [framing.mk_packet(struct.pack(">Hf", i, i / 4), apid=2, seqcount=i)]
        path = os.path.join(d, f"pass_{i:04d}.pkts")
        with open(path, "wb") as f:
            f.write(b"".join(pk))
        files.append(path)
        stream += pk
    soft, hard = resource.getrlimit(resource.RLIMIT_NOFILE)
    in_use = len(os.listdir("/proc/self/fd"))
    try:
        resource.setrlimit(resource.RLIMIT_NOFILE, (min(hard, in_use + 48), hard))
        for use_raw in (False, True):
            check_dataset(t, defn, doc, files, stream, use_raw, {"kind": "intwidths", "kind_name": "intwidths", "variant": f"{len(files)} files, descriptor limit {in_use + 48}",
                                                                  "use_raw_values": use_raw, "many_files": task["n_files"]}, False)
    finally:
        resource.setrlimit(resource.RLIMIT_NOFILE, (soft, hard))
        import shutil
        shutil.rmtree(d, ignore_errors=True)
    t.nontrivial += 1
    return t


def run(ctx):
    ks = ["intwidths"] + [i for i, k in enumerate(c01.pal()) if k.name != "u72"]
    # interleave unlike kinds (ints, floats, strings, binaries ...) within one task
    groups = [ks[i::24] for i in range(24)]
    tasks = [{"kinds": g, "work": ctx.work, "max_len": 3 if ctx.quick else 4} for g in groups if g]
    tally = fan_out(_task, tasks, jobs=ctx.jobs, seed=ctx.seed)
    tally.merge(fan_out(_task_many_files, [{"work": ctx.work, "n_files": n} for n in ((300,) if ctx.quick else (300, 1100))], jobs=2, seed=ctx.seed))
    tally.merge(_task_own_root({"work": ctx.work}))
    coverage = {
        "programs": tally.programs,
        "exhaustive": True,
        "bound": (f"{len(ks)} definitions (each palette field kind on APID 1 + a boundary set of signed/unsigned widths 1..64; a fixed layout on APID 2; a polymorphic APID 3; an APID 4 whose packets share one field set in two field orders) x "
                  "8 pattern payloads + 12 dtype-stress payloads (leading/trailing/embedded NUL, spaces, non-ASCII, tiny/huge MIL-STD-1750A, integer extremes) singly and "
                  f"together x use_raw_values {{F,T}}; every APID interleaving of <= {3 if ctx.quick else 4} packets over a 4-packet family x file lists [f1], [f1,f2], [f2,f1], [f1+stray bytes,f2], [f1+incomplete packet,f2]; "
                  "generator keyword arguments handed through (skip_header_bytes=4 on prefixed records, parse_bad_pkts in {F,T} with over-long packets in the stream) and the definition given as a str / Path; "
                  "a list of 300 (thorough: 1100) one-packet files under a soft descriptor limit of ~50 above what the process already has open"),
        "rule": "one evaluation = one create_dataset call compared cell by cell with packet_generator's items; distinct non-trivial = distinct value packets per field kind",
    }
    return {"level": LEVEL, "tally": tally, "coverage": coverage,
            "assumptions": ["expected cells are packet_generator's own items (C01 decides those)", "the file argument rotates through str, Path, list, tuple, generator, iterator of Paths and map object; file names rotate through plain, [k], k? and ' *k' forms", "a boolean cell may be stored as 0/1",
                            "integer widths above 64 bits are outside the claim"]}


def replay(case):
    if case.get("own_root"):
        from mc import VERIF_ROOT
        t = _task_own_root({"work": os.path.join(VERIF_ROOT, ".work")})
        return t.violations[0] if t.violations else None
    import os as _os
    if case.get("many_files"):
        t = _task_many_files({"work": _os.path.join(_os.path.dirname(_os.path.dirname(_os.path.dirname(_os.path.abspath(__file__)))), ".work"), "n_files": case["many_files"]})
        return t.violations[0] if t.violations else None
    t = _task_one({"kind": case["kind"], "work": _os.path.join(_os.path.dirname(_os.path.dirname(_os.path.dirname(_os.path.abspath(__file__)))), ".work"), "max_len": 3})
    for v in t.violations:
        if v["case"].get("packets") == case.get("packets") and v["case"].get("use_raw_values") == case.get("use_raw_values") \
                and v["case"].get("variable") == case.get("variable"):
            return v
    return t.violations[0] if t.violations and "packets" not in case else None


def repro_py(case):
    return f"# {case!r}\n# ./check C18 --replay <this file> rebuilds the definition and files and repeats create_dataset\n"
