"""C10 — Framing terminates on every finite source and yields only complete packets.

Kernel E-env used as fault enumeration: the producer may die at every byte offset.  For bytes and
file sources every cut point of every stream is enumerated explicitly; for the scripted socket the
peer's close is one more alternative at every recv() choice point, so one exploration covers every
fragmentation x every crash point.  Oracle: the greedy framing of the delivered prefix (items are
consecutive complete slices, remainder shorter than one prefix+packet unit), termination without
polling a dead source, no exception.
"""
from __future__ import annotations

import os

import io
import itertools

from mc import framing
from mc.envexplore import EnvExplorer
from mc.kernel import CaseTimeout, Tally, case_alarm, chunked, fan_out, observed_warnings
from mc.seams import CountingBytesIO, Livelock, ScriptedSocket, owned_clock, pull

PROP = "C10"
LEVEL = "fault_enumeration"

HEADER_ONLY_XTCE = b"""<?xml version='1.0' encoding='UTF-8'?>
<xtce:SpaceSystem xmlns:xtce="http://www.omg.org/space/xtce" name="T">
 <xtce:TelemetryMetaData>
  <xtce:ParameterTypeSet>
   <xtce:IntegerParameterType name="U3"><xtce:IntegerDataEncoding sizeInBits="3" encoding="unsigned"/></xtce:IntegerParameterType>
   <xtce:IntegerParameterType name="U1"><xtce:IntegerDataEncoding sizeInBits="1" encoding="unsigned"/></xtce:IntegerParameterType>
   <xtce:IntegerParameterType name="U11"><xtce:IntegerDataEncoding sizeInBits="11" encoding="unsigned"/></xtce:IntegerParameterType>
   <xtce:IntegerParameterType name="U2"><xtce:IntegerDataEncoding sizeInBits="2" encoding="unsigned"/></xtce:IntegerParameterType>
   <xtce:IntegerParameterType name="U14"><xtce:IntegerDataEncoding sizeInBits="14" encoding="unsigned"/></xtce:IntegerParameterType>
   <xtce:IntegerParameterType name="U16"><xtce:IntegerDataEncoding sizeInBits="16" encoding="unsigned"/></xtce:IntegerParameterType>
  </xtce:ParameterTypeSet>
  <xtce:ParameterSet>
   <xtce:Parameter name="VERSION" parameterTypeRef="U3"/>
   <xtce:Parameter name="TYPE" parameterTypeRef="U1"/>
   <xtce:Parameter name="SEC_HDR_FLG" parameterTypeRef="U1"/>
   <xtce:Parameter name="PKT_APID" parameterTypeRef="U11"/>
   <xtce:Parameter name="SEQ_FLGS" parameterTypeRef="U2"/>
   <xtce:Parameter name="SRC_SEQ_CTR" parameterTypeRef="U14"/>
   <xtce:Parameter name="PKT_LEN" parameterTypeRef="U16"/>
  </xtce:ParameterSet>
  <xtce:ContainerSet>
   <xtce:SequenceContainer name="CCSDSPacket">
    <xtce:EntryList>
     <xtce:ParameterRefEntry parameterRef="VERSION"/><xtce:ParameterRefEntry parameterRef="TYPE"/>
     <xtce:ParameterRefEntry parameterRef="SEC_HDR_FLG"/><xtce:ParameterRefEntry parameterRef="PKT_APID"/>
     <xtce:ParameterRefEntry parameterRef="SEQ_FLGS"/><xtce:ParameterRefEntry parameterRef="SRC_SEQ_CTR"/>
     <xtce:ParameterRefEntry parameterRef="PKT_LEN"/>
    </xtce:EntryList>
   </xtce:SequenceContainer>
  </xtce:ContainerSet>
 </xtce:TelemetryMetaData>
</xtce:SpaceSystem>
"""

_DEF = None


def header_only_definition():
    global _DEF
    if _DEF is None:
        from space_packet_parser.xtce.definitions import XtcePacketDefinition
        _DEF = XtcePacketDefinition.from_xtce(io.BytesIO(HEADER_ONLY_XTCE))
    return _DEF


def _make_gen(entry, src, r, k, progress=False):
    if entry == "ccsds":
        from space_packet_parser.packets import ccsds_generator
        return ccsds_generator(src, buffer_read_size_bytes=r, skip_header_bytes=k, show_progress=progress)
    return header_only_definition().packet_generator(src, buffer_read_size_bytes=r, skip_header_bytes=k, show_progress=progress)


def _raw(entry, item):
    if entry == "ccsds":
        return bytes(item)
    rd = getattr(item, "raw_data", None)
    return bytes(rd) if rd is not None else repr(item).encode()


def _judge(items, end, delivered: bytes, k):
    """The oracle, stated without an expected list where possible.  Returns None or a reason."""
    if end != "stop":
        return f"did not end cleanly: {end}"
    pos = 0
    for it in items:
        if len(it) < 6 or len(it) != 6 + int.from_bytes(it[4:6], "big") + 1:
            return "yielded an item whose length differs from 6 + its own length field + 1"
        if delivered[pos + k:pos + k + len(it)] != it:
            return "items are not consecutive slices of the input"
        pos += k + len(it)
    rest = delivered[pos:]
    if len(rest) >= k + 6:
        need = k + 6 + int.from_bytes(rest[k + 4:k + 6], "big") + 1
        if len(rest) >= need:
            return "a complete packet was left unconsumed"
    want, _ = framing.ref_frame(delivered, k)  # redundant with the above: model agreement
    if want != list(items):
        return "differs from the greedy framing model"
    return None


def _sized(t: Tally, entry, kind, data, r, k, case, progress=False):
    import contextlib
    import io as _io
    try:
        # the progress display writes to standard output: a captured stream, a stream that can only be written to, or none at all (sys.stdout is None under pythonw, in services
        # and with a closed descriptor 1, where print() is a silent no-op)
        from mc.seams import WriteOnlyStream
        out_stream = (None, _io.StringIO(), WriteOnlyStream())[(len(data) + (r or 0) + k) % 3] if progress else _io.StringIO()
        with case_alarm(20), observed_warnings(), contextlib.redirect_stdout(out_stream):
            if kind in ("gzip", "buffered-over-short-raw", "device-reporting-length-0"):
                from mc.checks.c02 import _file_family
                src = _file_family(kind, data)
            else:
                if kind == "raw-packet-object":
                    from space_packet_parser.packets import RawPacketData
                    src = RawPacketData(data)     # the library's own bytes subclass as a byte source: bytes like any other
                else:
                    src = data if kind == "bytes" else CountingBytesIO(data)
            g = _make_gen(entry, src, r, k, progress)
            items, end = pull(g, horizon=len(data) // 7 + 2)
            got = [_raw(entry, i) for i in items]
    except CaseTimeout:
        got, end = [], "timeout"
    t.evals += 1
    why = _judge(got, end, data, k)
    t.outcomes[f"{kind}:{'ok' if why is None else 'bad'}:items={min(len(got), 4)}"] += 1
    if why:
        endk = end if isinstance(end, str) else end[0] + (":" + end[1] if end[0] == "raised" else "")
        t.violation({"kind": "termination" if end != "stop" else "framing", "source": kind, "end": endk, "show_progress": progress},
                    {**case, "entry": entry, "source": kind, "r": r, "k": k, "data": data.hex(), "show_progress": progress},
                    observed={"items": [x.hex() for x in got[:5]], "n_items": len(got), "end": end}, note=why)
        return False
    return True


def _socket(t: Tally, entry, data, r, k, case, allow_close=True, max_execs=300_000, progress=False, msg_max=None):
    horizon = len(data) // 7 + 2
    import contextlib
    import io as _io

    def drive(sock, on_item):
        with observed_warnings(), contextlib.redirect_stdout(_io.StringIO()):
            g = _make_gen(entry, sock, r, k, progress)
            items = []
            while True:
                try:
                    it = next(g)
                except StopIteration:
                    return (tuple(items), "stop")
                except Livelock:
                    return (tuple(items), "livelock")
                except Exception as e:  # noqa: BLE001 - the observation
                    return (tuple(items), f"raised:{type(e).__name__}")
                b = _raw(entry, it)
                on_item(b)
                items.append(b)
                if len(items) > horizon:
                    return (tuple(items), "horizon")

    ex = EnvExplorer(data, drive, allow_close=allow_close, max_execs=max_execs, msg_max=msg_max)

    def check(e):
        # the finite source is what the peer sends before it closes: everything, unless this execution took the close alternative.  A generator
        # that stops while the peer is still open and has more to send has left that remainder unconsumed.
        delivered = data[:e.sock.delivered] if e.sock.closed else data
        why = _judge(list(e.obs[0]), e.obs[1], delivered, k)
        if e.sock.truncated and why is None:
            why = (f"{e.sock.truncated} byte(s) of a message were lost: recv() was called with a size smaller than the read size the caller configured, "
                   "on a message-preserving socket")
        if why and not e.sock.closed and e.sock.delivered < len(data):
            why += " (the generator stopped although the peer had neither closed nor finished sending)"
        return None if why is None else (why, e.obs, e.sock.delivered)

    try:
        with case_alarm(300):
            vs = ex.explore(check)
    except CaseTimeout:
        t.violation({"kind": "timeout", "source": "socket"}, {**case, "entry": entry, "r": r, "k": k, "data": data.hex()},
                    note="socket exploration exceeded its budget")
        return
    t.evals += ex.executions
    t.states += len(ex.seen)
    t.transitions += ex.transitions
    t.extra["socket_explorations"] += 1
    t.outcomes[f"socket:distinct_outcomes>={min(len(ex.outcomes), 3)}"] += 1
    if ex.capped:
        t.caps.append(f"socket exploration capped at {max_execs}")
    if ex.uninspectable:
        t.notes.append("implementation frame not inspectable at some choice point: no state merging there")
    for sched, (why, obs, delivered) in vs:
        t.violation({"kind": "termination" if obs[1] != "stop" else "framing", "source": "socket", "end": obs[1]},
                    {**case, "entry": entry, "source": "socket", "r": r, "k": k, "data": data.hex(), "schedule": sched},
                    observed={"items": [x.hex() for x in obs[0][:5]], "n_items": len(obs[0]), "end": obs[1],
                              "delivered_before_close": delivered}, note=why)


def _task_streams(task):
    t = Tally()
    pal = framing.palette_packets()
    with owned_clock():
        for seq, k in task["items"]:
            pkts = [pal[i] for i in seq]
            stream = framing.build_stream(pkts, k)
            L = len(stream)
            case = {"seq": list(seq)}
            for entry in ("ccsds", "pg"):
                for cut in range(L + 1):
                    data = stream[:cut]
                    _sized(t, entry, "bytes", data, None, k, {**case, "cut": cut})
                    _sized(t, entry, "raw-packet-object", data, None, k, {**case, "cut": cut})
                    # the progress display is part of the generators: it must not make them fail on any of these sources
                    _sized(t, entry, "bytes", data, None, k, {**case, "cut": cut}, progress=True)
                    _sized(t, entry, "bytesio", data, 7, k, {**case, "cut": cut}, progress=True)
                    if entry == "ccsds":
                        for fk in ("gzip", "buffered-over-short-raw", "device-reporting-length-0"):
                            for r in (None, 7):
                                _sized(t, entry, fk, data, r, k, {**case, "cut": cut})
                    rs = [None] + list(range(1, L + 2)) if entry == "ccsds" else [None, 1, 6, 7]
                    for r in rs:
                        _sized(t, entry, "bytesio", data, r, k, {**case, "cut": cut})
                    if cut not in (0, L):
                        t.nontrivial += 1  # a distinct truncated stream
                rs = [None, 1, 3, 6, 7, L] if entry == "ccsds" else [None, 3]
                if task["tier"] == "quick" and len(seq) == 3:
                    rs = [3, 7] if entry == "ccsds" else [3]
                for r in rs:
                    if L:
                        _socket(t, entry, stream, r, k, case)
                if L and len(seq) <= 2 and entry == "ccsds":
                    # a message-preserving socket (SOCK_SEQPACKET, datagrams): every message fits the configured read size, so nothing may get lost
                    for rr in (7, 16):
                        _socket(t, entry, stream, rr, k, {**case, "message_socket": rr}, msg_max=rr)
                if L and len(seq) <= 2:
                    # the progress display with a source of unknown length (the clock is owned, so the state space stays finite)
                    _socket(t, entry, stream, 3, k, {**case, "show_progress": True}, progress=True)
            t.programs += 1
            if len(seq) == 1 and k == 2 and seq[0] == 1:
                t.sample({"stream": stream.hex(), "prefix": k, "cut_points": f"0..{L}",
                          "sources": "bytes, BytesIO r in None,1..L+1, socket (every fragmentation x close at every choice point)"})
    return t


def _touched_run(pkmod, data, k, touch, when, n_expected):
    """A complete stream in a file object read with the default (whole-file) read: after the first / the last packet the caller closes or
    rewinds its handle.  Everything is in the framer's hands by then, so the items stay the consecutive packets of the input and it stops."""
    src = io.BytesIO(data)
    g = pkmod.ccsds_generator(src, skip_header_bytes=k)
    got = []
    end = "stop"
    try:
        for i in range(n_expected + 3):
            if i == (1 if when == "first" else n_expected):
                src.close() if touch == "close" else src.seek(0)
            got.append(bytes(next(g)))
        end = "no end within the horizon"
    except StopIteration:
        pass
    except Exception as e:  # noqa: BLE001
        end = f"raised {type(e).__name__}"
    return got, end


def _task_touched(task):
    from mc.checks.c02 import _pkmod_cached
    t = Tally()
    pal = framing.palette_packets()
    for seq, k in task["items"]:
        pkts = [pal[i] for i in seq]
        stream = framing.build_stream(pkts, k)
        for thr in (None, 0, 17):
            pkmod = _pkmod_cached(thr)
            if pkmod is None:
                continue
            for touch in ("close", "rewind"):
                for when in ("first", "last"):
                    with case_alarm(20):
                        got, end = _touched_run(pkmod, stream, k, touch, when, len(pkts))
                    t.evals += 1
                    why = _judge(got, end, stream, k)
                    t.outcomes[f"touched:{'ok' if why is None else 'bad'}"] += 1
                    if why:
                        t.violation({"kind": "termination" if end != "stop" else "framing", "source": f"file-object-{touch}d-by-caller-after-{when}-packet", "end": end},
                                    {"touched": True, "seq": list(seq), "k": k, "threshold": thr, "touch": touch, "when": when},
                                    observed={"n_items": len(got), "end": end}, note=why)
        t.nontrivial += 1
    return t


def _task_arbitrary(task):
    t = Tally()
    with owned_clock():
        for data in task["strings"]:
            k = task["k"]
            for kind, r in (("bytes", None), ("bytesio", None), ("bytesio", 1), ("bytesio", 3), ("bytesio", 7)):
                if len(data) <= 2 and r in (3, 7):
                    continue
                _sized(t, "ccsds", kind, data, r, k, {"arbitrary": True})
            if len(data) >= 6:
                t.nontrivial += 1
                _sized(t, "pg", "bytes", data, None, k, {"arbitrary": True})
                if task["sock"]:
                    _socket(t, "ccsds", data, None, k, {"arbitrary": True})
                    _socket(t, "ccsds", data, 3, k, {"arbitrary": True})
    return t


def _task_big(task):
    """More than 20 MB of maximum-size packets followed by a truncated tail / stray bytes (the buffer-trim branch must not make
    the generator fail or lose its place), from a bytes object and from a file object with two read sizes."""
    t = Tally()
    body = bytes((i * 13 + 1) & 0xFF for i in range(65536))
    pkts = [framing.mk_packet(body[:-2] + i.to_bytes(2, "big"), apid=i % 2048, seqcount=i) for i in range(308)]
    tail = {"truncated": framing.mk_packet(body, apid=7)[:40000], "stray": b"\x00\x01\x02", "complete-small": framing.mk_packet(b"\x05", apid=9)}[task["tail"]]
    data = b"".join(pkts) + tail
    want = pkts + ([tail] if task["tail"] == "complete-small" else [])
    with owned_clock():
        for kind, r in (("bytes", None), ("bytesio", None), ("bytesio", 1 << 20)):
            try:
                with case_alarm(300), observed_warnings():
                    from space_packet_parser.packets import ccsds_generator
                    src = data if kind == "bytes" else CountingBytesIO(data)
                    items, end = pull(ccsds_generator(src, buffer_read_size_bytes=r), horizon=len(want) + 3)
                    got_ok = end == "stop" and len(items) == len(want) and all(bytes(a) == b for a, b in zip(items, want))
            except CaseTimeout:
                got_ok, end, items = False, "timeout", []
            t.evals += 1
            t.nontrivial += 1
            t.outcomes["big:" + ("ok" if got_ok else "bad")] += 1
            if not got_ok:
                endk = end if isinstance(end, str) else end[0] + (":" + end[1] if end[0] == "raised" else "")
                t.violation({"kind": "termination" if end != "stop" else "framing", "source": kind, "end": endk, "big": True},
                            {"big": task["tail"], "source": kind, "r": r}, observed={"n_items": len(items), "end": end},
                            note="a stream beyond the 20 MB buffer-trim threshold is not framed/terminated correctly")
    return t


def _task_handles(task):
    """File objects as a producer leaves them: opened for reading AND writing, written packet by packet (more than one I/O buffer in total)
    and handed to the framer without flush(); then the same file truncated part-way through a packet.  The finite source is the content of
    the file; what the operating system currently reports for the descriptor (fstat) may lag behind it."""
    import tempfile
    from space_packet_parser.packets import ccsds_generator
    t = Tally()
    work = task["work"]
    os.makedirs(work, exist_ok=True)
    n, k = task["n"], task["k"]
    pkts = [framing.mk_packet(bytes(((i * 7 + j) & 0xFF) for j in range(20 + i % 9)), apid=(i * 5) % 2048, seqcount=i) for i in range(n)]
    recs = [framing.foreign_prefix(k, i) + p for i, p in enumerate(pkts)]
    for cut in (0, 1, 9):
        data = b"".join(recs)
        if cut:
            data = data[:-cut]
        for opener in ("w+b", "tempfile", "w+b-after-seek0", "r+b-append", "unbuffered-write-then-rb", "generator-created-before-the-writes",
                       "generator-created-then-caller-reads-4"):
            for r in (None, 4096):
                path = os.path.join(work, f"c10h_{os.getpid()}.bin")
                try:
                    with case_alarm(60), observed_warnings():
                        if opener == "tempfile":
                            f = tempfile.TemporaryFile(dir=work)
                        elif opener == "r+b-append":
                            with open(path, "wb") as g:
                                g.write(recs[0])
                            f = open(path, "r+b")
                            f.seek(0, 2)
                        elif opener == "unbuffered-write-then-rb":
                            with open(path, "wb", buffering=0) as g:
                                g.write(data)
                            f = open(path, "rb")
                        else:
                            f = open(path, "w+b")
                        with f:
                            pre_gen = None
                            if opener.startswith("generator-created"):
                                # a generator object does nothing until it is first advanced: the source is whatever the file holds THEN
                                pre_gen = ccsds_generator(f, buffer_read_size_bytes=r, skip_header_bytes=k)
                            if opener != "unbuffered-write-then-rb":
                                # one write() per record, as a recorder does; the last write() is the (possibly cut) tail
                                off = len(recs[0]) if opener == "r+b-append" else 0
                                pos = 0
                                for rec in recs:
                                    piece = data[max(pos, off):pos + len(rec)]
                                    if piece:
                                        f.write(piece)
                                    pos += len(rec)
                                if opener == "w+b-after-seek0":
                                    f.seek(0)
                                if opener == "generator-created-then-caller-reads-4":
                                    f.seek(0)
                                    f.read(4)
                            items, end = pull(pre_gen if pre_gen is not None else ccsds_generator(f, buffer_read_size_bytes=r, skip_header_bytes=k), horizon=n + 3)
                    got = [bytes(i) for i in items]
                    why = _judge(got, end if isinstance(end, str) else end[0], data, k)
                except CaseTimeout:
                    got, end, why = [], "timeout", "timeout"
                finally:
                    try:
                        os.unlink(path)
                    except OSError:
                        pass
                t.evals += 1
                t.nontrivial += 1
                t.outcomes[f"handle:{opener}:{'ok' if why is None else 'bad'}"] += 1
                if why:
                    t.violation({"kind": "termination" if end != "stop" else "framing", "source": f"file-handle:{opener}", "end": str(end)[:40]},
                                {"handles": True, "opener": opener, "n": n, "k": k, "cut": cut, "r": r}, observed={"n_items": len(got), "end": str(end)[:80]}, note=why)
    # a file that grows while it is being framed: when the first packet is asked for, the file holds it and PART of the second; before the next
    # request the writer appends the rest and further complete packets; the reader frames until reads return nothing
    if n <= 40:
        for r in (None, 8, 4096):
            for part in (1, 7, len(recs[1]) - 1):
                path = os.path.join(work, f"c10g_{os.getpid()}.bin")
                try:
                    with case_alarm(60), observed_warnings():
                        with open(path, "wb", buffering=0) as wr:
                            wr.write(recs[0] + recs[1][:part])
                            with open(path, "rb") as rd:
                                g = ccsds_generator(rd, buffer_read_size_bytes=r, skip_header_bytes=k)
                                first = [bytes(next(g))]
                                wr.write(recs[1][part:] + b"".join(recs[2:]))
                                items, end = pull(g, horizon=n + 3)
                    got = first + [bytes(i) for i in items]
                    why = _judge(got, end if isinstance(end, str) else end[0], b"".join(recs), k)
                except CaseTimeout:
                    got, end, why = [], "timeout", "timeout"
                except StopIteration:
                    got, end, why = [], "stop", "no packet at all"
                finally:
                    try:
                        os.unlink(path)
                    except OSError:
                        pass
                t.evals += 1
                t.nontrivial += 1
                t.outcomes[f"handle:grown-between-requests:{'ok' if why is None else 'bad'}"] += 1
                if why:
                    t.violation({"kind": "termination" if end != "stop" else "framing", "source": "file-handle:grown-between-requests", "end": str(end)[:40]},
                                {"handles": True, "opener": "grown-between-requests", "n": n, "k": k, "cut": part, "r": r}, observed={"n_items": len(got), "end": str(end)[:80]}, note=why)
    return t


def _real_socketpair_smoke(t: Tally):
    """One deterministic real-socket run (send everything, close, then read).  Smoke test only."""
    import socket
    from space_packet_parser.packets import ccsds_generator
    pal = framing.palette_packets()
    data = pal[0] + pal[1] + pal[2][:5]
    a, b = socket.socketpair()
    try:
        a.sendall(data)
        a.close()
        b.settimeout(5)
        with case_alarm(20):
            items, end = pull(ccsds_generator(b, buffer_read_size_bytes=4), horizon=5)
        got = [bytes(i) for i in items]
        why = _judge(got, end, data, 0)
        t.evals += 1
        t.outcomes["real-socketpair:" + ("ok" if why is None else "bad")] += 1
        if why:
            t.violation({"kind": "termination" if end != "stop" else "framing", "source": "real-socketpair"},
                        {"data": data.hex(), "source": "real-socketpair", "r": 4, "k": 0, "entry": "ccsds"},
                        observed={"n_items": len(got), "end": end}, note=why)
    except CaseTimeout:
        t.violation({"kind": "timeout", "source": "real-socketpair"}, {"data": data.hex()}, note="timeout")
    finally:
        b.close()


def strict_probe():
    """Subprocess entry, started with `python -bb` (str() of a bytes object and bytes/str comparisons are errors there, as in the strictest CI
    configurations): every sequence of <= 2 palette packets cut at every byte offset, prefix lengths 0 and 2, through bytes, BytesIO (read
    sizes None and 4), a socket whose peer closes after the data, and a definition's generator.  Prints {"ok": n, "bad": [...]}."""
    import json
    import logging
    logging.disable(logging.CRITICAL)
    pal = framing.palette_packets()
    bad, ok = [], 0
    with owned_clock():
        for seq in framing.all_sequences(pal, 2, 1):
            for k in (0, 2):
                stream = framing.build_stream([pal[i] for i in seq], k)
                for cut in range(len(stream) + 1):
                    data = stream[:cut]
                    for src_kind in ("bytes", "bytesio", "bytesio-r4", "socket", "pg"):
                        try:
                            if src_kind == "socket":
                                src = ScriptedSocket(data, lambda n, remaining, key, sock: min(n, remaining, 3), inspect=False)
                            else:
                                src = data if src_kind in ("bytes", "pg") else io.BytesIO(data)
                            g = _make_gen("pg" if src_kind == "pg" else "ccsds", src, 4 if src_kind in ("bytesio-r4", "socket") else None, k)
                            items, end = pull(g, horizon=len(data) // 7 + 2)
                            why = _judge([_raw("pg" if src_kind == "pg" else "ccsds", i) for i in items], end if isinstance(end, str) else end[0], data, k)
                        except BaseException as e:  # noqa: BLE001
                            why = f"escaped: {type(e).__name__}: {e}"[:160]
                        if why:
                            bad.append({"seq": list(seq), "k": k, "cut": cut, "source": src_kind, "why": why})
                        else:
                            ok += 1
    print(json.dumps({"ok": ok, "bad": bad[:30], "n_bad": len(bad)}))


def _strict_interpreter(t: Tally):
    import json
    import subprocess
    import sys
    from mc import VERIF_ROOT
    p = subprocess.run([sys.executable, "-bb", "-c", "from mc.checks.c10 import strict_probe; strict_probe()"], cwd=VERIF_ROOT,
                       env=dict(os.environ, PYTHONDONTWRITEBYTECODE="1"), capture_output=True, text=True, timeout=900)
    if p.returncode != 0:
        t.violation({"kind": "strict-interpreter-probe-failed"}, {"strict": True}, observed=p.stderr[-400:])
        return
    res = json.loads(p.stdout.strip().splitlines()[-1])
    t.evals += res["ok"] + res["n_bad"]
    t.outcomes["python -bb:ok"] += res["ok"]
    for b in res["bad"][:10]:
        t.violation({"kind": "termination", "source": b["source"], "interpreter": "python -bb"}, {"strict": True, **b}, observed=b["why"],
                    note="under `python -bb` (bytes/str confusion is an error) the generator does not end cleanly on this input")


def run(ctx):
    pal = framing.palette_packets()
    max_len = 3 if ctx.quick else 4
    ks = [0, 2] if ctx.quick else [0, 1, 2, 5]
    items = [(seq, k) for seq in framing.all_sequences(pal, max_len, 1) for k in ks
             if not (len(seq) == 4 and k not in (0, 2))]
    items.sort(key=lambda x: -len(x[0]))
    tasks = [{"items": ch, "tier": ctx.tier} for ch in chunked(items, 64 if ctx.quick else 160)]
    tally = fan_out(_task_streams, tasks, jobs=ctx.jobs, seed=ctx.seed)

    strings = [bytes(s) for n in range(0, 3) for s in itertools.product(range(256), repeat=n)]
    alpha = (0x00, 0x01, 0xFF)
    strings3 = [bytes(s) for n in range(3, 9 if ctx.quick else 10) for s in itertools.product(alpha, repeat=n)]
    atasks = [{"strings": ch, "k": 0, "sock": False} for ch in chunked(strings, 16)]
    atasks += [{"strings": ch, "k": 0, "sock": True} for ch in chunked(strings3, 32)]
    atasks += [{"strings": ch, "k": 1, "sock": False} for ch in chunked(strings3, 16)]
    tally.merge(fan_out(_task_arbitrary, atasks, jobs=ctx.jobs, seed=ctx.seed))
    tally.merge(fan_out(_task_big, [{"tail": x} for x in ("truncated", "stray", "complete-small")], jobs=3, mem_gib=None))
    tally.merge(fan_out(_task_handles, [{"n": n, "k": k, "work": ctx.work} for n in (3, 40, 300, 400) for k in (0, 4)], jobs=8, seed=ctx.seed))
    tally.merge(fan_out(_task_touched, [{"items": ch} for ch in chunked([(seq, k) for seq, k in items if len(seq) <= 3], 40)], jobs=ctx.jobs, seed=ctx.seed))
    _real_socketpair_smoke(tally)
    _strict_interpreter(tally)
    coverage = {
        "states": tally.states,
        "transitions": tally.transitions,
        "programs": tally.programs,
        "exhaustive": True,
        "bound": (f"every sequence of 1..{max_len} palette packets x prefix lengths {ks} cut at EVERY byte offset, for bytes (also wrapped in the library's own bytes subclass), "
                  "BytesIO with every read size (and with show_progress=True), a gzip file object, a BufferedReader over a 3-bytes-per-read raw stream and one over a device-like raw stream whose seek() always answers 0 (read sizes None, 7), read/write file handles as a producer leaves them (w+b, TemporaryFile, r+b appended, the generator object created before the writes / before the caller reads from the handle; a file that grows between two requests, measured part-way through a packet; 3..400 records written one write() each and not flushed; whole and cut by 1 or 9 bytes), file objects holding complete streams that the caller closes / rewinds after the first / the last packet (default read size, buffer-trim literal as shipped and rewritten to 0 and 17), and a scripted socket where the peer may close at every recv() choice point (also with show_progress=True, and as a message-preserving socket whose messages fit the read size, on the streams of <= 2 packets) "
                  "under every fragmentation; all byte strings of length <= 2; all strings of length <= "
                  f"{8 if ctx.quick else 9} over {{00,01,FF}}; both ccsds_generator and packet_generator(header-only definition); in a second interpreter started with -bb: every sequence of <= 2 packets cut at every offset through bytes, BytesIO, a closing socket and a definition's generator"),
        "rule": ("one evaluation = one complete execution of a generator over one (stream, cut point / close point, source, read size, "
                 "schedule); non-trivial = distinct truncated streams (cut strictly inside the stream) and arbitrary strings "
                 "long enough to contain a header"),
    }
    return {"level": LEVEL, "tally": tally, "coverage": coverage,
            "assumptions": ["peer close is modelled as recv() returning b''", "clock owned",
                            "real socketpair run is a smoke test, not a verdict source beyond its single execution"]}


def replay(case):
    if case.get("strict"):
        t = Tally()
        _strict_interpreter(t)
        return next((v for v in t.violations if all(v["case"].get(x) == case.get(x) for x in ("seq", "k", "cut", "source"))), t.violations[0] if t.violations else None)
    if case.get("touched"):
        t = _task_touched({"items": [(tuple(case["seq"]), case["k"])]})
        for v in t.violations:
            if all(v["case"].get(x) == case.get(x) for x in ("threshold", "touch", "when")):
                return v
        return None
    data = bytes.fromhex(case["data"])
    t = Tally()
    with owned_clock():
        if case.get("source") == "socket":
            sched = list(case["schedule"])

            def decide(n, remaining, key, sock):
                if sched:
                    return min(sched.pop(0), remaining, n if n and n > 0 else remaining)
                return min(n if n and n > 0 else remaining, remaining)
            sock = ScriptedSocket(data, decide, inspect=False, msg_max=case.get("message_socket"))
            with observed_warnings():
                import contextlib
                import io as _io
                g = _make_gen(case["entry"], sock, case["r"], case["k"], case.get("show_progress", False))
                try:
                    with contextlib.redirect_stdout(_io.StringIO()):
                        items, end = pull(g, horizon=len(data) // 7 + 2)
                except Livelock:
                    items, end = [], "livelock"
            got = [_raw(case["entry"], i) for i in items]
            why = _judge(got, end if isinstance(end, str) else end[0], data[:sock.delivered] if sock.closed else data, case["k"])
            if why is None and sock.truncated:
                why = f"{sock.truncated} byte(s) of a message were lost on a message-preserving socket"
            if why:
                return {"sig": {"kind": "termination" if end != "stop" else "framing", "source": "socket"},
                        "case": case, "note": why, "observed": {"n_items": len(got), "end": end}}
            return None
        if case.get("handles"):
            th = _task_handles({"n": case["n"], "k": case["k"], "work": os.path.join(os.path.dirname(os.path.dirname(os.path.dirname(os.path.abspath(__file__)))), ".work")})
            return next((v for v in th.violations if all(v["case"].get(x) == case.get(x) for x in ("opener", "cut", "r"))), None)
        if case.get("big"):
            tb = _task_big({"tail": case["big"]})
            return tb.violations[0] if tb.violations else None
        if case.get("source") == "real-socketpair":
            _real_socketpair_smoke(t)
        else:
            _sized(t, case["entry"], case["source"], data, case.get("r"), case["k"], {}, progress=case.get("show_progress", False))
    return t.violations[0] if t.violations else None


def repro_py(case):
    return f"""# stand-alone reproduction (public API only)
import io
from space_packet_parser.packets import ccsds_generator
data = bytes.fromhex({case.get('data', '')!r})
src = data if {case.get('source')!r} == 'bytes' else io.BytesIO(data)
g = ccsds_generator(src, buffer_read_size_bytes={case.get('r')!r}, skip_header_bytes={case.get('k', 0)!r})
for i, p in enumerate(g):
    assert len(p) == 7 + int.from_bytes(p[4:6], 'big'), p
    assert i < len(data), 'does not terminate'
"""
