"""C04 — Integer and float fields decode correctly at every size, offset and byte order.

E-prod through load + parse: documents hold one parameter type per configuration, selected by
APID; each configuration appears behind 0..7 pad bits and before a sentinel byte, so the cursor
advance is observed publicly.  Oracle: reference arithmetic (string slicing, Fractions).
"""
from __future__ import annotations

from mc import docs, framing
from mc.kernel import Tally, case_alarm, chunked, fan_out
from mc.observe import compare_outcome, parse_one
from mc.ref.interp import decode_packet
from mc.spec import FloatEnc, IntEnc, PType, load_doc

PROP = "C04"
LEVEL = "exploration"


def int_configs(tier):
    widths = list(range(1, 73)) + [80, 96, 100, 127, 128, 129, 200, 256, 4096, 14296, 16384, 65536 - 128]
    out = []
    for w in widths:
        for enc in ("unsigned", "signed", "twosComplement"):
            out.append(("int", w, enc, False))
            if w % 8 == 0:
                out.append(("int", w, enc, True))
    # the same encodings inside a time parameter type with scale and offset (the declared byte order is the encoding's, whatever the type)
    for w in (16, 32):
        for enc in ("unsigned", "twosComplement"):
            for lsb in (False, True):
                out.append(("int", w, enc + "+time", lsb))
    # integer fields whose encoding lists context calibrators none of which ever applies (and no default): the values stay the integers
    for w in (1, 8, 33, 53, 54, 64, 72, 256):
        for enc in ("unsigned", "twosComplement"):
            out.append(("int", w, enc + "+ctx-never", False))
    return out


def float_configs():
    out = []
    for w in (16, 32, 64):
        for enc in ("IEEE754", "IEEE754_1985"):
            for lsb in (False, True):
                if enc == "IEEE754_1985" and w != 32:
                    continue
                out.append(("float", w, enc, lsb))
    out += [("float", 32, "MILSTD_1750A", False), ("float", 32, "MILSTD_1750A", True)]
    out += [("float", 32, "IEEE754+time", False), ("float", 32, "IEEE754+time", True), ("float", 64, "IEEE754+time", True), ("float", 32, "MILSTD_1750A+time", True)]
    # spellings the library accepts with a deprecation warning: the same formats under another name
    out += [("float", 32, "MIL-1750A", False), ("float", 32, "MIL-1750A", True), ("float", 32, "IEEE-754", False), ("float", 64, "IEEE-754", True),
            ("float", 16, "IEEE-754", False)]
    return out


def ptype_for(cfg, i):
    fam, w, enc, lsb = cfg
    if fam == "int":
        if enc.endswith("+time"):
            return PType(f"T{i}", "AbsoluteTime" if w == 32 else "RelativeTime", IntEnc(w, enc[:-5], lsb), unit="s", scale=0.5, offset=-3.0)
        if enc.endswith("+ctx-never"):
            from mc.spec import Cmp, CtxCal, Poly
            return PType(f"T{i}", "Integer", IntEnc(w, enc[:-10], lsb, ctx_cals=(CtxCal((Cmp("VERSION", "==", "5"),), Poly(((1.0, 0), (2.0, 1)))),
                                                                                  CtxCal((Cmp("PKT_APID", ">", "3000"),), Poly(((0.5, 1),))))))
        return PType(f"T{i}", "Integer", IntEnc(w, enc, lsb))
    if enc.endswith("+time"):
        return PType(f"T{i}", "AbsoluteTime", FloatEnc(w, enc[:-5], lsb), unit="s", scale=0.25, offset=2.0)
    return PType(f"T{i}", "Float", FloatEnc(w, enc, lsb))


def int_patterns(w, full_upto):
    if w <= full_upto:
        return range(1 << w)
    if w > 300:
        # very wide fields (up to 8 kB): values far beyond anything that is ever converted to text (more than 4300 decimal digits)
        ones = (1 << w) - 1
        return sorted({0, 1, ones, 1 << (w - 1), ones ^ 1, (1 << (w - 1)) - 1, int(("10" * w)[:w], 2), int(("0110" * w)[:w], 2), 1 << (w // 2), ones >> 3})
    ones = (1 << w) - 1
    s = {0, 1, ones, 1 << (w - 1), (1 << (w - 1)) + 1, (1 << (w - 1)) - 1, ones - 1}
    for b in range(w):
        s.add(1 << b)
        s.add(ones ^ (1 << b))
    s.add(int(("10" * w)[:w], 2))
    s.add(int(("01" * w)[:w], 2))
    idx = 0
    for k in range((w + 7) // 8):
        idx = (idx << 8) | ((k + 1) & 0xFF)
    s.add(idx & ones)
    s.add((idx << (8 - w % 8) % 8) & ones)
    return sorted(s)


def float_patterns(cfg, tier):
    fam, w, enc, lsb = cfg
    if enc in ("MILSTD_1750A", "MIL-1750A"):
        mants = sorted(set([0, 1, 2, 0x7FFFFF, 0x800000, 0x800001, 0xFFFFFF, 0xFFFFFE, 0x400000, 0xC00000, 0x400001,
                            0xBFFFFF, 0x200000, 0x600000, 0xA00000, 0xE00000, 0x123456, 0xEDCBA9, 0x000100, 0x010000]
                           + [1 << b for b in range(24)] + [0xFFFFFF ^ (1 << b) for b in range(0, 24, 2)]))
        pats = [(m << 8) | e for e in range(256) for m in mants]
        return pats
    if w == 16:
        return range(1 << 16)
    ebits, mbits = {32: (8, 23), 64: (11, 52)}[w]
    s = set()
    mants = [0, 1, (1 << mbits) - 1, 1 << (mbits - 1), (1 << (mbits - 1)) + 1, 0x2AAAAAAAAAAAA & ((1 << mbits) - 1)]
    for e in range(1 << ebits):
        for m in mants[:3] if tier == "quick" and w == 64 else mants:
            for sign in (0, 1):
                s.add((sign << (w - 1)) | (e << mbits) | m)
    for b in range(w):
        s.add(1 << b)
        s.add(((1 << w) - 1) ^ (1 << b))
    import struct
    for v in (1.0, -2.5, 0.1, 3.141592653589793, 1e-40, 6.0e-8):
        s.add(int.from_bytes(struct.pack(">f" if w == 32 else ">d", v), "big"))
    return sorted(s)


def byte_swap(v, w):
    return int.from_bytes(v.to_bytes(w // 8, "big"), "little")


def _task(task):
    t = Tally()
    cfgs, offset, tier = task["cfgs"], task["offset"], task["tier"]
    variants, metas = [], []
    for i, cfg in enumerate(cfgs):
        pt = ptype_for(cfg, i)
        pts, prs, ents, tail = docs.framed_field_variant(pt, offset, cfg[1], str(i))
        variants.append((pts, prs, ents))
        metas.append(tail)
    doc = docs.selector_doc(variants)
    try:
        import warnings
        with case_alarm(60), warnings.catch_warnings():
            warnings.simplefilter("ignore")   # the deprecated spellings are announced with a UserWarning at load time
            defn = load_doc(doc)
    except BaseException as e:  # noqa: BLE001
        t.violation({"kind": "load-failed", "exc": type(e).__name__}, {"cfgs": cfgs, "offset": offset}, observed=str(e)[:300])
        return t
    full_upto = 12 if tier == "quick" else 16
    # a deep copy of a definition is a definition: every other configuration is decoded through one
    import copy
    try:
        defn_copy = copy.deepcopy(defn)
    except Exception as e:  # noqa: BLE001
        t.violation({"kind": "definition-not-copyable", "exc": type(e).__name__}, {"cfgs": cfgs, "offset": offset}, observed=str(e)[:300])
        defn_copy = defn
    defn_orig = defn
    for i, cfg in enumerate(cfgs):
        defn = defn_copy if (i + offset) % 2 else defn_orig
        fam, w, enc, lsb = cfg
        tail = metas[i]
        pats = int_patterns(w, full_upto) if fam == "int" else float_patterns(cfg, tier)
        npat = 0
        try:
            with case_alarm(900):
                for v in pats:
                    # the pattern is the *value layout*; for little-endian fields the wire bytes are swapped
                    wire = byte_swap(v, w) if (lsb and fam == "float") else v
                    fb = format(wire, f"0{w}b")
                    for fill in ("0", "1"):
                        bits = fill * offset + fb + fill * 8 + fill * tail
                        pkt = docs.packet_for(i, bits)
                        want = decode_packet(doc, pkt)
                        obs = parse_one(defn, pkt)
                        t.evals += 1
                        why = compare_outcome(want, obs)
                        if why is None and want.kind == "parsed" and want.consumed != 8 * len(pkt):
                            why = "harness: packet not exactly consumed"
                        if why:
                            t.violation({"kind": "decode-mismatch", "family": fam, "enc": enc, "lsb_first": lsb,
                                         "aligned": offset == 0},
                                        {"cfg": list(cfg), "offset": offset, "packet": pkt.hex(), "field_bits": fb, "through_deepcopy": defn is defn_copy and defn_copy is not defn_orig},
                                        expected=[(x.name, x.value, x.raw) for x in want.items[7:]],
                                        observed=obs[1][7:] if obs[0] == "parsed" else obs[:3], note=why)
                        if npat < 2 and why is None:
                            # the same raw packet object (as the framer yields it) decoded twice: the second decode starts at bit 0 again
                            from space_packet_parser.packets import ccsds_generator
                            raw_obj = next(ccsds_generator(pkt))
                            for attempt in (1, 2):
                                why2 = compare_outcome(want, parse_one(defn, raw_obj))
                                t.evals += 1
                                if why2:
                                    t.violation({"kind": "decode-mismatch", "family": fam, "history": f"raw packet object decoded {attempt}x"},
                                                {"cfg": list(cfg), "offset": offset, "packet": pkt.hex(), "field_bits": fb, "reparse": attempt},
                                                note=why2)
                                    break
                    npat += 1
        except BaseException as e:  # noqa: BLE001
            t.violation({"kind": "sweep-aborted", "exc": type(e).__name__}, {"cfg": list(cfg), "offset": offset}, observed=str(e)[:200])
        # a definition is what its public attributes say: after the type's encoding is REPLACED on the loaded definition (it has decoded
        # packets by now), fields decode as the new declaration says (other sign convention / byte order, same width)
        if fam == "int" or enc in ("IEEE754", "MILSTD_1750A"):
            try:
                import dataclasses
                from space_packet_parser.xtce import encodings as _enc
                if fam == "int":
                    new_cfg = (fam, w, "unsigned" if enc != "unsigned" else "twosComplement", (not lsb) if w % 8 == 0 else lsb)
                    new_lib = _enc.IntegerDataEncoding(w, new_cfg[2], byte_order="leastSignificantByteFirst" if new_cfg[3] else "mostSignificantByteFirst")
                else:
                    new_cfg = (fam, w, enc, not lsb)
                    new_lib = _enc.FloatDataEncoding(w, encoding=enc, byte_order="leastSignificantByteFirst" if new_cfg[3] else "mostSignificantByteFirst")
                new_pt = ptype_for(new_cfg, i)
                doc2 = dataclasses.replace(doc, ptypes=tuple(new_pt if p.name == new_pt.name else p for p in doc.ptypes))
                d_edit = defn_orig if (i + offset) % 2 == 0 else defn_copy
                old_lib = d_edit.parameter_types[new_pt.name].encoding
                d_edit.parameter_types[new_pt.name].encoding = new_lib
                try:
                    for v in (1, (1 << w) - 2, int(("1100" * w)[:w], 2), 1 << (w - 1)):
                        bits = "1" * offset + format(v, f"0{w}b") + "1" * 8 + "1" * tail
                        pkt = docs.packet_for(i, bits)
                        why = compare_outcome(decode_packet(doc2, pkt), parse_one(d_edit, pkt))
                        t.evals += 1
                        if why:
                            t.violation({"kind": "decode-mismatch", "family": fam, "after": "encoding replaced on the loaded definition"},
                                        {"cfg": list(cfg), "new_cfg": list(new_cfg), "offset": offset, "packet": pkt.hex(), "encoding_replaced": True}, note=why)
                            break
                finally:
                    d_edit.parameter_types[new_pt.name].encoding = old_lib
            except BaseException as e:  # noqa: BLE001
                t.violation({"kind": "sweep-aborted", "exc": type(e).__name__, "part": "encoding-replaced"}, {"cfg": list(cfg), "offset": offset}, observed=str(e)[:200])
        t.nontrivial += npat
        t.outcomes[f"{fam}:{enc}:{'lsb' if lsb else 'msb'}"] += npat
        t.programs += 1
        if i == 0 and offset == 3:
            t.sample({"cfg": list(cfg), "offset_bits": offset, "patterns": npat, "neighbour_fills": ["0", "1"]})
    return t


EDIT_PAIRS = [(("int", 32, "unsigned", True), ("int", 16, "unsigned", True)), (("int", 16, "unsigned", True), ("int", 32, "unsigned", True)),
              (("int", 8, "twosComplement", False), ("int", 24, "twosComplement", True)), (("int", 64, "signed", True), ("int", 32, "unsigned", False)),
              (("int", 24, "unsigned", True), ("int", 16, "twosComplement", True)), (("int", 12, "unsigned", False), ("int", 20, "twosComplement", False)),
              (("int", 16, "unsigned", False), ("int", 16, "unsigned", True)), (("int", 40, "twosComplement", True), ("int", 8, "unsigned", True))]


def _task_edits(task):
    """An integer encoding of a loaded (and used) definition corrected through its public attributes - width, sign convention, byte order, one
    at a time in every order: the next packets decode as the attributes say then (the new width is the old one plus or minus whole bytes, so
    the rest of the layout still fits)."""
    import dataclasses
    import itertools
    import warnings
    t = Tally()
    offset = task["offset"]
    for (old, new) in EDIT_PAIRS:
        for order in itertools.permutations(("size_in_bits", "encoding", "byte_order")):
            for use_first in (True, False):
                case = {"attr_edits": True, "old": list(old), "new": list(new), "order": list(order), "offset": offset, "decoded_before_edit": use_first}
                try:
                    with case_alarm(60), warnings.catch_warnings():
                        warnings.simplefilter("ignore")
                        pts, prs, ents, tail = docs.framed_field_variant(ptype_for(old, 0), offset, old[1], "0")
                        doc = docs.selector_doc([(pts, prs, ents)])
                        doc2 = dataclasses.replace(doc, ptypes=tuple(ptype_for(new, 0) if p.name == "T0" else p for p in doc.ptypes))
                        defn = load_doc(doc)
                        if use_first:
                            parse_one(defn, docs.packet_for(0, "1" * offset + "01" * (old[1] // 2) + "0" * 8 + "1" * tail))
                        enc = defn.parameter_types["T0"].encoding
                        for a in order:
                            setattr(enc, a, {"size_in_bits": new[1], "encoding": new[2],
                                             "byte_order": "leastSignificantByteFirst" if new[3] else "mostSignificantByteFirst"}[a])
                        w = new[1]
                        for v in (1, (1 << w) - 2, int(("1100" * w)[:w], 2), 1 << (w - 1), int(("0000000100100011" * w)[:w], 2)):
                            pkt = docs.packet_for(0, "1" * offset + format(v, f"0{w}b") + "1" * 8 + "1" * tail)
                            why = compare_outcome(decode_packet(doc2, pkt), parse_one(defn, pkt))
                            t.evals += 1
                            if why:
                                t.violation({"kind": "decode-mismatch", "family": "int", "after": "encoding attributes edited on the loaded definition",
                                             "lsb_first": new[3]}, {**case, "packet": pkt.hex()}, note=why)
                                break
                except BaseException as e:  # noqa: BLE001
                    t.violation({"kind": "sweep-aborted", "exc": type(e).__name__, "part": "attribute-edits"}, case, observed=str(e)[:200])
                t.nontrivial += 1
    # the same corrections made to the container instead: the parameter object in its entry list is replaced IN PLACE (item assignment on the
    # list the definition holds) by a parameter of the second kind, and one more byte-wide parameter is appended - after the first packet
    for (old, new) in EDIT_PAIRS:
        for use_first in (True, False):
            case = {"attr_edits": True, "old": list(old), "new": list(new), "order": ["entry_list item replaced, one appended"], "offset": offset, "decoded_before_edit": use_first}
            try:
                with case_alarm(60), warnings.catch_warnings():
                    warnings.simplefilter("ignore")
                    pts, prs, ents, tail = docs.framed_field_variant(ptype_for(old, 0), offset, old[1], "0")
                    doc = docs.selector_doc([(pts, prs, ents)])
                    from mc.spec import Param, PType
                    doc2 = dataclasses.replace(doc, ptypes=tuple(ptype_for(new, 0) if p.name == "T0" else p for p in doc.ptypes) + (PType("EXTRA_T", "Integer", IntEnc(8)),),
                                               params=tuple(doc.params) + (Param("EXTRA", "EXTRA_T"),),
                                               containers=tuple(dataclasses.replace(c, entries=tuple(c.entries) + (("p", "EXTRA"),)) if any(e == ("p", "F_0") for e in c.entries) else c
                                                                for c in doc.containers))
                    defn = load_doc(doc)
                    donor = load_doc(doc2)
                    if use_first:
                        parse_one(defn, docs.packet_for(0, "1" * offset + "01" * (old[1] // 2) + "0" * 8 + "1" * tail))
                    cname = next(c.name for c in doc.containers if any(e == ("p", "F_0") for e in c.entries))
                    el = defn.containers[cname].entry_list
                    idx = next(k for k, e in enumerate(el) if getattr(e, "name", None) == "F_0")
                    el[idx] = donor.containers[cname].entry_list[idx]
                    el.append(donor.containers[cname].entry_list[-1])
                    w = new[1]
                    for v in (1, (1 << w) - 2, int(("1100" * w)[:w], 2), 1 << (w - 1)):
                        pkt = docs.packet_for(0, "1" * offset + format(v, f"0{w}b") + "1" * 8 + "1" * tail + "01011010")
                        why = compare_outcome(decode_packet(doc2, pkt), parse_one(defn, pkt))
                        t.evals += 1
                        if why:
                            t.violation({"kind": "decode-mismatch", "family": "int", "after": "entry list edited in place on the loaded definition"},
                                        {**case, "packet": pkt.hex()}, note=why)
                            break
            except BaseException as e:  # noqa: BLE001
                t.violation({"kind": "sweep-aborted", "exc": type(e).__name__, "part": "entry-list-edits"}, case, observed=str(e)[:200])
            t.nontrivial += 1
    return t

def _check_separate_objects(t: Tally):
    """Two encodings built with the public constructors, nothing but the required arguments: they are two objects.  A context calibrator
    attached to the first in place (its list extended, or created where there is none) does not reach the second - an integer decoded through
    the second stays the integer."""
    from space_packet_parser.packets import CCSDSPacket
    from space_packet_parser.xtce import calibrators, comparisons, encodings
    makers = {"Integer": lambda: encodings.IntegerDataEncoding(8, "unsigned"), "Float": lambda: encodings.FloatDataEncoding(32),
              "Integer(kw)": lambda: encodings.IntegerDataEncoding(size_in_bits=16, encoding="twosComplement", byte_order="leastSignificantByteFirst")}
    for name, mk in makers.items():
        t.evals += 1
        try:
            first, second = mk(), mk()
            cc = calibrators.ContextCalibrator([comparisons.Comparison("0", "P", operator=">=")],
                                               calibrators.PolynomialCalibrator([calibrators.PolynomialCoefficient(100.0, 0), calibrators.PolynomialCoefficient(1.0, 1)]))
            if first.context_calibrators is None:
                first.context_calibrators = []
            first.context_calibrators.append(cc)
            third = mk()
            import struct
            data = struct.pack(">f", 2.5) if name == "Float" else bytes([3, 0])
            got = []
            for enc in (second, third):
                pkt = CCSDSPacket(raw_data=data, P=__import__("space_packet_parser").common.IntParameter(1))
                v = enc.parse_value(pkt)
                got.append((type(v).__name__, float(v)))
            want = [("FloatParameter", 2.5)] * 2 if name == "Float" else [("IntParameter", 3.0)] * 2
            if got != want or second.context_calibrators or third.context_calibrators:
                t.violation({"kind": "encodings-share-state", "class": name}, {"separate_objects": True, "class": name}, expected=want, observed=got,
                            note="a context calibrator attached to one encoding object shows up in another encoding object built separately")
        except Exception as e:  # noqa: BLE001
            t.violation({"kind": "encodings-share-state", "class": name, "exc": type(e).__name__}, {"separate_objects": True, "class": name}, observed=repr(e)[:200])
        t.nontrivial += 1
    # two parameters whose type objects are distinct and merely share a NAME (two subsystems each bringing their own "U16"): each parameter is
    # decoded as its own type object says
    from space_packet_parser.xtce import containers, definitions, parameter_types, parameters
    for label, ea, eb, data, want in (
            ("byte order", encodings.IntegerDataEncoding(16, "unsigned"), encodings.IntegerDataEncoding(16, "unsigned", byte_order="leastSignificantByteFirst"),
             bytes([0x12, 0x34, 0x12, 0x34]), [0x1234, 0x3412]),
            ("sign and width", encodings.IntegerDataEncoding(8, "unsigned"), encodings.IntegerDataEncoding(16, "twosComplement"), bytes([0xFF, 0xFF, 0xFE]), [255, -2]),
            ("float byte order", encodings.FloatDataEncoding(32), encodings.FloatDataEncoding(32, byte_order="leastSignificantByteFirst"),
             bytes.fromhex("3fc00000" "0000c03f"), [1.5, 1.5])):
        t.evals += 1
        try:
            cls = parameter_types.FloatParameterType if label.startswith("float") else parameter_types.IntegerParameterType
            pa = parameters.Parameter("A", cls("SHARED_NAME", ea))
            pb = parameters.Parameter("B", cls("SHARED_NAME", eb))
            defn = definitions.XtcePacketDefinition([containers.SequenceContainer("CCSDSPacket", [pa, pb])])
            out = defn.parse_ccsds_packet(CCSDSPacket(raw_data=data))
            got = [out["A"], out["B"]]
            if [float(x) for x in got] != [float(x) for x in want] or out.raw_data.pos != 8 * len(data):
                t.violation({"kind": "same-named-types-merged", "what": label}, {"separate_objects": True, "class": "same-named types: " + label}, expected=want,
                            observed=[repr(x) for x in got], note="two distinct type objects that share a name: a parameter was decoded with the other parameter's type")
        except Exception as e:  # noqa: BLE001
            t.violation({"kind": "same-named-types-merged", "what": label, "exc": type(e).__name__}, {"separate_objects": True, "class": "same-named types: " + label}, observed=repr(e)[:200])
        t.nontrivial += 1


def cold_probe():
    """Subprocess entry (fresh interpreter).  For every configuration the FIRST packet ever decoded with it in this process is one whose field
    is cut short (the decode may fail or be flagged: not judged); the packets after it are complete and must decode exactly.  Whatever the
    library memoises per field shape must not be poisoned by a failed decode."""
    import json
    import warnings
    warnings.simplefilter("ignore")
    cfgs = [c for c in int_configs("quick") if c[1] <= 256] + float_configs()
    bad, n_ok = [], 0
    for offset in (0, 3, 5):
        for ch in chunked(cfgs, 12):
            variants, metas = [], []
            for i, cfg in enumerate(ch):
                pts, prs, ents, tail = docs.framed_field_variant(ptype_for(cfg, i), offset, cfg[1], str(i))
                variants.append((pts, prs, ents))
                metas.append(tail)
            doc = docs.selector_doc(variants)
            defn = load_doc(doc)
            for i, cfg in enumerate(ch):
                fam, w, enc, lsb = cfg
                pats = [0, (1 << w) - 1, int(("10" * w)[:w], 2), int(("0110" * w)[:w], 2)]
                first = True
                for v in pats:
                    bits = "1" * offset + format(v, f"0{w}b") + "1" * 8 + "1" * metas[i]
                    pkt = docs.packet_for(i, bits)
                    if first:
                        first = False
                        cut = framing.mk_packet(pkt[6:-2] if len(pkt) > 8 else pkt[6:7], apid=i)   # the field runs past the end
                        try:
                            parse_one(defn, cut)
                        except BaseException:  # noqa: BLE001
                            pass
                    why = compare_outcome(decode_packet(doc, pkt), parse_one(defn, pkt))
                    if why:
                        bad.append({"cfg": list(cfg), "offset": offset, "packet": pkt.hex(), "why": why[:200]})
                    else:
                        n_ok += 1
    print(json.dumps({"ok": n_ok, "n_bad": len(bad), "bad": bad[:40]}))


def _cold_start(t: Tally):
    import json
    import os
    import subprocess
    import sys
    from mc import VERIF_ROOT
    p = subprocess.run([sys.executable, "-c", "from mc.checks.c04 import cold_probe; cold_probe()"], cwd=VERIF_ROOT,
                       env=dict(os.environ, PYTHONDONTWRITEBYTECODE="1"), capture_output=True, text=True, timeout=1200)
    if p.returncode != 0:
        t.violation({"kind": "cold-start-probe-failed"}, {"cold_start": True}, observed=p.stderr[-400:])
        return
    res = json.loads(p.stdout.strip().splitlines()[-1])
    t.evals += res["ok"] + res["n_bad"]
    t.outcomes["cold-start"] += res["ok"]
    for b in res["bad"][:10]:
        t.violation({"kind": "decode-after-failed-decode", "family": b["cfg"][0], "enc": b["cfg"][2]}, {"cold_start": True, **b},
                    note="in a fresh interpreter, a complete packet decoded after a truncated one of the same configuration is wrong: " + b["why"])


def run(ctx):
    icfgs = int_configs(ctx.tier)
    fcfgs = float_configs()
    offsets = list(range(8))
    tasks = []
    for off in offsets:
        for ch in chunked(icfgs, 12):
            tasks.append({"cfgs": ch, "offset": off, "tier": ctx.tier})
    f_offsets = [0, 3] if ctx.quick else offsets
    for off in offsets:
        for cfg in fcfgs:
            heavy = cfg[1] == 16 or cfg[2] in ("MILSTD_1750A", "MIL-1750A")
            if heavy and off not in f_offsets:
                continue
            tasks.append({"cfgs": [cfg], "offset": off, "tier": ctx.tier})
    tasks.sort(key=lambda t: -(t["cfgs"][0][0] == "float") * 10 - len(t["cfgs"]))
    tally = fan_out(_task, tasks, jobs=ctx.jobs, seed=ctx.seed)
    tally.merge(fan_out(_task_edits, [{"offset": off} for off in (0, 3)], jobs=ctx.jobs, seed=ctx.seed))
    _check_separate_objects(tally)
    _cold_start(tally)
    coverage = {
        "programs": tally.programs,
        "exhaustive": True,
        "bound": ("integers: widths 1..72, 80, 96, 100, 127, 128, 129, 200, 256, 4096, 14296, 16384, 65408 x {unsigned, signed, twosComplement} x {MSB first, LSB first for whole-byte widths} (+ widths 1, 8, 33, 53, 54, 64, 72, 256 with context calibrators that never apply and no default; + 8 pairs of integer encodings where the first is turned into the second by editing width, sign convention and byte order on the loaded definition, in every order, before and after first use) x "
                  f"bit offsets 0..7 x (ALL 2^w patterns for w <= {12 if ctx.quick else 16}, else boundary/walking/alternating/index family) x "
                  "neighbour fill {0,1}; floats: binary16 ALL 65536 patterns, binary32/64 every exponent x mantissa family + walking bits + "
                  "specials, MIL-STD-1750A all 256 exponents x ~60 mantissas, both byte orders, also under the deprecated spellings 'MIL-1750A' / 'IEEE-754', "
                  f"offsets {'0,3 for the full sweeps, 0..7 for binary32/64' if ctx.quick else '0..7'}; "
                  "per configuration and offset, the first two patterns are also decoded twice from one raw packet object of the framer; every other configuration is decoded through copy.deepcopy of the loaded definition; "
                  "in a fresh interpreter, every configuration at offsets 0, 3, 5: a truncated packet first, then complete packets; "
                  "after its sweep, every type's encoding object is replaced on the (used) definition by one with the other sign convention / byte order and decoded again"),
        "rule": ("one evaluation = one packet parsed by the loaded definition and by the reference interpreter; distinct non-trivial = "
                 "distinct (configuration, offset, field bit pattern) triples"),
    }
    return {"level": LEVEL, "tally": tally, "coverage": coverage,
            "assumptions": ["little-endian integers only at whole-byte widths (outside: unspecified)",
                            "CPython struct/float are not used by the oracle; Fraction arithmetic is"]}


def replay(case):
    if case.get("cold_start"):
        t = Tally()
        _cold_start(t)
        return next((v for v in t.violations if v["case"].get("packet") == case.get("packet")), None)
    if case.get("separate_objects"):
        t = Tally()
        _check_separate_objects(t)
        return next((v for v in t.violations if v["case"].get("class") == case.get("class")), None)
    if case.get("attr_edits"):
        t = _task_edits({"offset": case["offset"]})
        return next((v for v in t.violations if all(v["case"].get(k) == case.get(k) for k in ("old", "new", "order", "decoded_before_edit"))), None)
    cfg = tuple(case["cfg"])
    offset = case["offset"]
    pt = ptype_for(cfg, 0)
    pts, prs, ents, tail = docs.framed_field_variant(pt, offset, cfg[1], "0")
    doc = docs.selector_doc([(pts, prs, ents)])
    defn = load_doc(doc)
    pkt = bytearray(bytes.fromhex(case["packet"]))
    # the replay document has a single variant selected by APID 0
    pkt[0] &= 0xF8
    pkt[1] = 0
    pkt = bytes(pkt)
    if case.get("reparse"):
        from space_packet_parser.packets import ccsds_generator
        raw_obj = next(ccsds_generator(pkt))
        for attempt in (1, 2):
            why = compare_outcome(decode_packet(doc, pkt), parse_one(defn, raw_obj))
            if why:
                return {"sig": {"kind": "decode-mismatch", "family": cfg[0], "history": f"raw packet object decoded {attempt}x"}, "case": case, "note": why}
        return None
    if case.get("through_deepcopy"):
        import copy
        defn = copy.deepcopy(defn)
    why = compare_outcome(decode_packet(doc, pkt), parse_one(defn, pkt))
    if why:
        return {"sig": {"kind": "decode-mismatch", "family": cfg[0], "enc": cfg[2], "lsb_first": cfg[3], "aligned": offset == 0},
                "case": case, "note": why}
    return None


def repro_py(case):
    from mc.spec import render_xml
    cfg = tuple(case["cfg"])
    pt = ptype_for(cfg, 0)
    pts, prs, ents, tail = docs.framed_field_variant(pt, case["offset"], cfg[1], "0")
    doc = docs.selector_doc([(pts, prs, ents)])
    return ("import io, space_packet_parser\nfrom space_packet_parser.xtce.definitions import XtcePacketDefinition\n"
            f"xml = {render_xml(doc)!r}\npkt = bytearray(bytes.fromhex({case['packet']!r})); pkt[0] &= 0xF8; pkt[1] = 0\n"
            "d = XtcePacketDefinition.from_xtce(io.BytesIO(xml))\nprint(list(d.packet_generator(bytes(pkt))))\n")
