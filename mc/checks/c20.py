"""C20 — Parsed values are drop-in built-ins with a raw value and survive copying.

E-prod: values of the five value classes x raw values (including every falsy one and "omitted")
x operations (comparison, hashing, truth, str/repr/format, arithmetic, bit ops, slicing,
containment, dict keys, sorting) x copies (copy, deepcopy, pickle protocols 0..5); parsed packets
(cursor mid-way and at the end, cached header properties populated or not) through the same copies.
Oracle: the same operation on the plain built-in value.
"""
from __future__ import annotations

import copy
import math
import operator
import pickle

from mc.kernel import Tally, case_alarm
from mc.observe import items_of

PROP = "C20"
LEVEL = "exploration"

INTS = [0, 1, -1, 7, 2 ** 63, -2 ** 64 + 1]
FLOATS = [0.0, -0.0, 1.5, -2.25, math.inf, -math.inf, math.nan, 5e-324, 1.7976931348623157e308]
STRS = ["", "a", "é", "a\x00", "😀", "abc"]
BYTES = [b"", b"\x00", b"a\xff", b"abc"]
BOOLS = [False, True]
RAWS = ["<omitted>", 0, 0.0, -0.0, False, "", b"", 7, "r", -1, b"\x00", math.nan]
FORMATS = {"int": ["", "d", "05d", "x", ">8", "+,"], "float": ["", ".3f", "e", "08.2f", "g", "+.1%"], "str": ["", ">6", "<4", "^5", ".1"],
           "bytes": [""], "bool": ["", "d", ">6", "x"]}


def _np():
    import numpy as np
    return np


def _consumers():
    import base64
    import decimal
    import fractions
    import hashlib
    import io
    import json
    import re
    import struct
    import zlib
    np = _np()
    small = lambda x: -2 ** 62 < x < 2 ** 62  # noqa: E731
    c = {}
    c["int"] = [
        ("json.dumps", json.dumps), ("json.dumps-in-list", lambda x: json.dumps({"k": [x, x]})), ("math.floor", math.floor), ("math.trunc", math.trunc),
        ("math.isqrt", lambda x: math.isqrt(x)), ("math.gcd", lambda x: math.gcd(x, 12)), ("divmod", lambda x: divmod(x, 3)), ("rdivmod", lambda x: divmod(1000, x)),
        ("round:-1", lambda x: round(x, -1)), ("Fraction", lambda x: fractions.Fraction(x)), ("Fraction-pair", lambda x: fractions.Fraction(x, 7)),
        ("Decimal", lambda x: str(decimal.Decimal(x))), ("complex", complex), ("range", lambda x: len(range(x)) if abs(x) < 10 ** 6 else "n/a"),
        ("percent-format", lambda x: "%d|%5.2f|%s|%x|%r" % (x, x, x, abs(x), x) if small(x) else "%d|%s" % (x, x)),
        ("str.format", lambda x: "{0}|{0:d}|{0!r}|{0:08b}".format(x)), ("struct.pack", lambda x: struct.pack(">q", x)), ("bit_count", lambda x: x.bit_count()),
        ("as_integer_ratio", lambda x: x.as_integer_ratio()), ("real-imag", lambda x: (x.real, x.imag, x.numerator, x.denominator, x.conjugate())),
        ("np.asarray", lambda x: (np.asarray([x, 1]).dtype.str, np.asarray([x, 1]).tolist()) if small(x) else "n/a"), ("np.int64", lambda x: int(np.int64(x))),
        ("np.add", lambda x: (type(np.add(x, 1)).__name__, int(np.add(x, 1))) if small(x) else "n/a"), ("sum", lambda x: sum([x, x, 1])),
        ("max-min", lambda x: (max(x, 3), min(x, 3))), ("chr", lambda x: chr(x)), ("bytes-of", lambda x: bytes([x])), ("list-mul", lambda x: [0] * x if 0 <= x < 100 else "n/a"),
        ("slice", lambda x: list(range(10))[x:] if abs(x) < 100 else "n/a"), ("str.zfill", lambda x: "7".zfill(x) if 0 <= x < 100 else "n/a"),
        ("int.to_bytes-little", lambda x: x.to_bytes(20, "little", signed=True)), ("float-pow", lambda x: 2.0 ** x if abs(x) < 1000 else "n/a"),
        ("hex-oct-bin", lambda x: (hex(x), oct(x), bin(x))), ("dict-cross-lookup", lambda x: ({int(x): "v"}.get(x), {x: "v"}.get(int(x)))),
        ("set-dedupe", lambda x: len({x, int(x), float(x) if small(x) else x})), ("isinstance-numbers", lambda x: _numbers(x)),
        ("Decimal-arith", lambda x: str(decimal.Decimal(3) + x)), ("math.fsum", lambda x: math.fsum([x, 0.5]) if small(x) else "n/a"),
        ("pow-mod", lambda x: pow(3, abs(x) % 50, 7)), ("bool-context", lambda x: "t" if x else "f"), ("str.join-of-str", lambda x: ",".join(map(str, [x, x]))),
    ]
    c["float"] = [
        ("json.dumps", json.dumps), ("math.floor", math.floor), ("math.ceil", math.ceil), ("math.isnan-isinf", lambda x: (math.isnan(x), math.isinf(x), math.isfinite(x))),
        ("math.frexp", math.frexp), ("math.modf", math.modf), ("math.copysign", lambda x: math.copysign(1.0, x)), ("Fraction", lambda x: fractions.Fraction(x)),
        ("Decimal", lambda x: str(decimal.Decimal(x))), ("complex", lambda x: repr(complex(x))), ("percent-format", lambda x: "%f|%e|%g|%s|%r|%.3f" % (x, x, x, x, x, x)),
        ("str.format", lambda x: "{0}|{0:.2e}|{0!r}|{0:10.4f}".format(x)), ("struct.pack", lambda x: struct.pack(">d", x)), ("struct.pack-f", lambda x: struct.pack(">f", x)),
        ("hex", lambda x: x.hex()), ("is_integer", lambda x: x.is_integer()), ("as_integer_ratio", lambda x: x.as_integer_ratio()),
        ("np.asarray", lambda x: (np.asarray([x, 1.0]).dtype.str, repr(np.asarray([x, 1.0]).tolist()))), ("np.float64", lambda x: repr(float(np.float64(x)))),
        ("np.float32", lambda x: _quiet(lambda: repr(float(np.float32(x))))), ("np.add", lambda x: (type(np.add(x, 1.0)).__name__, repr(float(np.add(x, 1.0))))),
        ("sum", lambda x: sum([x, x, 1.0])), ("max-min", lambda x: (max(x, 3.0), min(x, 3.0))), ("divmod", lambda x: divmod(x, 2.5)), ("round:2", lambda x: round(x, 2)),
        ("math.sqrt", lambda x: math.sqrt(abs(x))), ("math.fsum", lambda x: math.fsum([x, 0.5])), ("dict-cross-lookup", lambda x: ({float(x): "v"}.get(x), {x: "v"}.get(float(x))) if not math.isnan(x) else "n/a"),
        ("isinstance-numbers", lambda x: _numbers(x)), ("real-imag", lambda x: (x.real, x.imag, x.conjugate())), ("int-of", lambda x: int(x)),
        ("bool-context", lambda x: "t" if x else "f"), ("sorted-with-key", lambda x: sorted([3.0, x, -1.0], key=abs) if not math.isnan(x) else "n/a"),
    ]
    c["str"] = [
        ("json.dumps", json.dumps), ("json.dumps-key", lambda x: json.dumps({x: x})), ("percent-format", lambda x: "%s|%r|%5s|%-3s" % (x, x, x, x)),
        ("str.format", lambda x: "{0}|{0!r}|{0:>4}".format(x)), ("join", lambda x: ",".join([x, x])), ("encode-utf16", lambda x: x.encode("utf-16-be")),
        ("encode-ascii", lambda x: x.encode("ascii")), ("center", lambda x: x.center(7, "*")), ("strip", lambda x: x.strip("a")), ("replace", lambda x: x.replace("a", "bb")),
        ("find-count", lambda x: (x.find("b"), x.count("a"), x.rfind("c"))), ("predicates", lambda x: (x.isdigit(), x.isalpha(), x.isidentifier(), x.isprintable(), x.isascii())),
        ("casefold", lambda x: x.casefold()), ("sorted", lambda x: sorted(x)), ("re.match", lambda x: bool(re.match(r"a.*", x))), ("re.sub", lambda x: re.sub("b", "-", x)),
        ("np.asarray", lambda x: np.asarray([x, "zz"]).tolist()), ("translate", lambda x: x.translate({97: "A"})), ("partition", lambda x: x.partition("b")),
        ("int-of", lambda x: int(x)), ("float-of", lambda x: float(x)), ("dict-cross-lookup", lambda x: ({str(x): "v"}.get(x), {x: "v"}.get(str(x)))),
        ("StringIO", lambda x: (io.StringIO(x).read(), io.StringIO().write(x))), ("title-swap", lambda x: (x.title(), x.swapcase(), x.capitalize())),
        ("zfill-expandtabs", lambda x: (x.zfill(5), x.expandtabs(2))), ("splitlines", lambda x: x.splitlines()), ("len-bool", lambda x: (len(x), bool(x))),
        ("mul-add", lambda x: (x * 3, x + "z", "z" + x)), ("in-dict", lambda x: x in {"a": 1, "": 2}), ("getattr-name", lambda x: getattr(_Holder, x, "none") if x.isidentifier() else "n/a"),
        ("bytes-of", lambda x: bytes(x, "utf-8")), ("ord", lambda x: ord(x)), ("eq-hash-with-plain", lambda x: (x == str(x), hash(x) == hash(str(x)))),
        ("fstring-repr", lambda x: f"{x!r:>8}|{x!s:<3}|{x!a}"), ("slice-step", lambda x: (x[:2], x[-1:], x[::2])), ("removeprefix", lambda x: (x.removeprefix("a"), x.removesuffix("c"))),
    ]
    c["bytes"] = [
        ("hex", lambda x: x.hex()), ("join", lambda x: b",".join([x, x])), ("bytearray", lambda x: bytearray(x)), ("memoryview", lambda x: memoryview(x).tobytes()),
        ("decode-utf8", lambda x: x.decode("utf-8")), ("int.from_bytes-little", lambda x: int.from_bytes(x, "little")), ("base64", lambda x: base64.b64encode(x)),
        ("crc32", lambda x: zlib.crc32(x)), ("sha1", lambda x: hashlib.sha1(x).hexdigest()), ("find-count", lambda x: (x.find(b"b"), x.count(b"a"))),
        ("replace-split", lambda x: (x.replace(b"a", b"zz"), x.split(b"b"))), ("strip-partition", lambda x: (x.strip(b"a"), x.partition(b"b"))),
        ("np.frombuffer", lambda x: np.frombuffer(x, dtype=np.uint8).tolist()), ("BytesIO", lambda x: io.BytesIO(x).read()), ("concat", lambda x: (x + b"z", b"z" + x)),
        ("percent-format", lambda x: b"%s|%b" % (x, x)), ("translate", lambda x: x.translate(None, b"a")), ("predicates", lambda x: (x.isalnum(), x.isascii(), x.isdigit())),
        ("fromhex-roundtrip", lambda x: bytes.fromhex(x.hex())), ("struct.unpack", lambda x: struct.unpack(">H", x)), ("dict-cross-lookup", lambda x: ({bytes(x): "v"}.get(x), {x: "v"}.get(bytes(x)))),
        ("len-bool", lambda x: (len(x), bool(x))), ("list-of", lambda x: list(x)), ("mul", lambda x: x * 2), ("eq-hash-with-plain", lambda x: (x == bytes(x), hash(x) == hash(bytes(x)))),
        ("zlib", lambda x: zlib.decompress(zlib.compress(x))), ("str-repr", lambda x: (repr(x), x.__str__() if False else repr(x))), ("slice-step", lambda x: (x[:2], x[-1:], x[::2])),
        ("bytes.maketrans", lambda x: bytes.maketrans(x[:1], b"z") if x else "n/a"), ("endswith", lambda x: x.endswith((b"c", b"\xff"))),
    ]
    c["bool"] = [
        ("bool:if", lambda x: "t" if x else "f"), ("bool:not", lambda x: not x), ("bool:and-or", lambda x: (bool(x and "y"), bool(x or 0), (x and "y") or "n")), ("bool:str.format", lambda x: "{0}|{0!s}|{0!r}".format(x)),
        ("bool:percent-s", lambda x: "%s|%r" % (x, x)), ("percent-d", lambda x: "%d" % x), ("list-index", lambda x: [10, 11][x]), ("sum", lambda x: sum([x, x])),
        ("int-of", int), ("float-of", float), ("mul-str", lambda x: "ab" * x), ("bool:filter", lambda x: len(list(filter(None, [x])))), ("bool:all-any", lambda x: (all([x]), any([x]))),
        ("np.where", lambda x: np.where(bool(x), 1, 0).tolist()),
    ]
    return c


def _quiet(fn):
    with _np().errstate(all="ignore"):
        return fn()


class _Holder:
    a = 1
    abc = 2


def _numbers(x):
    import numbers
    return (isinstance(x, numbers.Number), isinstance(x, numbers.Integral), isinstance(x, numbers.Real), isinstance(x, numbers.Rational))


CONSUMERS = _consumers()


def same(a, b):
    """Equal as built-in values: same built-in family (a subclass instance counts as its base), NaN- and sign-aware."""
    if isinstance(a, (tuple, list)) and isinstance(b, (tuple, list)):
        return type(a) is type(b) and len(a) == len(b) and all(same(x, y) for x, y in zip(a, b))
    if not (isinstance(a, type(b)) or isinstance(b, type(a))):
        return False
    if isinstance(a, float) and isinstance(b, float):
        if math.isnan(a) or math.isnan(b):
            return math.isnan(a) and math.isnan(b)
        return a == b and math.copysign(1, a) == math.copysign(1, b)
    return a == b


def kind_family(x):
    for name, tp in (("bool", bool), ("bytes", bytes), ("str", str), ("float", float), ("int", int)):
        if isinstance(x, tp):
            return name if name != "bool" else "int"
    return type(x).__name__


def attempt(fn):
    try:
        return ("ok", fn())
    except Exception as e:  # noqa: BLE001
        return ("raised", type(e).__name__)


def base_type(v):
    for tp in (bool, int, float, str, bytes):
        if type(v) is tp:
            return tp
    raise TypeError(v)


def operations(kind, others):
    """-> list of (name, fn(x)) ; fn is applied to the parameter value and to the plain built-in."""
    ops = [("bool", bool), ("str", str), ("repr", repr), ("hash", hash)]
    for spec in FORMATS[kind]:
        ops.append((f"format:{spec}", lambda x, spec=spec: format(x, spec)))
        ops.append((f"fstring:{spec}", lambda x, spec=spec: f"{x:{spec}}"))
    for name, op in (("eq", operator.eq), ("ne", operator.ne), ("lt", operator.lt), ("le", operator.le), ("gt", operator.gt), ("ge", operator.ge)):
        for o in others:
            ops.append((f"{name}:{o!r}", lambda x, op=op, o=o: op(x, o)))
            ops.append((f"r{name}:{o!r}", lambda x, op=op, o=o: op(o, x)))
    if kind in ("int", "bool", "float"):
        for name, op in (("add", operator.add), ("sub", operator.sub), ("mul", operator.mul), ("floordiv", operator.floordiv), ("mod", operator.mod),
                         ("truediv", operator.truediv), ("pow", lambda a, b: a ** 2 if not isinstance(a, float) or abs(a) < 1e150 else a)):
            for o in (3, -2, 2.5) if kind != "float" else (3, 2.5):
                ops.append((f"{name}:{o}", lambda x, op=op, o=o: op(x, o)))
                ops.append((f"r{name}:{o}", lambda x, op=op, o=o: op(o, x)))
        ops += [("neg", operator.neg), ("abs", abs), ("int", int), ("float", float), ("round", round)]
    if kind in ("int", "bool"):
        for name, op in (("and", operator.and_), ("or", operator.or_), ("xor", operator.xor), ("lshift", lambda a, b: a << 2), ("rshift", lambda a, b: a >> 1)):
            ops.append((f"{name}:5", lambda x, op=op: op(x, 5)))
        ops += [("index", operator.index), ("bit_length", lambda x: x.bit_length()), ("list-index", lambda x: [10, 11][x] if 0 <= x <= 1 else "n/a"),
                ("to_bytes", lambda x: x.to_bytes(16, "big", signed=True) if abs(x) < 2 ** 100 else "n/a"), ("invert", operator.invert)]
    if kind in ("str", "bytes"):
        ops += [("len", len), ("slice[1:]", lambda x: x[1:]), ("slice[::-1]", lambda x: x[::-1]), ("index0", lambda x: x[0]),
                ("concat", lambda x: x + x), ("repeat", lambda x: x * 2), ("iter", lambda x: tuple(x))]
        if kind == "str":
            ops += [("in:a", lambda x: "a" in x), ("upper", lambda x: x.upper()), ("encode", lambda x: x.encode("utf-8")), ("split", lambda x: tuple(x.split("b"))),
                    ("join", lambda x: x.join(["1", "2"])), ("startswith", lambda x: x.startswith("a")), ("percent", lambda x: "%s|%r" % (x, x))]
        else:
            ops += [("in:97", lambda x: 97 in x), ("hex", lambda x: x.hex()), ("decode", lambda x: x.decode("latin-1")), ("bytes", bytes),
                    ("int.from_bytes", lambda x: int.from_bytes(x, "big")), ("startswith", lambda x: x.startswith(b"a"))]
    ops.append(("dict-key", lambda x: {x: 1}.get(x)))
    ops.append(("set-member", lambda x: x in {x}))
    return ops


def exercise(t: Tally, p, v, kind, case, ops, others, got_raw):
    """Everything that is done with one parameter value `p` whose plain built-in counterpart is `v`."""
    for name, fn in ops:
        if name == "hash" and isinstance(v, float) and math.isnan(v):
            continue  # hash(nan) is identity based since Python 3.10
        plain = v
        if kind == "bool" and name.split(":")[0] in ("add", "sub", "mul", "floordiv", "mod", "truediv", "pow", "neg", "abs", "and", "or", "xor",
                                                   "lshift", "rshift", "radd", "rsub", "rmul", "rfloordiv", "rmod", "rtruediv", "rpow",
                                                   "invert", "to_bytes", "index", "int", "float", "round", "bit_length"):
            plain = int(v)  # arithmetic like the int it is backed by
        a = attempt(lambda: fn(p))
        b = attempt(lambda: fn(plain))
        t.evals += 1
        ok = a[0] == b[0] and (same(a[1], b[1]) if a[0] == "ok" else a[1] == b[1])
        if ok and a[0] == "ok" and kind == "bool" and name.split(":")[0] in ("and", "or", "xor") :
            ok = True
        if ok and a[0] == "ok" and type(a[1]) is not type(b[1]):
            # results of operations are plain built-ins in both cases, except that bool & int gives int
            ok = isinstance(a[1], type(b[1])) or isinstance(b[1], type(a[1]))
        t.outcomes[f"{kind}:{a[0]}"] += 1
        if not ok:
            t.violation({"kind": "operation-differs", "class": kind, "op": name.split(":")[0]}, {**case, "op": name},
                        expected=repr(b), observed=repr(a))
    # sorting a mixed list of parameter values and built-ins
    if kind in ("int", "float", "str", "bytes") and not (isinstance(v, float) and math.isnan(v)):
        mixed = [p] + list(others if kind not in ("float",) else [0.0, 1.5, 2])
        plainl = [v] + list(others if kind not in ("float",) else [0.0, 1.5, 2])
        if kind == "int":
            mixed, plainl = [p, 0, 1, 7, 2.5], [v, 0, 1, 7, 2.5]
        a = attempt(lambda: [repr(x) for x in sorted(mixed)])
        b = attempt(lambda: [repr(x) for x in sorted(plainl)])
        t.evals += 1
        if a != b:
            t.violation({"kind": "operation-differs", "class": kind, "op": "sorted"}, {**case, "op": "sorted"}, expected=b, observed=a)
    # copies
    copies = [("copy", copy.copy), ("deepcopy", copy.deepcopy)] + [(f"pickle{pr}", lambda x, pr=pr: pickle.loads(pickle.dumps(x, protocol=pr)))
                                                                    for pr in range(0, pickle.HIGHEST_PROTOCOL + 1)]
    for cname, cf in copies:
        r = attempt(lambda: cf(p))
        t.evals += 1
        bad = None
        if r[0] != "ok":
            bad = f"{cname} raised {r[1]}"
        else:
            q = r[1]
            if type(q) is not type(p):
                bad = f"{cname} changed the class to {type(q).__name__}"
            elif not same(base_type(v)(q) if kind != "bool" else bool(q), v):
                bad = f"{cname} changed the value to {q!r}"
            elif not (same(getattr(q, "raw_value", "<missing>"), got_raw) and type(getattr(q, "raw_value", None)) is type(got_raw)):
                bad = f"{cname} changed raw_value to {getattr(q, 'raw_value', '<missing>')!r}"
        if bad:
            t.violation({"kind": "copy-differs", "class": kind, "copy": cname.rstrip("012345")}, {**case, "copy": cname}, observed=bad)
    # consumers from the standard library (and numpy): whatever accepts the built-in accepts the parameter value, with the same result
    for name, fn in CONSUMERS[kind]:
        a = attempt(lambda: fn(p))
        b = attempt(lambda: fn(v if kind != "bool" or name.startswith("bool:") else int(v)))
        t.evals += 1
        ok = a[0] == b[0] and (same(a[1], b[1]) if a[0] == "ok" else a[1] == b[1])
        t.outcomes[f"{kind}:consumer:{a[0]}"] += 1
        if not ok:
            t.violation({"kind": "consumer-differs", "class": kind, "consumer": name}, {**case, "consumer": name}, expected=repr(b)[:200], observed=repr(a)[:200])


def value_sets(tier):
    if tier == "quick":
        return INTS, FLOATS, STRS, BYTES
    import struct
    ints = sorted(set(INTS) | {s * (2 ** k + d) for k in range(0, 72, 3) for d in (-1, 0, 1) for s in (1, -1)} | {10 ** 18, -10 ** 30, 255, 256, 65535})
    floats = list(FLOATS) + [struct.unpack(">d", struct.pack(">Q", b))[0] for b in (0x0010000000000000, 0x000FFFFFFFFFFFFF, 0x3FF0000000000001, 0x7FEFFFFFFFFFFFFE,
                                                                                 0xBFE0000000000000, 0x4340000000000000, 0x4340000000000001, 0x3FB999999999999A,
                                                                                 0xC08F400000000000, 0x7FF8000000000001)] + [0.1, 1e16, 123456.789, -1e-7, 2.5, 0.5]
    strs = list(STRS) + ["A", " a ", "\n", "a\tb", "ab\u0301", "\u00df", "ABC", "0", "12", "-3.5", "\u4e2d\u6587", "a" * 70, "\ud7ff", "nan", "True", "{}", "%s"]
    byts = list(BYTES) + [b"\x00\x00", b"\xff", b" a ", b"0", b"12", bytes(range(256)), b"a" * 70, b"%s", b"\n", b"\x80\x00"]
    return ints, floats, strs, byts


def check_bool_text(t: Tally):
    """A boolean value prints as the truth value it stands for, whatever number it was built from (a masked status bit, a count)."""
    from space_packet_parser import common
    for x in (0, 1, 2, -1, 255, 2 ** 70, 4, True, False):
        try:
            p = common.BoolParameter(x, x)
        except Exception:  # noqa: BLE001
            continue  # not every number needs to be accepted
        want = repr(bool(x))
        forms = {"repr": lambda: repr(p), "str": lambda: str(p), "format": lambda: format(p, ""), "f-string": lambda: f"{p}", "%s": lambda: "%s" % (p,),
                 "%r": lambda: "%r" % (p,), "in-list": lambda: repr([p])[1:-1], "in-dict": lambda: repr({"k": p})[6:-1], "str.format": lambda: "{}".format(p)}
        for name, fn in forms.items():
            r = attempt(fn)
            t.evals += 1
            t.nontrivial += 1
            if r != ("ok", want):
                t.violation({"kind": "bool-text", "form": name}, {"bool_text": True, "built_from": repr(x), "form": name}, expected=want, observed=repr(r[1])[:80],
                            note="a BoolParameter that is true does not print as True (or a false one not as False)")


def check_bool_on_strings(t: Tally):
    """A boolean parameter on a string encoding (terminated, with a size tag, plain): whatever truth value the library derives, the raw value
    it carries is the bytes of the field as read from the packet."""
    import warnings
    from space_packet_parser.packets import CCSDSPacket
    from space_packet_parser.xtce import encodings, parameter_types
    with warnings.catch_warnings():
        warnings.simplefilter("ignore")
        kinds = {"terminated": parameter_types.BooleanParameterType("B", encodings.StringDataEncoding(fixed_raw_length=32, termination_character="00")),
                 "size tag": parameter_types.BooleanParameterType("B", encodings.StringDataEncoding(fixed_raw_length=32, leading_length_size=8)),
                 "plain": parameter_types.BooleanParameterType("B", encodings.StringDataEncoding(fixed_raw_length=32))}
    for kname, pt in kinds.items():
        for data in (b"\x00ABC", b"ok\x00\x00", b"\x00\x00\x00\x00", b"ABCD", b"\x10AB\x00", b"\x08A\x00\x00"):
            t.evals += 1
            t.nontrivial += 1
            try:
                with warnings.catch_warnings():
                    warnings.simplefilter("ignore")
                    v = pt.parse_value(CCSDSPacket(raw_data=data))
                raw = getattr(v, "raw_value", "<missing>")
                ok = isinstance(raw, bytes) and bytes(raw) == data
            except Exception as e:  # noqa: BLE001
                raw, ok = f"raised {type(e).__name__}", True   # a missing terminator, a size tag pointing beyond the field: not judged here
            if not ok:
                t.violation({"kind": "raw-value", "class": "bool", "parsed": True, "what": "not the encoded value", "encoding": "string, " + kname},
                            {"bool_on_string": True, "encoding": kname, "data": data.hex()}, expected=data.hex(), observed=repr(raw)[:80],
                            note="a boolean decoded from a string field does not carry the bytes of that field as its raw value")


def check_empty_fields(t: Tally):
    """Strings and binaries whose computed length is 0 bits (taken from another parameter, or looked up): the value is empty and the raw value
    is the empty BYTES object - a raw encoded value all the same."""
    from space_packet_parser import common
    from space_packet_parser.packets import CCSDSPacket
    from space_packet_parser.xtce import comparisons, encodings
    lk = [comparisons.DiscreteLookup([comparisons.Comparison("0", "N")], 0.0), comparisons.DiscreteLookup([comparisons.Comparison("0", "N", operator=">")], 16.0)]
    encs = {"string, dynamic length": encodings.StringDataEncoding(dynamic_length_reference="N", use_calibrated_value=False, length_linear_adjuster=lambda x: 8 * x),
            "string, looked-up length": encodings.StringDataEncoding(discrete_lookup_length=lk),
            "binary, dynamic length": encodings.BinaryDataEncoding(size_reference_parameter="N", use_calibrated_value=False, linear_adjuster=lambda x: 8 * x),
            "binary, looked-up length": encodings.BinaryDataEncoding(size_discrete_lookup_list=lk)}
    for name, enc in encs.items():
        for nval, data in ((0, b"AB"), (0, b""), (2, b"ABCD")):
            if nval and "looked-up" not in name and len(data) < nval:
                continue
            t.evals += 1
            t.nontrivial += 1
            try:
                pkt = CCSDSPacket(raw_data=data, N=common.IntParameter(nval))
                v = enc.parse_value(pkt)
                want_raw = data[:2 * 0] if nval == 0 else data[:2]
                raw = getattr(v, "raw_value", "<missing>")
                is_str = name.startswith("string")
                ok = isinstance(raw, bytes) and bytes(raw) == want_raw and (isinstance(v, str) if is_str else isinstance(v, bytes)) and len(v) == (0 if nval == 0 else 2)
                if ok and pkt.raw_data.pos != 8 * len(want_raw):
                    ok = False
            except Exception as e:  # noqa: BLE001
                raw, ok = f"raised {type(e).__name__}: {str(e)[:60]}", False
            if not ok:
                t.violation({"kind": "raw-value", "class": "str" if name.startswith("string") else "bytes", "parsed": True, "what": "not the encoded value", "encoding": name},
                            {"empty_fields": True, "encoding": name, "N": nval, "data": data.hex()}, expected=repr(data[:0] if nval == 0 else data[:2]), observed=repr(raw)[:80],
                            note="a field of computed length 0 (or 16) bits: the raw value is the bytes of the field")


def check_values(t: Tally, tier="quick"):
    from space_packet_parser import common
    ints, floats, strs, byts = value_sets(tier)
    classes = {"int": (common.IntParameter, ints), "float": (common.FloatParameter, floats), "str": (common.StrParameter, strs),
               "bytes": (common.BinaryParameter, byts), "bool": (common.BoolParameter, BOOLS)}
    for kind, (cls, vals) in classes.items():
        others = {"int": [0, 1, 7, 2.5, True], "float": [0.0, 1.5, 2, math.nan, math.inf], "str": ["", "a", "b"], "bytes": [b"", b"a"],
                  "bool": [False, True, 0, 1, 2]}[kind]
        ops = operations(kind, others)
        for v in vals:
            for raw in RAWS:
                try:
                    p = cls(v) if raw == "<omitted>" else cls(v, raw)
                except Exception as e:  # noqa: BLE001
                    t.violation({"kind": "construction-failed", "class": kind}, {"value": repr(v), "raw": repr(raw)}, observed=repr(e))
                    continue
                case = {"class": kind, "value": repr(v), "raw": repr(raw)}
                t.nontrivial += 1
                # the parameter is an instance of the built-in (bool: int-backed)
                want_base = int if kind == "bool" else base_type(v)
                t.evals += 1
                if not isinstance(p, want_base):
                    t.violation({"kind": "not-a-builtin-instance", "class": kind}, case, observed=type(p).__mro__[1].__name__)
                want_raw = v if raw == "<omitted>" else raw
                t.evals += 1
                got_raw = getattr(p, "raw_value", "<missing>")
                raw_ok = same(got_raw, want_raw) and type(got_raw) is type(want_raw)
                if not raw_ok and raw == "<omitted>":
                    # when no raw value is given, raw_value may be the value object itself (a subclass instance)
                    conv = attempt(lambda: base_type(v)(got_raw) if kind != "bool" else bool(got_raw))
                    raw_ok = conv[0] == "ok" and kind_family(got_raw) == kind_family(v) and same(conv[1], v)
                if not raw_ok:
                    t.violation({"kind": "raw-value", "class": kind, "falsy_raw": not bool(want_raw) if not isinstance(want_raw, float) else want_raw == 0},
                                case, expected=repr(want_raw), observed=repr(got_raw))
                exercise(t, p, v, kind, case, ops, others, got_raw)
                # a value object is a drop-in for the plain value also as the argument of a value class: built from p with no raw value given,
                # the new object's raw value is its value (not whatever raw value p carried)
                if raw != "<omitted>":
                    t.evals += 1
                    r2 = attempt(lambda: cls(p))
                    ok2 = False
                    if r2[0] == "ok":
                        rr = getattr(r2[1], "raw_value", "<missing>")
                        conv = attempt(lambda: base_type(v)(rr) if kind != "bool" else bool(rr))
                        ok2 = conv[0] == "ok" and kind_family(rr) == kind_family(v) and same(conv[1], v)
                    if not ok2:
                        t.violation({"kind": "raw-value", "class": kind, "built_from": "a value object"}, case, expected=repr(v),
                                    observed=repr(getattr(r2[1], "raw_value", None)) if r2[0] == "ok" else r2[1],
                                    note="cls(value_object) without a raw value: raw_value is not the value itself")


def check_interference(t: Tally):
    """Values are independent objects: creating, copying or unpickling one value never changes another equal value."""
    from space_packet_parser import common
    classes = {"int": (common.IntParameter, INTS), "float": (common.FloatParameter, FLOATS), "str": (common.StrParameter, STRS),
               "bytes": (common.BinaryParameter, BYTES), "bool": (common.BoolParameter, BOOLS)}
    copies = [copy.copy, copy.deepcopy] + [lambda x, pr=pr: pickle.loads(pickle.dumps(x, protocol=pr)) for pr in range(0, pickle.HIGHEST_PROTOCOL + 1)]
    for kind, (cls, vals) in classes.items():
        for v in vals:
            for raw in RAWS[1:]:
                a = cls(v)                      # no separate raw value
                b = cls(v, raw)                 # equal value, separate raw value
                before = (repr(a), repr(getattr(a, "raw_value", None)), repr(b), repr(getattr(b, "raw_value", None)))
                for cf in copies:
                    attempt(lambda: cf(b))
                    attempt(lambda: cf(a))
                c = cls(v)                      # created afterwards
                after = (repr(a), repr(getattr(a, "raw_value", None)), repr(b), repr(getattr(b, "raw_value", None)))
                t.evals += 1
                want_c = repr(v) if kind != "bool" else repr(bool(v))
                fresh_ok = repr(c) == want_c and same(getattr(c, "raw_value", "<missing>"), v if kind != "bool" else v) \
                    and kind_family(getattr(c, "raw_value", None)) == kind_family(v)
                if before != after or not fresh_ok:
                    t.violation({"kind": "values-interfere", "class": kind}, {"class": kind, "value": repr(v), "raw": repr(raw)},
                                expected=before, observed=(after, repr(c), repr(getattr(c, "raw_value", None))),
                                note="copying one value changed another equal value (shared instance?)")
    # values that compare equal but are different (signed zeros, 1 vs True vs 1.0) stay distinct
    for cls, pair in ((common.FloatParameter, (0.0, -0.0)), (common.FloatParameter, (-0.0, 0.0)), (common.IntParameter, (1, True)),
                      (common.IntParameter, (0, False))):
        x, y = cls(pair[0]), cls(pair[1])
        t.evals += 1
        if repr(x) != repr(type(pair[0])(pair[0]) if cls is not common.IntParameter else int(pair[0])) or \
                repr(y) != repr(type(pair[1])(pair[1]) if cls is not common.IntParameter else int(pair[1])):
            t.violation({"kind": "values-interfere", "class": "equal-but-distinct"}, {"pair": repr(pair)}, observed=(repr(x), repr(y)))


def check_pairs(t: Tally, tier="quick"):
    """Two parameter values meeting each other (both carry raw values): every binary operation gives what the two built-ins give."""
    from space_packet_parser import common
    num = [(common.IntParameter, v) for v in INTS] + [(common.FloatParameter, v) for v in FLOATS] + [(common.BoolParameter, v) for v in BOOLS]
    binops = [("eq", operator.eq), ("ne", operator.ne), ("lt", operator.lt), ("le", operator.le), ("gt", operator.gt), ("ge", operator.ge), ("add", operator.add),
              ("sub", operator.sub), ("mul", operator.mul), ("truediv", operator.truediv), ("floordiv", operator.floordiv), ("mod", operator.mod),
              ("divmod", divmod), ("max", max), ("min", min), ("hash-eq", lambda a, b: hash(a) == hash(b)), ("set-size", lambda a, b: len({a, b})),
              ("dict-overwrite", lambda a, b: len({a: 1, b: 2})), ("tuple-lt", lambda a, b: (a, 1) < (b, 2)), ("sorted", lambda a, b: [repr(float(x)) for x in sorted([a, b])]),
              ("pow-small", lambda a, b: a ** b if abs(a) < 100 and abs(b) < 8 else "n/a"), ("and", operator.and_), ("or", operator.or_), ("xor", operator.xor),
              ("lshift", lambda a, b: a << b if 0 <= b < 70 else "n/a")]
    raws = [None, 0, b"\x00", "r"]
    for i, (ca, va) in enumerate(num):
        for j, (cb, vb) in enumerate(num):
            ra, rb = raws[(i + j) % 4], raws[(i * 3 + j + 1) % 4]
            a, b = ca(va, ra), cb(vb, rb)
            pa = int(va) if ca is common.BoolParameter else va
            pb = int(vb) if cb is common.BoolParameter else vb
            nanny = any(isinstance(x, float) and math.isnan(x) for x in (va, vb))
            for name, op in binops:
                if nanny and name in ("hash-eq", "set-size", "dict-overwrite", "sorted", "max", "min", "tuple-lt"):  # identity-based for NaN
                    continue
                x = attempt(lambda: op(a, b))
                y = attempt(lambda: op(pa, pb))
                t.evals += 1
                ok = x[0] == y[0] and (same(x[1], y[1]) if x[0] == "ok" else x[1] == y[1])
                t.outcomes[f"pair:{x[0]}"] += 1
                if not ok:
                    t.violation({"kind": "pair-operation-differs", "op": name, "classes": f"{ca.__name__}/{cb.__name__}"},
                                {"a": repr(va), "b": repr(vb), "raw_a": repr(ra), "raw_b": repr(rb), "op": name, "classes": [ca.__name__, cb.__name__]},
                                expected=repr(y)[:160], observed=repr(x)[:160])
            t.nontrivial += 1
    seqs = [(common.StrParameter, STRS, ["", "a", "ab"]), (common.BinaryParameter, BYTES, [b"", b"a", b"ab"])]
    sops = [("eq", operator.eq), ("lt", operator.lt), ("ge", operator.ge), ("concat", operator.add), ("contains", lambda a, b: b in a), ("startswith", lambda a, b: a.startswith(b)),
            ("join", lambda a, b: a.join([b, b])), ("split", lambda a, b: a.split(b) if b else "n/a"), ("replace", lambda a, b: a.replace(b, a[:1])), ("find", lambda a, b: a.find(b)),
            ("count", lambda a, b: a.count(b)), ("strip", lambda a, b: a.strip(b)), ("hash-eq", lambda a, b: hash(a) == hash(b)), ("set-size", lambda a, b: len({a, b})),
            ("sorted", lambda a, b: sorted([a, b])), ("partition", lambda a, b: a.partition(b) if b else "n/a"), ("max", max)]
    for cls, vals, extra in seqs:
        allv = list(vals) + extra
        for i, va in enumerate(allv):
            for j, vb in enumerate(allv):
                a, b = cls(va, raws[(i + j) % 4]), cls(vb, raws[(i + 2 * j + 1) % 4])
                for name, op in sops:
                    x = attempt(lambda: op(a, b))
                    y = attempt(lambda: op(va, vb))
                    t.evals += 1
                    ok = x[0] == y[0] and (same(x[1], y[1]) if x[0] == "ok" else x[1] == y[1])
                    if not ok:
                        t.violation({"kind": "pair-operation-differs", "op": name, "classes": cls.__name__},
                                    {"a": repr(va), "b": repr(vb), "op": name, "classes": [cls.__name__, cls.__name__]}, expected=repr(y)[:160], observed=repr(x)[:160])
                t.nontrivial += 1


def check_containers(t: Tally):
    """Values inside ordinary containers: copying or pickling the container keeps values, raw values, classes and the sharing structure."""
    from space_packet_parser import common
    a = common.IntParameter(7, 3)
    b = common.FloatParameter(-0.0, b"\x80\x00")
    c = common.StrParameter("", 0)
    d = common.BinaryParameter(b"\x00", "")
    e = common.BoolParameter(False, 0.0)
    objs = {
        "list-shared": [a, a, b, [c, d, e], (a, e)],
        "dict-keys-values": {a: b, c: d, "k": e, 7.5: a},
        "tuple": (a, b, c, d, e),
        "set": {a, c, d},
        "nested-dict": {"x": {"y": [a, {"z": (b, c)}]}, "again": a},
    }
    copies = [("copy", copy.copy), ("deepcopy", copy.deepcopy)] + [(f"pickle{pr}", lambda x, pr=pr: pickle.loads(pickle.dumps(x, protocol=pr)))
                                                                    for pr in range(0, pickle.HIGHEST_PROTOCOL + 1)]

    def describe(o, ids):
        if isinstance(o, dict):
            return ("dict", tuple((describe(k, ids), describe(v, ids)) for k, v in o.items()))
        if isinstance(o, (list, tuple)):
            return (type(o).__name__, tuple(describe(x, ids) for x in o))
        if isinstance(o, (set, frozenset)):
            return ("set", tuple(sorted((describe(x, None) for x in o), key=repr)))
        rv = getattr(o, "raw_value", "<none>")
        me = (type(o).__name__, repr(o), type(rv).__name__, repr(rv))
        if ids is not None and hasattr(o, "raw_value"):
            me += (ids.setdefault(id(o), len(ids)),)   # sharing structure: the n-th distinct parameter object
        return me
    for oname, o in objs.items():
        want = describe(o, {})
        for cname, cf in copies:
            r = attempt(lambda: cf(o))
            t.evals += 1
            t.nontrivial += 1
            if r[0] != "ok":
                t.violation({"kind": "container-copy-differs", "copy": cname.rstrip("012345")}, {"container": oname, "copy": cname}, observed=f"raised {r[1]}")
                continue
            got = describe(r[1], {})
            if got != want:
                t.violation({"kind": "container-copy-differs", "copy": cname.rstrip("012345")}, {"container": oname, "copy": cname}, expected=repr(want)[:300], observed=repr(got)[:300],
                            note="values, raw values, classes or the sharing structure changed")


def _task_parsed(task):
    """Values as the decoder produces them (every field kind of the palette), not just values built by hand."""
    from mc.checks import c01
    from mc.observe import plain
    from mc.spec import load_doc
    import warnings
    t = Tally()
    pats = dict(c01.base_patterns())
    pats["neg0"] = bytes([0x80, 0x00, 0x00, 0x00, 0x00, 0x00, 0x00, 0x00] * 40)   # negative zero for every float width, most negative ints
    pats["neg0le"] = bytes([0x00, 0x80] * 160)
    for i in range(24):
        pats[f"mul{i}"] = bytes((j * (2 * i + 3) + 17 * i) & 0xFF for j in range(320))
    fams = {"int": [0, 1, 7, 2.5, True], "float": [0.0, 1.5, 2, math.nan, math.inf], "str": ["", "a", "b"], "bytes": [b"", b"a"], "bool": [False, True, 0, 1, 2]}
    opsets = {k: operations(k, v) for k, v in fams.items()}
    seen = set()
    for ki in task["kinds"]:
        try:
            with case_alarm(300):
                doc = c01.compose((ki,), 1)
                defn = load_doc(doc)
                held = []
                for pn in task["patterns"]:
                    pkt, o = c01.fit(doc, 1, pats[pn])
                    if o.kind != "parsed":
                        continue
                    with warnings.catch_warnings():
                        warnings.simplefilter("ignore")
                        out = list(defn.packet_generator(pkt))
                    if len(out) != 1:
                        continue
                    ref_items = {it.name: it for it in o.items}
                    held.append((pn, out[0], ref_items))
                    for name, p in out[0].items():
                        # "additionally carries the raw encoded value": the raw value is the one the bits of THIS packet encode (sign of zero,
                        # int vs float and all), not merely something equal to it
                        it = ref_items.get(name)
                        if it is not None and not it.unjudged and hasattr(p, "raw_value"):
                            from mc.observe import same_value
                            t.evals += 1
                            if not same_value(it.raw, plain(p.raw_value)):
                                t.violation({"kind": "raw-value", "class": type(p).__name__, "parsed": True, "what": "not the encoded value"},
                                            {"parsed": True, "field_kind": c01.pal()[ki].name, "pattern": pn, "name": name},
                                            expected=repr(it.raw), observed=repr(plain(p.raw_value)))
                        if name in ("VERSION", "TYPE", "SEC_HDR_FLG", "SEQ_FLGS", "SRC_SEQ_CTR", "PKT_LEN") and (ki, pn) != (task["kinds"][0], task["patterns"][0]):
                            continue  # header values are the same for every kind
                        v = plain(p)
                        cname = type(p).__name__
                        kind = {"IntParameter": "int", "FloatParameter": "float", "StrParameter": "str", "BinaryParameter": "bytes", "BoolParameter": "bool"}.get(cname)
                        case = {"parsed": True, "field_kind": c01.pal()[ki].name, "pattern": pn, "name": name, "class": cname, "value": repr(v)[:80]}
                        t.evals += 1
                        if kind is None:
                            t.violation({"kind": "not-a-parameter-value-class", "class": cname}, case, observed=cname,
                                        note="a decoded value is not an instance of one of the five value classes")
                            continue
                        if kind == "bool":
                            v = bool(int.__int__(p))
                        if not hasattr(p, "raw_value"):
                            t.violation({"kind": "raw-value", "class": kind, "parsed": True}, case, observed="no raw_value attribute")
                            continue
                        key = (kind, repr(v), repr(plain(p.raw_value)))
                        if key in seen:
                            continue
                        seen.add(key)
                        t.nontrivial += 1
                        exercise(t, p, v, kind, case, opsets[kind], fams[kind], p.raw_value)
                # the values of EARLIER packets once every later packet has been decoded by the same definition: a value carries the raw value of
                # its own packet for as long as the caller holds it
                from mc.observe import same_value
                for pn, packet, ref_items in held:
                    for name, p in packet.items():
                        it = ref_items.get(name)
                        if it is None or it.unjudged or not hasattr(p, "raw_value"):
                            continue
                        t.evals += 1
                        if not same_value(it.raw, plain(p.raw_value)):
                            t.violation({"kind": "raw-value", "class": type(p).__name__, "parsed": True, "what": "changed once later packets were decoded"},
                                        {"parsed": True, "held": True, "field_kind": c01.pal()[ki].name, "pattern": pn, "name": name},
                                        expected=repr(it.raw), observed=repr(plain(p.raw_value)))
                t.programs += 1
        except BaseException as e:  # noqa: BLE001
            t.violation({"kind": "part-aborted", "part": "parsed-values", "exc": type(e).__name__}, {"field_kind": ki}, observed=repr(e)[:300])
    return t


def check_packets(t: Tally):
    from space_packet_parser.packets import CCSDSPacket, RawPacketData
    from mc.checks.c11 import the_doc, palette_packets
    from mc.spec import load_doc
    defn = load_doc(the_doc())
    pal = palette_packets()
    pkts = []
    for raw in pal[:2] + pal[3:4]:
        import warnings
        with warnings.catch_warnings():
            warnings.simplefilter("ignore")
            out = list(defn.packet_generator(raw))
        pkts += out
    # a packet whose cursor is mid-way, header properties cached or not
    mid = CCSDSPacket(raw_data=pal[0])
    mid.raw_data.read_as_int(13)
    pkts.append(mid)
    mid2 = CCSDSPacket(raw_data=pal[1], A=1, B="x")
    _ = mid2.raw_data.apid, mid2.raw_data.header_values
    mid2.raw_data.read_as_bytes(16)
    pkts.append(mid2)
    pkts.append(CCSDSPacket())
    # a packet shorter than its definition: integer reads run past the end, so the cursor ends up BEYOND the data (that is how such a
    # packet is recognised as bad); and cursors placed by hand at and beyond the end
    from mc import framing
    import warnings as _w
    with _w.catch_warnings():
        _w.simplefilter("ignore")
        from mc.checks.c14 import chain_docs
        short = load_doc(chain_docs()[0][1]).parse_ccsds_packet(CCSDSPacket(raw_data=framing.mk_packet(bytes.fromhex("0102"), apid=1, seqcount=21)))
        assert short.raw_data.pos > 8 * len(short.raw_data), "harness: expected an over-read packet"
    pkts.append(short)
    at_end = CCSDSPacket(raw_data=pal[1], X=1)
    at_end.raw_data.pos = 8 * len(pal[1])
    pkts.append(at_end)
    beyond = CCSDSPacket(raw_data=pal[0])
    beyond.raw_data.pos = 8 * len(pal[0]) + 19
    pkts.append(beyond)
    # items whose names are words the packet class uses itself (constructor arguments, attribute and method names, dict method names):
    # parameter names come from the definition and are just keys
    odd = CCSDSPacket(raw_data=pal[1])
    from space_packet_parser import common as _c
    for nm in ("raw_data", "self", "args", "kwargs", "header", "user_data", "items", "keys", "__dict__", "", "0", "pos"):
        odd[nm] = _c.IntParameter(len(nm), 7)
    pkts.append(odd)
    copies = [("copy", copy.copy), ("deepcopy", copy.deepcopy)] + [(f"pickle{pr}", lambda x, pr=pr: pickle.loads(pickle.dumps(x, protocol=pr)))
                                                                    for pr in range(0, pickle.HIGHEST_PROTOCOL + 1)]
    # the raw data objects on their own, too
    for i, p in enumerate(list(pkts)):
        rd = p.raw_data
        want_rd = (bytes(rd), rd.pos, type(rd).__name__)
        for cname, cf in copies:
            r = attempt(lambda: cf(rd))
            t.evals += 1
            if r[0] != "ok" or (bytes(r[1]), getattr(r[1], "pos", None), type(r[1]).__name__) != want_rd:
                t.violation({"kind": "packet-copy-differs", "copy": cname.rstrip("012345"), "object": "raw_data"}, {"packet_index": i, "copy": cname, "object": "raw_data"},
                            expected=(want_rd[0].hex(), want_rd[1], want_rd[2]),
                            observed=r[1] if r[0] != "ok" else (bytes(r[1]).hex(), getattr(r[1], "pos", None), type(r[1]).__name__))
    for i, p in enumerate(pkts):
        want = (items_of(p), bytes(p.raw_data), p.raw_data.pos, type(p).__name__, type(p.raw_data).__name__, list(p.header), list(p.user_data))
        for cname, cf in copies:
            r = attempt(lambda: cf(p))
            t.evals += 1
            t.nontrivial += 1
            bad = None
            if r[0] != "ok":
                bad = f"{cname} raised {r[1]}"
            else:
                q = r[1]
                try:
                    got = (items_of(q), bytes(q.raw_data), q.raw_data.pos, type(q).__name__, type(q.raw_data).__name__, list(q.header), list(q.user_data))
                except Exception as e:  # noqa: BLE001
                    got = ("unusable", repr(e))
                if repr(got) != repr(want):
                    bad = f"{cname}: {str(got)[:200]} != {str(want)[:200]}"
                else:
                    # the copy must still be a working packet: header accessors and reads continue from the cursor
                    try:
                        if len(q.raw_data) >= 6 and tuple(q.raw_data.header_values) != tuple(p.raw_data.header_values):
                            bad = f"{cname}: header accessors differ on the copy"
                    except Exception as e:  # noqa: BLE001
                        bad = f"{cname}: header accessors raise on the copy: {e!r}"
            if not bad and cname != "copy" and len(p.raw_data) >= 8:
                # independence of deep copies and unpickled copies: using one must not move the other's cursor or change its items
                q = r[1]
                try:
                    p_pos, q_pos = p.raw_data.pos, q.raw_data.pos
                    q.raw_data.pos = 0
                    q.raw_data.read_as_int(11)
                    q["__extra__"] = 1
                    if p.raw_data.pos != p_pos or "__extra__" in p:
                        bad = f"{cname}: using the copy changed the original (cursor {p_pos} -> {p.raw_data.pos}, items {'changed' if '__extra__' in p else 'same'})"
                    del q["__extra__"]
                    q.raw_data.pos = q_pos
                    p.raw_data.pos = 0
                    p.raw_data.read_as_bytes(16)
                    if q.raw_data.pos != q_pos:
                        bad = f"{cname}: using the original moved the copy's cursor ({q_pos} -> {q.raw_data.pos})"
                    p.raw_data.pos = p_pos
                except Exception as e:  # noqa: BLE001
                    bad = f"{cname}: independence probe raised {e!r}"
            t.outcomes["packet-copy:" + ("ok" if not bad else "bad")] += 1
            if bad:
                t.violation({"kind": "packet-copy-differs", "copy": cname.rstrip("012345")}, {"packet_index": i, "copy": cname}, observed=bad)


def run(ctx):
    t = Tally()
    from mc.checks import c01
    from mc.kernel import chunked, fan_out
    nk = len(c01.pal())
    pnames = (list(c01.base_patterns()) if not ctx.quick else ["index", "ones", "zeros", "small", "5a", "ascii"]) + ["neg0", "neg0le"]
    if not ctx.quick:
        pnames += [f"mul{i}" for i in range(24)]
    t.merge(fan_out(_task_parsed, [{"kinds": ch, "patterns": pnames} for ch in chunked(list(range(nk)), 4)], jobs=ctx.jobs, seed=ctx.seed))
    for part in (check_values, check_bool_text, check_bool_on_strings, check_empty_fields, check_interference, check_packets, check_pairs, check_containers):
        try:
            with case_alarm(1800):
                if part is check_values:
                    part(t, ctx.tier)
                else:
                    part(t)
        except BaseException as e:  # noqa: BLE001 - a corrupted value class can make anything fail; keep what was found so far
            t.violation({"kind": "part-aborted", "part": part.__name__, "exc": type(e).__name__}, {"part": part.__name__}, observed=repr(e)[:300],
                        note="the library failed in an unexpected place while this part of the check was running")
    t.sample({"class": "int", "value": 0, "raw": 0.0, "operations": "comparisons, hash, truth, str/repr/format, arithmetic, bit ops, dict key, sorted, 8 copies"})
    t.sample({"packet": "parsed A packet with cursor at end", "copies": ["copy", "deepcopy", "pickle0..5"]})
    coverage = {
        "exhaustive": True,
        "bound": (f"the raw value of every value of every EARLIER packet read again once all later packets were decoded by the same definition; values decoded by the library from packets of every field kind of the palette ({nk} kinds x {len(pnames)} payload patterns; each distinct "
                  "(class, value, raw value) once) and values built by hand: "
                  f"{len(value_sets(ctx.tier)[0])} ints, {len(value_sets(ctx.tier)[1])} floats (signed zeros, infinities, NaN, min subnormal, max), "
                  f"{len(value_sets(ctx.tier)[2])} strs, {len(value_sets(ctx.tier)[3])} bytes, 2 bools "
                  f"x {len(RAWS)} raw values (omitted and every falsy kind) x ~60-110 operations each + 14-46 standard-library/numpy consumers (json, struct, math, Fraction, Decimal, %-formatting, re, hashing across "
                  "parameter/plain keys, ...) x 8 copies; every ordered pair of numeric values (int, float, bool classes mixed) x 25 binary operations and every pair of "
                  "str / bytes values x 17 operations with both operands parameter values; 5 container shapes (shared references, dict keys, sets, nesting) x 8 copies; 9 packets and their raw data objects (parsed clean / flagged, shorter than the definition so that the cursor "
                  "lies beyond the data, cursor mid-way / at the end / beyond the end, cached header properties, empty) x 8 copies"),
        "rule": "one evaluation = one operation or copy compared with the built-in; distinct non-trivial = distinct (class, value, raw) triples and packet copies",
    }
    return {"level": LEVEL, "tally": t, "coverage": coverage,
            "assumptions": ["the boolean value class is int-backed: truth/str/format like bool, arithmetic like int"]}


def replay(case):
    from mc import kernel
    kernel.MAX_PER_SIGNATURE = 10 ** 6
    t = Tally()
    if case.get("parsed"):
        from mc.checks import c01
        ki = [i for i, k in enumerate(c01.pal()) if k.name == case["field_kind"]]
        pats = [case["pattern"]] if not case.get("held") else list(c01.base_patterns()) + ["neg0", "neg0le"]
        t = _task_parsed({"kinds": ki, "patterns": pats})
    else:
        check_values(t, "thorough")
        for part in (check_interference, check_packets, check_pairs, check_containers):
            part(t)
    for v in t.violations:
        if all(v["case"].get(k) == case.get(k) for k in case):
            return v
    return None


def repro_py(case):
    return f"from space_packet_parser import common\n# case: {case!r}\n"
