"""C20 — Parsed values are drop-in built-ins with a raw value and survive copying.

E-prod: values of the five value classes x raw values (including every falsy one and "omitted")
x operations (comparison, hashing, truth, str/repr/format, arithmetic, bit ops, slicing,
containment, dict keys, sorting) x copies (copy, deepcopy, pickle protocols 0..5); parsed packets
(cursor mid-way and at the end, cached header properties populated or not) through the same copies.
Oracle: the same operation on the plain built-in value.
"""
from __future__ import annotations

import copy
import math
import operator
import pickle

from mc.kernel import Tally, case_alarm
from mc.observe import items_of

PROP = "C20"
LEVEL = "exploration"

INTS = [0, 1, -1, 7, 2 ** 63, -2 ** 64 + 1]
FLOATS = [0.0, -0.0, 1.5, -2.25, math.inf, -math.inf, math.nan, 5e-324, 1.7976931348623157e308]
STRS = ["", "a", "é", "a\x00", "😀", "abc"]
BYTES = [b"", b"\x00", b"a\xff", b"abc"]
BOOLS = [False, True]
RAWS = ["<omitted>", 0, 0.0, False, "", b"", 7, "r", -1, b"\x00"]
FORMATS = {"int": ["", "d", "05d", "x", ">8", "+,"], "float": ["", ".3f", "e", "08.2f", "g", "+.1%"], "str": ["", ">6", "<4", "^5", ".1"],
           "bytes": [""], "bool": ["", "d", ">6", "x"]}


def same(a, b):
    """Equal as built-in values: same built-in family (a subclass instance counts as its base), NaN- and sign-aware."""
    if isinstance(a, (tuple, list)) and isinstance(b, (tuple, list)):
        return type(a) is type(b) and len(a) == len(b) and all(same(x, y) for x, y in zip(a, b))
    if not (isinstance(a, type(b)) or isinstance(b, type(a))):
        return False
    if isinstance(a, float) and isinstance(b, float):
        if math.isnan(a) or math.isnan(b):
            return math.isnan(a) and math.isnan(b)
        return a == b and math.copysign(1, a) == math.copysign(1, b)
    return a == b


def kind_family(x):
    for name, tp in (("bool", bool), ("bytes", bytes), ("str", str), ("float", float), ("int", int)):
        if isinstance(x, tp):
            return name if name != "bool" else "int"
    return type(x).__name__


def attempt(fn):
    try:
        return ("ok", fn())
    except Exception as e:  # noqa: BLE001
        return ("raised", type(e).__name__)


def base_type(v):
    for tp in (bool, int, float, str, bytes):
        if type(v) is tp:
            return tp
    raise TypeError(v)


def operations(kind, others):
    """-> list of (name, fn(x)) ; fn is applied to the parameter value and to the plain built-in."""
    ops = [("bool", bool), ("str", str), ("repr", repr), ("hash", hash)]
    for spec in FORMATS[kind]:
        ops.append((f"format:{spec}", lambda x, spec=spec: format(x, spec)))
        ops.append((f"fstring:{spec}", lambda x, spec=spec: f"{x:{spec}}"))
    for name, op in (("eq", operator.eq), ("ne", operator.ne), ("lt", operator.lt), ("le", operator.le), ("gt", operator.gt), ("ge", operator.ge)):
        for o in others:
            ops.append((f"{name}:{o!r}", lambda x, op=op, o=o: op(x, o)))
            ops.append((f"r{name}:{o!r}", lambda x, op=op, o=o: op(o, x)))
    if kind in ("int", "bool", "float"):
        for name, op in (("add", operator.add), ("sub", operator.sub), ("mul", operator.mul), ("floordiv", operator.floordiv), ("mod", operator.mod),
                         ("truediv", operator.truediv), ("pow", lambda a, b: a ** 2 if not isinstance(a, float) or abs(a) < 1e150 else a)):
            for o in (3, -2, 2.5) if kind != "float" else (3, 2.5):
                ops.append((f"{name}:{o}", lambda x, op=op, o=o: op(x, o)))
                ops.append((f"r{name}:{o}", lambda x, op=op, o=o: op(o, x)))
        ops += [("neg", operator.neg), ("abs", abs), ("int", int), ("float", float), ("round", round)]
    if kind in ("int", "bool"):
        for name, op in (("and", operator.and_), ("or", operator.or_), ("xor", operator.xor), ("lshift", lambda a, b: a << 2), ("rshift", lambda a, b: a >> 1)):
            ops.append((f"{name}:5", lambda x, op=op: op(x, 5)))
        ops += [("index", operator.index), ("bit_length", lambda x: x.bit_length()), ("list-index", lambda x: [10, 11][x] if 0 <= x <= 1 else "n/a"),
                ("to_bytes", lambda x: x.to_bytes(16, "big", signed=True) if abs(x) < 2 ** 100 else "n/a"), ("invert", operator.invert)]
    if kind in ("str", "bytes"):
        ops += [("len", len), ("slice[1:]", lambda x: x[1:]), ("slice[::-1]", lambda x: x[::-1]), ("index0", lambda x: x[0]),
                ("concat", lambda x: x + x), ("repeat", lambda x: x * 2), ("iter", lambda x: tuple(x))]
        if kind == "str":
            ops += [("in:a", lambda x: "a" in x), ("upper", lambda x: x.upper()), ("encode", lambda x: x.encode("utf-8")), ("split", lambda x: tuple(x.split("b"))),
                    ("join", lambda x: x.join(["1", "2"])), ("startswith", lambda x: x.startswith("a")), ("percent", lambda x: "%s|%r" % (x, x))]
        else:
            ops += [("in:97", lambda x: 97 in x), ("hex", lambda x: x.hex()), ("decode", lambda x: x.decode("latin-1")), ("bytes", bytes),
                    ("int.from_bytes", lambda x: int.from_bytes(x, "big")), ("startswith", lambda x: x.startswith(b"a"))]
    ops.append(("dict-key", lambda x: {x: 1}.get(x)))
    ops.append(("set-member", lambda x: x in {x}))
    return ops


def check_values(t: Tally):
    from space_packet_parser import common
    classes = {"int": (common.IntParameter, INTS), "float": (common.FloatParameter, FLOATS), "str": (common.StrParameter, STRS),
               "bytes": (common.BinaryParameter, BYTES), "bool": (common.BoolParameter, BOOLS)}
    for kind, (cls, vals) in classes.items():
        others = {"int": [0, 1, 7, 2.5, True], "float": [0.0, 1.5, 2, math.nan, math.inf], "str": ["", "a", "b"], "bytes": [b"", b"a"],
                  "bool": [False, True, 0, 1, 2]}[kind]
        ops = operations(kind, others)
        for v in vals:
            for raw in RAWS:
                try:
                    p = cls(v) if raw == "<omitted>" else cls(v, raw)
                except Exception as e:  # noqa: BLE001
                    t.violation({"kind": "construction-failed", "class": kind}, {"value": repr(v), "raw": repr(raw)}, observed=repr(e))
                    continue
                case = {"class": kind, "value": repr(v), "raw": repr(raw)}
                t.nontrivial += 1
                # the parameter is an instance of the built-in (bool: int-backed)
                want_base = int if kind == "bool" else base_type(v)
                t.evals += 1
                if not isinstance(p, want_base):
                    t.violation({"kind": "not-a-builtin-instance", "class": kind}, case, observed=type(p).__mro__[1].__name__)
                want_raw = v if raw == "<omitted>" else raw
                t.evals += 1
                got_raw = getattr(p, "raw_value", "<missing>")
                raw_ok = same(got_raw, want_raw) and type(got_raw) is type(want_raw)
                if not raw_ok and raw == "<omitted>":
                    # when no raw value is given, raw_value may be the value object itself (a subclass instance)
                    conv = attempt(lambda: base_type(v)(got_raw) if kind != "bool" else bool(got_raw))
                    raw_ok = conv[0] == "ok" and kind_family(got_raw) == kind_family(v) and same(conv[1], v)
                if not raw_ok:
                    t.violation({"kind": "raw-value", "class": kind, "falsy_raw": not bool(want_raw) if not isinstance(want_raw, float) else want_raw == 0},
                                case, expected=repr(want_raw), observed=repr(got_raw))
                for name, fn in ops:
                    if name == "hash" and isinstance(v, float) and math.isnan(v):
                        continue  # hash(nan) is identity based since Python 3.10
                    plain = v
                    if kind == "bool" and name.split(":")[0] in ("add", "sub", "mul", "floordiv", "mod", "truediv", "pow", "neg", "abs", "and", "or", "xor",
                                                               "lshift", "rshift", "radd", "rsub", "rmul", "rfloordiv", "rmod", "rtruediv", "rpow",
                                                               "invert", "to_bytes", "index", "int", "float", "round", "bit_length"):
                        plain = int(v)  # arithmetic like the int it is backed by
                    a = attempt(lambda: fn(p))
                    b = attempt(lambda: fn(plain))
                    t.evals += 1
                    ok = a[0] == b[0] and (same(a[1], b[1]) if a[0] == "ok" else a[1] == b[1])
                    if ok and a[0] == "ok" and kind == "bool" and name.split(":")[0] in ("and", "or", "xor") :
                        ok = True
                    if ok and a[0] == "ok" and type(a[1]) is not type(b[1]):
                        # results of operations are plain built-ins in both cases, except that bool & int gives int
                        ok = isinstance(a[1], type(b[1])) or isinstance(b[1], type(a[1]))
                    t.outcomes[f"{kind}:{a[0]}"] += 1
                    if not ok:
                        t.violation({"kind": "operation-differs", "class": kind, "op": name.split(":")[0]}, {**case, "op": name},
                                    expected=repr(b), observed=repr(a))
                # sorting a mixed list of parameter values and built-ins
                if kind in ("int", "float", "str", "bytes") and not (isinstance(v, float) and math.isnan(v)):
                    mixed = [p] + list(others if kind not in ("float",) else [0.0, 1.5, 2])
                    plainl = [v] + list(others if kind not in ("float",) else [0.0, 1.5, 2])
                    if kind == "int":
                        mixed, plainl = [p, 0, 1, 7, 2.5], [v, 0, 1, 7, 2.5]
                    a = attempt(lambda: [repr(x) for x in sorted(mixed)])
                    b = attempt(lambda: [repr(x) for x in sorted(plainl)])
                    t.evals += 1
                    if a != b:
                        t.violation({"kind": "operation-differs", "class": kind, "op": "sorted"}, {**case, "op": "sorted"}, expected=b, observed=a)
                # copies
                copies = [("copy", copy.copy), ("deepcopy", copy.deepcopy)] + [(f"pickle{pr}", lambda x, pr=pr: pickle.loads(pickle.dumps(x, protocol=pr)))
                                                                                for pr in range(0, pickle.HIGHEST_PROTOCOL + 1)]
                for cname, cf in copies:
                    r = attempt(lambda: cf(p))
                    t.evals += 1
                    bad = None
                    if r[0] != "ok":
                        bad = f"{cname} raised {r[1]}"
                    else:
                        q = r[1]
                        if type(q) is not type(p):
                            bad = f"{cname} changed the class to {type(q).__name__}"
                        elif not same(base_type(v)(q) if kind != "bool" else bool(q), v):
                            bad = f"{cname} changed the value to {q!r}"
                        elif not (same(getattr(q, "raw_value", "<missing>"), got_raw) and type(getattr(q, "raw_value", None)) is type(got_raw)):
                            bad = f"{cname} changed raw_value to {getattr(q, 'raw_value', '<missing>')!r}"
                    if bad:
                        t.violation({"kind": "copy-differs", "class": kind, "copy": cname.rstrip("012345")}, {**case, "copy": cname}, observed=bad)


def check_interference(t: Tally):
    """Values are independent objects: creating, copying or unpickling one value never changes another equal value."""
    from space_packet_parser import common
    classes = {"int": (common.IntParameter, INTS), "float": (common.FloatParameter, FLOATS), "str": (common.StrParameter, STRS),
               "bytes": (common.BinaryParameter, BYTES), "bool": (common.BoolParameter, BOOLS)}
    copies = [copy.copy, copy.deepcopy] + [lambda x, pr=pr: pickle.loads(pickle.dumps(x, protocol=pr)) for pr in range(0, pickle.HIGHEST_PROTOCOL + 1)]
    for kind, (cls, vals) in classes.items():
        for v in vals:
            for raw in RAWS[1:]:
                a = cls(v)                      # no separate raw value
                b = cls(v, raw)                 # equal value, separate raw value
                before = (repr(a), repr(getattr(a, "raw_value", None)), repr(b), repr(getattr(b, "raw_value", None)))
                for cf in copies:
                    attempt(lambda: cf(b))
                    attempt(lambda: cf(a))
                c = cls(v)                      # created afterwards
                after = (repr(a), repr(getattr(a, "raw_value", None)), repr(b), repr(getattr(b, "raw_value", None)))
                t.evals += 1
                want_c = repr(v) if kind != "bool" else repr(bool(v))
                fresh_ok = repr(c) == want_c and same(getattr(c, "raw_value", "<missing>"), v if kind != "bool" else v) \
                    and kind_family(getattr(c, "raw_value", None)) == kind_family(v)
                if before != after or not fresh_ok:
                    t.violation({"kind": "values-interfere", "class": kind}, {"class": kind, "value": repr(v), "raw": repr(raw)},
                                expected=before, observed=(after, repr(c), repr(getattr(c, "raw_value", None))),
                                note="copying one value changed another equal value (shared instance?)")
    # values that compare equal but are different (signed zeros, 1 vs True vs 1.0) stay distinct
    for cls, pair in ((common.FloatParameter, (0.0, -0.0)), (common.FloatParameter, (-0.0, 0.0)), (common.IntParameter, (1, True)),
                      (common.IntParameter, (0, False))):
        x, y = cls(pair[0]), cls(pair[1])
        t.evals += 1
        if repr(x) != repr(type(pair[0])(pair[0]) if cls is not common.IntParameter else int(pair[0])) or \
                repr(y) != repr(type(pair[1])(pair[1]) if cls is not common.IntParameter else int(pair[1])):
            t.violation({"kind": "values-interfere", "class": "equal-but-distinct"}, {"pair": repr(pair)}, observed=(repr(x), repr(y)))


def check_packets(t: Tally):
    from space_packet_parser.packets import CCSDSPacket, RawPacketData
    from mc.checks.c11 import the_doc, palette_packets
    from mc.spec import load_doc
    defn = load_doc(the_doc())
    pal = palette_packets()
    pkts = []
    for raw in pal[:2] + pal[3:4]:
        import warnings
        with warnings.catch_warnings():
            warnings.simplefilter("ignore")
            out = list(defn.packet_generator(raw))
        pkts += out
    # a packet whose cursor is mid-way, header properties cached or not
    mid = CCSDSPacket(raw_data=pal[0])
    mid.raw_data.read_as_int(13)
    pkts.append(mid)
    mid2 = CCSDSPacket(raw_data=pal[1], A=1, B="x")
    _ = mid2.raw_data.apid, mid2.raw_data.header_values
    mid2.raw_data.read_as_bytes(16)
    pkts.append(mid2)
    pkts.append(CCSDSPacket())
    copies = [("copy", copy.copy), ("deepcopy", copy.deepcopy)] + [(f"pickle{pr}", lambda x, pr=pr: pickle.loads(pickle.dumps(x, protocol=pr)))
                                                                    for pr in range(0, pickle.HIGHEST_PROTOCOL + 1)]
    for i, p in enumerate(pkts):
        want = (items_of(p), bytes(p.raw_data), p.raw_data.pos, type(p).__name__, type(p.raw_data).__name__, list(p.header), list(p.user_data))
        for cname, cf in copies:
            r = attempt(lambda: cf(p))
            t.evals += 1
            t.nontrivial += 1
            bad = None
            if r[0] != "ok":
                bad = f"{cname} raised {r[1]}"
            else:
                q = r[1]
                try:
                    got = (items_of(q), bytes(q.raw_data), q.raw_data.pos, type(q).__name__, type(q.raw_data).__name__, list(q.header), list(q.user_data))
                except Exception as e:  # noqa: BLE001
                    got = ("unusable", repr(e))
                if repr(got) != repr(want):
                    bad = f"{cname}: {str(got)[:200]} != {str(want)[:200]}"
                else:
                    # the copy must still be a working packet: header accessors and reads continue from the cursor
                    try:
                        if len(q.raw_data) >= 6 and tuple(q.raw_data.header_values) != tuple(p.raw_data.header_values):
                            bad = f"{cname}: header accessors differ on the copy"
                    except Exception as e:  # noqa: BLE001
                        bad = f"{cname}: header accessors raise on the copy: {e!r}"
            if not bad and cname != "copy" and len(p.raw_data) >= 8:
                # independence of deep copies and unpickled copies: using one must not move the other's cursor or change its items
                q = r[1]
                try:
                    p_pos, q_pos = p.raw_data.pos, q.raw_data.pos
                    q.raw_data.pos = 0
                    q.raw_data.read_as_int(11)
                    q["__extra__"] = 1
                    if p.raw_data.pos != p_pos or "__extra__" in p:
                        bad = f"{cname}: using the copy changed the original (cursor {p_pos} -> {p.raw_data.pos}, items {'changed' if '__extra__' in p else 'same'})"
                    del q["__extra__"]
                    q.raw_data.pos = q_pos
                    p.raw_data.pos = 0
                    p.raw_data.read_as_bytes(16)
                    if q.raw_data.pos != q_pos:
                        bad = f"{cname}: using the original moved the copy's cursor ({q_pos} -> {q.raw_data.pos})"
                    p.raw_data.pos = p_pos
                except Exception as e:  # noqa: BLE001
                    bad = f"{cname}: independence probe raised {e!r}"
            t.outcomes["packet-copy:" + ("ok" if not bad else "bad")] += 1
            if bad:
                t.violation({"kind": "packet-copy-differs", "copy": cname.rstrip("012345")}, {"packet_index": i, "copy": cname}, observed=bad)


def run(ctx):
    t = Tally()
    for part in (check_values, check_interference, check_packets):
        try:
            with case_alarm(600):
                part(t)
        except BaseException as e:  # noqa: BLE001 - a corrupted value class can make anything fail; keep what was found so far
            t.violation({"kind": "part-aborted", "part": part.__name__, "exc": type(e).__name__}, {"part": part.__name__}, observed=repr(e)[:300],
                        note="the library failed in an unexpected place while this part of the check was running")
    t.sample({"class": "int", "value": 0, "raw": 0.0, "operations": "comparisons, hash, truth, str/repr/format, arithmetic, bit ops, dict key, sorted, 8 copies"})
    t.sample({"packet": "parsed A packet with cursor at end", "copies": ["copy", "deepcopy", "pickle0..5"]})
    coverage = {
        "exhaustive": True,
        "bound": (f"values: {len(INTS)} ints, {len(FLOATS)} floats (signed zeros, infinities, NaN, min subnormal, max), {len(STRS)} strs, {len(BYTES)} bytes, 2 bools "
                  f"x {len(RAWS)} raw values (omitted and every falsy kind) x ~60-110 operations each x 8 copies; 6 packets (parsed clean / flagged, cursor mid-way, "
                  "cached header properties, empty) x 8 copies"),
        "rule": "one evaluation = one operation or copy compared with the built-in; distinct non-trivial = distinct (class, value, raw) triples and packet copies",
    }
    return {"level": LEVEL, "tally": t, "coverage": coverage,
            "assumptions": ["the boolean value class is int-backed: truth/str/format like bool, arithmetic like int"]}


def replay(case):
    t = Tally()
    check_values(t)
    check_packets(t)
    for v in t.violations:
        if all(v["case"].get(k) == case.get(k) for k in case):
            return v
    return None


def repro_py(case):
    return f"from space_packet_parser import common\n# case: {case!r}\n"
