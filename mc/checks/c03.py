"""C03 — Bit-cursor reads return exactly the addressed bits and advance by the width.

Kernel E-prod: (a) every buffer of 0, 1 and 2 bytes x every (p, n) with p+n <= 8*len x both reads;
(b) buffers of 3..N bytes x every (p, n) x a structured content family (constant, walking, 0xA5,
byte-index, and every filling of the 4 bits on either side of each window edge);
(c) the aligned fast path on long buffers.  Oracle: slicing of the '0'/'1' string.
"""
from __future__ import annotations

from mc.kernel import Tally, case_alarm, chunked, fan_out

PROP = "C03"
LEVEL = "exploration"


def _bits(buf: bytes) -> str:
    return "".join(format(b, "08b") for b in buf)


def _check_read(t: Tally, RPD, buf: bytes, bits: str, p: int, n: int):
    want_int = int(bits[p:p + n] or "0", 2)
    want_bytes = want_int.to_bytes((n + 7) // 8, "big")
    for kind in ("int", "bytes"):
        r = RPD(buf)
        r.pos = p
        try:
            if (p + n) % 2:   # the documented parameter name, passed by keyword
                got = r.read_as_int(nbits=n) if kind == "int" else r.read_as_bytes(nbits=n)
            else:
                got = r.read_as_int(n) if kind == "int" else r.read_as_bytes(n)
        except Exception as e:  # noqa: BLE001
            got = f"raised:{type(e).__name__}"
        t.evals += 1
        want = want_int if kind == "int" else want_bytes
        ok = (got == want and type(got) is (int if kind == "int" else bytes) and r.pos == p + n and bytes(r) == buf)
        if not ok:
            t.violation({"kind": "read-mismatch", "read": kind, "aligned": p % 8 == 0 and n % 8 == 0},
                        {"buf": buf.hex() if len(buf) <= 64 else {"len": len(buf), "head": buf[:32].hex()},
                         "pos": p, "nbits": n, "read": kind},
                        expected={"value": want if kind == "int" else want.hex(), "pos_after": p + n},
                        observed={"value": (got.hex() if isinstance(got, bytes) else got), "type": type(got).__name__,
                                  "pos_after": r.pos, "buffer_unchanged": bytes(r) == buf})


def _task_forms(task):
    """The raw packet object built from every kind of object that bytes() itself accepts - bytes, bytearray, memoryview, arrays of 1-, 2- and
    4-byte items, a cast memoryview, a list of ints, another raw packet object: it holds bytes(that object), and every (p, n) reads accordingly."""
    import array
    from space_packet_parser.packets import CCSDSPacket, RawPacketData as RPD
    t = Tally()
    base = bytes((i * 89 + 0x35) & 0xFF for i in range(8))
    forms = {"bytes": base, "bytearray": bytearray(base), "memoryview": memoryview(base), "array-B": array.array("B", base), "array-H": array.array("H", base),
             "array-I": array.array("I", base), "memoryview-cast-H": memoryview(base).cast("H"), "list-of-ints": list(base), "raw-packet-object": RPD(base),
             "array-q": array.array("q", base)}
    with case_alarm(600):
        for name, obj in forms.items():
            buf = bytes(obj)
            bits = _bits(buf)
            for via_packet in (False, True):
                def mk():
                    return CCSDSPacket(raw_data=obj).raw_data if via_packet else RPD(obj)
                for p in range(0, len(bits) + 1, 1):
                    for n in (0, 1, 3, 8, 11, 16, 24, 33, len(bits) - p):
                        if n < 0 or p + n > len(bits):
                            continue
                        want_int = int(bits[p:p + n] or "0", 2)
                        for kind in ("int", "bytes"):
                            t.evals += 1
                            try:
                                r = mk()
                                r.pos = p
                                got = r.read_as_int(n) if kind == "int" else r.read_as_bytes(n)
                                ok = got == (want_int if kind == "int" else want_int.to_bytes((n + 7) // 8, "big")) and r.pos == p + n and bytes(r) == buf
                            except Exception as e:  # noqa: BLE001
                                got, ok = f"raised:{type(e).__name__}", False
                            if not ok:
                                t.violation({"kind": "read-mismatch", "read": kind, "built_from": name},
                                            {"forms": True, "built_from": name, "via_packet": via_packet, "pos": p, "nbits": n, "read": kind, "buf": buf.hex()},
                                            observed=got.hex() if isinstance(got, bytes) else got, note="a raw packet object built from this kind of object does not read as bytes(object) does")
            t.nontrivial += 1
            t.outcomes["forms"] += 1
        # positions and widths that are integers of another kind (numpy integers, as indexes computed from arrays are): whole-byte reads, and
        # integer reads of fields within four bytes
        import numpy as np
        buf = base
        bits = _bits(buf)
        for ityp in (np.int64, np.intp):   # 64-bit indexes (narrower numpy integers overflow in their own arithmetic: not judged)
            for p in (0, 8, 16, 3, 13):
                for n in (8, 16, 24, 5, 11):
                    for kind in ("int", "bytes"):
                        if kind == "bytes" and (p % 8 or n % 8):
                            continue
                        for pa, na in ((ityp(p), n), (p, ityp(n)), (ityp(p), ityp(n))):
                            t.evals += 1
                            want_int = int(bits[p:p + n], 2)
                            try:
                                r = RPD(buf)
                                r.pos = pa
                                got = r.read_as_int(na) if kind == "int" else r.read_as_bytes(na)
                                ok = int(got) == want_int if kind == "int" else bytes(got) == want_int.to_bytes((n + 7) // 8, "big")
                                ok = ok and int(r.pos) == p + n
                                # ... and a plain read right after it on the same object
                                nxt = r.read_as_int(3)
                                ok = ok and int(nxt) == int(bits[p + n:p + n + 3], 2)
                            except Exception as e:  # noqa: BLE001
                                got, ok = f"raised:{type(e).__name__}", False
                            if not ok:
                                t.violation({"kind": "read-mismatch", "read": kind, "argument_type": ityp.__name__},
                                            {"forms": True, "built_from": "index-type:" + ityp.__name__, "via_packet": False, "pos": p, "nbits": n, "read": kind, "buf": buf.hex()},
                                            observed=str(got)[:60], note="a position / width given as a numpy integer")
    return t


def _in_thread(fn):
    """Run fn() on another thread than the one that imported the library, wait for it, and pass an escaping exception on."""
    import threading
    box = []

    def body():
        try:
            fn()
        except BaseException as e:  # noqa: BLE001
            box.append(e)
    th = threading.Thread(target=body)
    th.start()
    th.join()
    if box:
        raise box[0]


def _task_threads(task):
    """Kernel E-thread: two threads each read from their OWN raw packet object at the same time, under every interleaving of their accesses to
    the object (slicing it, reading and setting its cursor are the yield points): each read is what it is alone (nothing at module level is
    shared between reads)."""
    from space_packet_parser.packets import RawPacketData as RPD
    from mc.threadexplore import explore

    class YRPD(RPD):
        _pt = None

        def __getitem__(self, k):
            if self._pt is not None:
                self._pt()
            return super().__getitem__(k)

        @property
        def pos(self):
            if self._pt is not None:
                self._pt()
            return self.__dict__.get("_pos", 0)

        @pos.setter
        def pos(self, v):
            if self._pt is not None:
                self._pt()
            self.__dict__["_pos"] = v
    t = Tally()
    bufs = [bytes((i * 89 + 0x35) & 0xFF for i in range(6)), bytes((i * 57 + 0xC1) & 0xFF for i in range(5))]
    ops = [(0, 3, "int"), (3, 13, "int"), (5, 11, "bytes"), (8, 16, "int"), (8, 16, "bytes"), (13, 27, "int"), (1, 39, "bytes"), (40, 0, "int"), (16, 24, "bytes"),
           (7, 1, "int"), (12, 7, "bytes")]

    def read(buf, p, n, kind, point=None):
        r = YRPD(buf)
        r.pos = p
        r._pt = point
        got = r.read_as_int(n) if kind == "int" else r.read_as_bytes(n)
        r._pt = None
        return (got, r.pos)
    with case_alarm(900):
        for a in task["first"]:
            for b in range(len(ops)):
                want = (("ok", read(bufs[0], *ops[a])), ("ok", read(bufs[1], *ops[b])))

                def check(results, choices):
                    t.evals += 1
                    t.traces += 1
                    if tuple(results) != want:
                        t.violation({"kind": "concurrent-reads-interfere"}, {"threads": True, "ops": [list(ops[a]), list(ops[b])], "schedule": list(choices)},
                                    expected=str(want), observed=str(tuple(results)),
                                    note="two threads reading from two different raw packet objects: a result differs from the read alone")
                st = explore(lambda: [lambda point: read(bufs[0], *ops[a], point), lambda point: read(bufs[1], *ops[b], point)], check, bound=2, max_execs=20000)
                t.outcomes["threads"] += st["executions"]
                if st["capped"]:
                    t.caps.append("thread interleavings capped at 20000 for one pair of reads")
                t.nontrivial += 1
    return t


def _task_small(task):
    from space_packet_parser.packets import RawPacketData as RPD
    t = Tally()
    with case_alarm(600):
        # whichever thread reads: every (p, n) of one 3-byte buffer read on a worker thread (a reader used from a thread pool)
        buf0 = bytes((0xA5, 0x3C, 0x0F))
        _in_thread(lambda: [_check_read(t, RPD, buf0, _bits(buf0), p, n) for p in range(25) for n in range(25 - p)])
        for buf in task["bufs"]:
            bits = _bits(buf)
            L = len(bits)
            for p in range(L + 1):
                for n in range(L - p + 1):
                    _check_read(t, RPD, buf, bits, p, n)
                    t.outcomes[f"p%8={'0' if p % 8 == 0 else 'x'},n%8={'0' if n % 8 == 0 else 'x'},n={'0' if n == 0 else '+'}"] += 1
            t.nontrivial += 1
    return t


def _family(length: int, p: int, n: int):
    """Structured contents for a (p, n) window in a buffer of `length` bytes."""
    L = 8 * length
    yield bytes(length)
    yield b"\xff" * length
    yield bytes([0xA5] * length)
    yield bytes([0x5A] * length)
    yield bytes((i * 37 + 11) & 0xFF for i in range(length))
    # every filling of the 4 bits inside and the 4 bits outside each window edge (what a wrong mask/shift perturbs)
    base0 = 0
    base1 = (1 << L) - 1
    for edge in (p, p + n):
        lo = max(0, edge - 4)
        hi = min(L, edge + 4)
        w = hi - lo
        for base in (base0, base1):
            for fill in range(1 << w):
                v = base & ~(((1 << w) - 1) << (L - hi)) | (fill << (L - hi))
                yield v.to_bytes(length, "big")


def _task_family(task):
    from space_packet_parser.packets import RawPacketData as RPD
    t = Tally()
    length = task["length"]
    L = 8 * length
    with case_alarm(1200):
        for p in task["ps"]:
            for n in range(L - p + 1):
                seen = set()
                for buf in _family(length, p, n):
                    if buf in seen:
                        continue
                    seen.add(buf)
                    _check_read(t, RPD, buf, _bits(buf), p, n)
                t.nontrivial += 1
                t.outcomes[f"p%8={'0' if p % 8 == 0 else 'x'},n%8={'0' if n % 8 == 0 else 'x'},n={'0' if n == 0 else '+'}"] += 1
    if task["ps"] and task["ps"][0] == 3:
        t.sample({"buffer_len": length, "pos": 3, "nbits": "0..%d" % (L - 3), "contents": "constant, 0xA5/0x5A, index, all 2^8 edge fillings"})
    return t


def _task_walking(task):
    """Walking-1 / walking-0 over every bit of the buffer for every (p, n): quadratic, so small lengths only."""
    from space_packet_parser.packets import RawPacketData as RPD
    t = Tally()
    length = task["length"]
    L = 8 * length
    with case_alarm(1200):
        for p in task["ps"]:
            for n in range(L - p + 1):
                for b in range(L):
                    one = (1 << (L - 1 - b)).to_bytes(length, "big")
                    _check_read(t, RPD, one, _bits(one), p, n)
                    zero = (((1 << L) - 1) ^ (1 << (L - 1 - b))).to_bytes(length, "big")
                    _check_read(t, RPD, zero, _bits(zero), p, n)
                t.nontrivial += 1
    return t


def _task_long(task):
    from space_packet_parser.packets import RawPacketData as RPD
    t = Tally()
    with case_alarm(600):
        for length in task["lengths"]:
            buf = bytes((i * 131 + 7) & 0xFF for i in range(length))
            bits = _bits(buf)
            L = 8 * length
            for p in (0, 8, 48, 3, L - 64, L - 61):
                for n in (0, 8, 64, 4096, 7, 13, L - p, L - p - 8, L - p - 3):
                    if n < 0 or p < 0 or p + n > L:
                        continue
                    _check_read(t, RPD, buf, bits, p, n)
                    t.nontrivial += 1
                    t.outcomes["long"] += 1
    return t


def _ops_for(L):
    ps = sorted({0, 3, 8, 13, 16, L - 11, L - 8, L - 3, L} & set(range(L + 1)))
    ns = [0, 1, 5, 8, 11, 16, 24, L]
    ops = [(p, n, k) for p in ps for n in ns if p + n <= L for k in ("int", "bytes")]
    # the exact positions and widths of the seven CCSDS header fields (the object also offers them as cached properties)
    for p, n in ((0, 3), (3, 1), (4, 1), (5, 11), (16, 2), (18, 14), (32, 16)):
        if p + n <= L:
            ops += [(p, n, "int"), (p, n, "bytes")]
    return sorted(set(ops))


def _task_histories(task):
    """Kernel E-hist: ONE object, every sequence of reads with the cursor set to an arbitrary position before each read (forwards and
    backwards, first read anywhere in the buffer).  Each read must behave as on a fresh object: the object keeps nothing but the cursor."""
    from space_packet_parser.packets import RawPacketData as RPD
    import itertools
    t = Tally()
    with case_alarm(1800):
        for length in task["lengths"]:
            buf = bytes((i * 89 + 0x35) & 0xFF for i in range(length))
            bits = _bits(buf)
            L = 8 * length
            ops = _ops_for(L)
            states = set()
            for first in task["firsts"]:
                if first >= len(ops):
                    continue
                for rest in itertools.product(range(len(ops)), repeat=task["depth"] - 1):
                    hist = (first,) + rest
                    r = RPD(buf)
                    # header properties are cached on first access: touch them at different points of the history
                    touch_at = (first + sum(rest)) % (task["depth"] + 1)
                    bad = None
                    for step, oi in enumerate(hist):
                        if step == touch_at and length >= 6:
                            # every cached header property, by one route or another (str() uses them too)
                            _ = (r.header_values, r.apid, r.data_length, r.sequence_count, r.sequence_flags, r.version_number, r.type,
                                 r.secondary_header_flag, str(r))
                        pp, n, kind = ops[oi]
                        r.pos = pp
                        try:
                            got = r.read_as_int(n) if kind == "int" else r.read_as_bytes(n)
                        except Exception as e:  # noqa: BLE001
                            got = f"raised:{type(e).__name__}"
                        want_int = int(bits[pp:pp + n] or "0", 2)
                        want = want_int if kind == "int" else want_int.to_bytes((n + 7) // 8, "big")
                        t.evals += 1
                        states.add((pp + n))
                        if got != want or r.pos != pp + n or bytes(r) != buf:
                            bad = (step, got)
                            break
                    t.traces += 1
                    if bad:
                        step, got = bad
                        t.violation({"kind": "history-read-mismatch", "read": ops[hist[step]][2], "step": step},
                                    {"buf": buf.hex(), "history": [list(ops[o]) for o in hist], "failing_step": step},
                                    observed={"value": got.hex() if isinstance(got, bytes) else got, "pos_after": r.pos},
                                    note="a read on a reused object differs from the same read on a fresh object")
            t.nontrivial += 1
            t.outcomes["history"] += 1
    return t


def _task_wide_pairs(task):
    """Kernel E-hist across widths beyond a single packet: every ordered pair of reads over positions 0..7 and widths on both sides of 2**16 and
    2**17 bits (combined segment groups), each pair on a fresh object, all pairs in one process - whatever the library keeps between reads
    (on the object or in the module) must not let one shape answer for another."""
    from space_packet_parser.packets import RawPacketData as RPD
    t = Tally()
    with case_alarm(900):
        buf = bytes((i * 89 + 0xB5) & 0xFF for i in range(16400))
        bits = _bits(buf)
        ops = [(p, n) for p in range(8) for n in (1, 5, 8, 16, 65535, 65536, 65537, 65541, 65544, 65552, 131072, 131077)]
        want = {op: int(bits[op[0]:op[0] + op[1]], 2) for op in ops}
        for ai in task["firsts"]:
            for b in ops:
                hist = (ops[ai], b)
                r = RPD(buf)
                for step, (pp, n) in enumerate(hist):
                    r.pos = pp
                    try:
                        got = r.read_as_int(n)
                    except Exception as e:  # noqa: BLE001
                        got = f"raised:{type(e).__name__}"
                    t.evals += 1
                    if got != want[(pp, n)] or r.pos != pp + n:
                        t.violation({"kind": "history-read-mismatch", "read": "int", "step": step, "wide": True},
                                    {"wide_pair": [list(h) for h in hist], "failing_step": step},
                                    observed={"pos_after": r.pos, "value_bits": got.bit_length() if isinstance(got, int) else got},
                                    note="a read of a reused shape differs from the same read computed from the bits")
                        break
                t.traces += 1
        t.nontrivial += len(task["firsts"])
        t.outcomes["wide-pair-history"] += 1
    return t


def cold_start_probe():
    """Subprocess entry (fresh interpreter): for every shape (p % 8, n) the FIRST read of that shape in the process is one that runs past the
    end of a too-short buffer (it may fail: not judged); the next read of the same shape is in range and must be correct.  Whatever the library
    keeps at module level must not be poisoned by a failed read."""
    import json
    from space_packet_parser.packets import RawPacketData as RPD
    bad = []
    n_ok = 0
    long_buf = bytes((i * 89 + 0x35) & 0xFF for i in range(24))
    bits = _bits(long_buf)
    for kind in ("int", "bytes"):
        for pm in range(8):
            for n in list(range(1, 73)) + [80, 96, 127, 128]:
                short = RPD(long_buf[:max(0, (pm + n) // 8 - (1 if (pm + n) % 8 == 0 else 0))])   # one byte too short for the field
                short.pos = pm
                try:
                    short.read_as_int(n) if kind == "int" else short.read_as_bytes(n)
                except Exception:  # noqa: BLE001
                    pass
                for p in (pm, pm + 8, pm + 16):
                    if p + n > len(bits):
                        continue
                    r = RPD(long_buf)
                    r.pos = p
                    try:
                        got = r.read_as_int(n) if kind == "int" else r.read_as_bytes(n)
                    except Exception as e:  # noqa: BLE001
                        got = f"raised:{type(e).__name__}"
                    want_int = int(bits[p:p + n], 2)
                    want = want_int if kind == "int" else want_int.to_bytes((n + 7) // 8, "big")
                    if got != want or r.pos != p + n:
                        bad.append({"read": kind, "pos": p, "nbits": n, "got": got.hex() if isinstance(got, bytes) else got})
                    else:
                        n_ok += 1
    print(json.dumps({"ok": n_ok, "bad": bad[:40], "n_bad": len(bad)}))


def cold_start_probe_args():
    """Subprocess entry (fresh interpreter): the FIRST use of every (position, width) in the process is a call whose position or width is a
    number of another type that compares equal to the integer (float, Fraction, Decimal, bool for 0/1) - rejected or not, it is not judged;
    the read with the plain integers that follows must be correct."""
    import json
    from decimal import Decimal
    from fractions import Fraction
    from space_packet_parser.packets import RawPacketData as RPD
    bad = []
    n_ok = 0
    buf = bytes((i * 89 + 0x35) & 0xFF for i in range(12))
    bits = _bits(buf)
    conv = (float, Fraction, Decimal, lambda x: bool(x) if x in (0, 1) else float(x))
    i = 0
    for kind in ("int", "bytes"):
        for p in range(0, 40):
            for n in range(0, 41):
                i += 1
                c = conv[i % 4]
                for pa, na in ((c(p), n), (p, c(n)), (c(p), c(n))):
                    q = RPD(buf)
                    try:
                        q.pos = pa
                        q.read_as_int(na) if kind == "int" else q.read_as_bytes(na)
                    except Exception:  # noqa: BLE001
                        pass
                r = RPD(buf)
                r.pos = p
                try:
                    got = r.read_as_int(n) if kind == "int" else r.read_as_bytes(n)
                except Exception as e:  # noqa: BLE001
                    got = f"raised:{type(e).__name__}"
                want_int = int(bits[p:p + n] or "0", 2)
                want = want_int if kind == "int" else want_int.to_bytes((n + 7) // 8, "big")
                if got != want or type(got) is not type(want) or r.pos != p + n or type(r.pos) is not int:
                    bad.append({"read": kind, "pos": p, "nbits": n, "got": got.hex() if isinstance(got, bytes) else got, "first_use_with": c(3).__class__.__name__})
                else:
                    n_ok += 1
    print(json.dumps({"ok": n_ok, "bad": bad[:40], "n_bad": len(bad)}))


def _cold_start_args(t: Tally):
    import json
    import os
    import subprocess
    import sys
    from mc import VERIF_ROOT
    p = subprocess.run([sys.executable, "-c", "from mc.checks.c03 import cold_start_probe_args; cold_start_probe_args()"], cwd=VERIF_ROOT,
                       env=dict(os.environ, PYTHONDONTWRITEBYTECODE="1"), capture_output=True, text=True, timeout=600)
    if p.returncode != 0:
        t.violation({"kind": "cold-start-probe-failed"}, {"cold_start_args": True}, observed=p.stderr[-400:])
        return
    res = json.loads(p.stdout.strip().splitlines()[-1])
    t.evals += res["ok"] + res["n_bad"]
    t.traces += 1
    t.outcomes["cold-start-args"] += res["ok"]
    for b in res["bad"][:10]:
        t.violation({"kind": "read-after-call-with-equal-number-of-another-type", "read": b["read"]},
                    {"cold_start_args": True, "buf": bytes((i * 89 + 0x35) & 0xFF for i in range(12)).hex(), **b},
                    note="in a fresh interpreter, an integer read that follows a call with an equal float / Fraction / Decimal / bool position or width is wrong")


def _cold_start(t: Tally):
    import json
    import os
    import subprocess
    import sys
    from mc import VERIF_ROOT
    p = subprocess.run([sys.executable, "-c", "from mc.checks.c03 import cold_start_probe; cold_start_probe()"], cwd=VERIF_ROOT,
                       env=dict(os.environ, PYTHONDONTWRITEBYTECODE="1"), capture_output=True, text=True, timeout=600)
    if p.returncode != 0:
        t.violation({"kind": "cold-start-probe-failed"}, {"cold_start": True}, observed=p.stderr[-400:])
        return
    res = json.loads(p.stdout.strip().splitlines()[-1])
    t.evals += res["ok"] + res["n_bad"]
    t.traces += 1
    t.outcomes["cold-start"] += res["ok"]
    for b in res["bad"][:10]:
        t.violation({"kind": "read-after-failed-read", "read": b["read"]}, {"cold_start": True, "buf": bytes((i * 89 + 0x35) & 0xFF for i in range(24)).hex(), **b},
                    note="in a fresh interpreter, an in-range read that follows a failed over-read of the same shape (pos % 8, width) is wrong")


def run(ctx):
    import itertools
    bufs = [b""] + [bytes([a]) for a in range(256)]
    bufs += [bytes([a, b]) for a in range(256) for b in range(256)]
    two = "ALL 65536 2-byte buffers"
    tasks = [{"bufs": ch} for ch in chunked(bufs, 64)]
    tally = fan_out(_task_small, tasks, jobs=ctx.jobs, seed=ctx.seed)
    max_len = 6 if ctx.quick else 12
    ftasks = []
    for length in range(3, max_len + 1):
        for p in range(8 * length + 1):
            ftasks.append({"length": length, "ps": [p]})
    for length in (16,) if ctx.quick else (16, 24):
        for p in range(0, 8 * length + 1, 1 if not ctx.quick else 3):
            ftasks.append({"length": length, "ps": [p]})
    tally.merge(fan_out(_task_family, ftasks, jobs=ctx.jobs, seed=ctx.seed))
    wtasks = [{"length": length, "ps": [p]} for length in ((3, 4) if ctx.quick else (3, 4, 5, 6)) for p in range(8 * length + 1)]
    tally.merge(fan_out(_task_walking, wtasks, jobs=ctx.jobs, seed=ctx.seed))
    tally.merge(fan_out(_task_long, [{"lengths": [64]}, {"lengths": [4096]}, {"lengths": [65542]}, {"lengths": [70001]}, {"lengths": [140000]}], jobs=5))
    depth = 3
    nops = len(_ops_for(64))
    htasks = [{"lengths": [3, 8, 16] if ctx.quick else [3, 6, 8, 16, 32], "firsts": [f], "depth": depth} for f in range(nops)]
    if not ctx.quick:
        htasks += [{"lengths": [3], "firsts": [f], "depth": 4} for f in range(len(_ops_for(24)))]
    tally.merge(fan_out(_task_histories, htasks, jobs=ctx.jobs, seed=ctx.seed))
    tally.merge(fan_out(_task_wide_pairs, [{"firsts": list(range(a, 96, 16))} for a in range(16)], jobs=ctx.jobs, seed=ctx.seed))
    tally.merge(fan_out(_task_threads, [{"first": [a]} for a in range(11)], jobs=ctx.jobs, seed=ctx.seed))
    tally.merge(_task_forms({}))
    _cold_start(tally)
    _cold_start_args(tally)
    coverage = {
        "programs": len(bufs),
        "exhaustive": True,
        "bound": (f"(a) all buffers of 0 and 1 bytes and {two} x every (p, n), p+n <= 8*len, n=0 included, both reads; "
                  f"(b) buffers of 3..{max_len} and 16{'' if ctx.quick else ', 24'} bytes x every (p, n) x "
                  "{all-0, all-1, A5, 5A, index pattern, every filling of the 4+4 bits around each window edge over 0- and 1-background}; "
                  "walking-1/walking-0 over every bit for lengths 3..%d; (c) aligned and unaligned reads on 64, 4096, 65542-byte buffers; "
                  f"(d) histories on ONE object: every sequence of {depth} reads over an alphabet of (position, width, kind) with the cursor set freely before each read, "
                  f"buffers of {'3, 8, 16' if ctx.quick else '3, 6, 8, 16, 32 bytes, and every sequence of 4 reads on 3'} bytes, cached header properties touched at varying points; "
                  "(j) buffers of 70001 and 140000 bytes (longer than any single packet: combined segment groups) read whole and nearly whole at aligned and unaligned positions; (e) in a fresh interpreter: for every shape (pos mod 8 in 0..7, width 1..72, 80, 96, 127, 128) a failing over-read first, then in-range reads of that shape; (k) positions and widths given as numpy integers (whole-byte reads, integer reads within four bytes, a plain read right after); (i) raw packet objects built from bytes, bytearray, memoryview, arrays of 1/2/4/8-byte items, a cast memoryview, a list of ints and another raw packet object, directly and through CCSDSPacket(raw_data=...), every position x 9 widths; (g) every (p, n) of a 3-byte buffer read on a worker thread; (h) kernel E-thread: every ordered pair of 11 reads on two raw packet objects by two threads at once, every interleaving of their accesses to the objects with at most 2 preemptions; (l) every ordered pair of reads over positions 0..7 x 12 widths on both sides of 2**16 and 2**17 bits on a 16400-byte buffer; (f) in a fresh interpreter: every (position 0..39, width 0..40) first used with an equal float / Fraction / Decimal / bool position and/or width (not judged), then with the integers" % (4 if ctx.quick else 6)),
        "rule": ("one evaluation = one read (int or bytes) of one (buffer, p, n); distinct non-trivial = distinct small buffers fully "
                 "swept plus distinct (length, p, n) windows swept over the content family"),
    }
    return {"level": LEVEL, "tally": tally, "coverage": coverage,
            "assumptions": ["bit 0 is the most significant bit of byte 0 (the property's convention)"]}


def replay(case):
    from space_packet_parser.packets import RawPacketData as RPD
    if case.get("threads"):
        t = Tally()
        for a in range(11):
            t.merge(_task_threads({"first": [a]}))
        return t.violations[0] if t.violations else None
    if "wide_pair" in case:
        t = Tally()
        for a in range(16):
            t.merge(_task_wide_pairs({"firsts": list(range(a, 96, 16))}))
        return next((v for v in t.violations if v["case"]["wide_pair"] == case["wide_pair"]), t.violations[0] if t.violations else None)
    if isinstance(case.get("buf"), dict) or "buf" not in case:
        return None
    buf = bytes.fromhex(case["buf"])
    if case.get("forms"):
        t = _task_forms({})
        return next((v for v in t.violations if all(v["case"].get(k) == case.get(k) for k in ("built_from", "via_packet", "pos", "nbits", "read"))), None)
    if case.get("cold_start") or case.get("cold_start_args"):
        t = Tally()
        (_cold_start if case.get("cold_start") else _cold_start_args)(t)
        return next((v for v in t.violations if v["case"].get("pos") == case.get("pos") and v["case"].get("nbits") == case.get("nbits")
                     and v["case"].get("read") == case.get("read")), None)
    if "history" in case:
        bits = _bits(buf)
        r = RPD(buf)
        for step, (pp, n, kind) in enumerate(case["history"]):
            r.pos = pp
            try:
                got = r.read_as_int(n) if kind == "int" else r.read_as_bytes(n)
            except Exception as e:  # noqa: BLE001
                got = f"raised:{type(e).__name__}"
            want_int = int(bits[pp:pp + n] or "0", 2)
            want = want_int if kind == "int" else want_int.to_bytes((n + 7) // 8, "big")
            if got != want or r.pos != pp + n or bytes(r) != buf:
                return {"sig": {"kind": "history-read-mismatch", "read": kind, "step": step}, "case": case,
                        "observed": {"value": got.hex() if isinstance(got, bytes) else got, "pos_after": r.pos}}
        return None
    t = Tally()
    _check_read(t, RPD, buf, _bits(buf), case["pos"], case["nbits"])
    for v in t.violations:
        if v["case"]["read"] == case["read"]:
            return v
    return None


def repro_py(case):
    if "wide_pair" in case:
        return ("from space_packet_parser.packets import RawPacketData\nbuf = bytes((i * 89 + 0xB5) & 0xFF for i in range(16400))\n"
                "bits = ''.join(format(b, '08b') for b in buf)\n"
                f"for p, n in {case['wide_pair']!r}:\n    r = RawPacketData(buf); r.pos = p\n    assert r.read_as_int(n) == int(bits[p:p + n], 2), (p, n)\n")
    if "history" in case:
        return (f"from space_packet_parser.packets import RawPacketData\nr = RawPacketData(bytes.fromhex({case['buf']!r}))\n"
                f"for p, n, kind in {case['history']!r}:\n    r.pos = p\n    print(p, n, kind, r.read_as_int(n) if kind == 'int' else r.read_as_bytes(n), r.pos)\n")
    return f"""from space_packet_parser.packets import RawPacketData
buf = bytes.fromhex({case['buf']!r}); p, n = {case['pos']}, {case['nbits']}
bits = ''.join(format(b, '08b') for b in buf)
r = RawPacketData(buf); r.pos = p
got = r.read_as_{'int' if case['read'] == 'int' else 'bytes'}(n)
want = int(bits[p:p+n] or '0', 2)
assert got == ({'want' if case['read'] == 'int' else "want.to_bytes((n + 7) // 8, 'big')"}), (got, want)
assert r.pos == p + n
"""
