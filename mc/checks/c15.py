"""C15 — Serialization is deterministic and stable under repeated write/load cycles.

Kernel E-hist over the write/load operations.  For every document of the C09 family, in four
namespace configurations and built both ways: G1 = W(D), G1' = W(D), G2 = W(L(G1)), G3 = W(L(G2)),
G4 = W(L(G3)).  Oracles: G1 == G1' byte for byte; G2 == G3 == G4 (fixed point after one cycle);
G1 is well-formed for a stock lxml parser and every element lies in D's XTCE namespace (or none);
writing does not alter canon(D); W(D) is identical in two subprocesses with different PYTHONHASHSEED.
"""
from __future__ import annotations

import hashlib
import io
import json
import os
import subprocess
import sys

from mc import VERIF_ROOT
from mc.canon import canon_definition
from mc.checks import c01, c05
from mc.checks.c09 import plan_palette
from mc.kernel import Tally, case_alarm, chunked, fan_out
from mc.spec import XTCE_URI, build_objects, load_doc, ns_prefix_arg

PROP = "C15"
LEVEL = "model_checking"
STYLES = ("xtce", "XTCE", "default", "none", "xtce+extras")


def W(defn) -> bytes:
    import lxml.etree as ET
    return ET.tostring(defn.to_xml_tree(), xml_declaration=True, encoding="utf-8", pretty_print=True)


def L(xml: bytes, defn):
    from space_packet_parser.xtce.definitions import XtcePacketDefinition
    return XtcePacketDefinition.from_xtce(io.BytesIO(xml), xtce_ns_prefix=defn.xtce_ns_prefix, root_container_name=defn.root_container_name)


def check_namespace(xml: bytes, uri):
    import lxml.etree as ET
    root = ET.fromstring(xml)  # stock parser
    bad = []
    n = 0
    for el in root.iter():
        if not isinstance(el.tag, str):
            continue
        n += 1
        q = ET.QName(el)
        if q.namespace != uri:
            bad.append(el.tag)
    return n, bad


def cycle_check(t: Tally, defn, case, states):
    uri = XTCE_URI if case["style"] != "none" else None
    try:
        c0 = canon_definition(defn)
        g1 = W(defn)
        g1b = W(defn)
    except Exception as e:  # noqa: BLE001
        t.violation({"kind": "cannot-write", "exc": type(e).__name__}, case, observed=str(e)[:300])
        return None
    t.transitions += 2
    states.add(hashlib.blake2b(g1, digest_size=8).digest())
    if g1 != g1b:
        t.violation({"kind": "nondeterministic-write"}, case, note="two writes of the same definition differ")
    if canon_definition(defn) != c0:
        t.violation({"kind": "writing-modified-definition"}, case, note="canon(D) changed by writing")
    try:
        n, bad = check_namespace(g1, uri)
        if bad:
            t.violation({"kind": "element-outside-namespace"}, case, observed=bad[:5], note=f"expected namespace {uri}")
    except Exception as e:  # noqa: BLE001
        t.violation({"kind": "not-well-formed", "exc": type(e).__name__}, case, observed=str(e)[:200])
        return g1
    # write_xml (the file-writing front end) must be as deterministic and loadable as the tree it serializes
    if case.get("use_write_xml"):
        import pathlib
        from space_packet_parser.xtce.definitions import XtcePacketDefinition
        pth = pathlib.Path(VERIF_ROOT) / ".work" / f"c15_{os.getpid()}.xml"
        pth.parent.mkdir(exist_ok=True)
        try:
            defn.write_xml(pth)
            f1 = pth.read_bytes()
            defn.write_xml(pth)
            f2 = pth.read_bytes()
            t.transitions += 3
            if f1 != f2:
                t.violation({"kind": "nondeterministic-write", "via": "write_xml"}, case, note="two write_xml calls produced different files")
            d_file = XtcePacketDefinition.from_xtce(pth, xtce_ns_prefix=defn.xtce_ns_prefix, root_container_name=defn.root_container_name)
            if canon_definition(d_file) != canon_definition(L(g1, defn)):
                t.violation({"kind": "write_xml-differs-from-tree"}, case, note="the file written by write_xml loads to a different definition than to_xml_tree()")
            check_namespace(f1, uri)
        except Exception as e:  # noqa: BLE001
            t.violation({"kind": "write_xml-failed", "exc": type(e).__name__}, case, observed=str(e)[:300])
        finally:
            try:
                pth.unlink()
            except OSError:
                pass
    gs = [g1]
    cur = g1
    try:
        for _ in range(3):
            cur = W(L(cur, defn))
            t.transitions += 2
            states.add(hashlib.blake2b(cur, digest_size=8).digest())
            gs.append(cur)
    except Exception as e:  # noqa: BLE001
        t.violation({"kind": "cycle-failed", "exc": type(e).__name__, "step": len(gs)}, case, observed=str(e)[:300])
        return g1
    t.evals += 1
    t.traces += 1
    if not (gs[1] == gs[2] == gs[3]):
        import difflib
        a, b = (gs[1], gs[2]) if gs[1] != gs[2] else (gs[2], gs[3])
        d = [ln for ln in difflib.unified_diff(a.decode().splitlines(), b.decode().splitlines(), lineterm="", n=0)][:8]
        t.violation({"kind": "no-fixed-point", "first_change_at_cycle": 2 if gs[1] != gs[2] else 3}, case, observed=d,
                    note="the document keeps changing after its first write/load cycle")
    t.outcomes["G1==G2" if gs[0] == gs[1] else "G1!=G2 (normalised by the first cycle)"] += 1
    return g1


def docs_for(tier):
    items = []
    pal_docs = plan_palette(tier)
    if tier == "quick":
        pal_docs = pal_docs[::5] + pal_docs[:138]
    for kidx, shape in pal_docs:
        items.append(("palette", (tuple(kidx), shape)))
    specs = c05.all_specs("quick")
    for i, spec in enumerate(specs[:: (23 if tier == "quick" else 5)]):
        items.append(("trees", spec))
    # inheritance chains of 4 and 5 containers, listed most-derived first and base first (the loader meets every base before or after its
    # inheritors)
    for n in (4, 5):
        for cf in (True, False):
            items.append(("trees", {"n": n, "parents": tuple(range(n - 1)), "crits": tuple((3 * i + 1) % 12 for i in range(n - 1)), "abstract_bits": 1, "nest": 0,
                                    "children_first": cf, "other_names": False}))
    # the attribute-coverage families of C09 (every criteria form incl. deep AND/OR nesting and blank-significant values, string/binary
    # configurations, calibrators/enumerations/time types, optional attributes, shared names)
    from mc.checks.c09 import extra_items
    for it in extra_items(tier):
        items.append(("extra", it))
    return items


def make_doc(item):
    fam, x = item
    if fam == "palette":
        return c01.compose(x[0], x[1])
    if fam == "extra":
        from mc.checks.c09 import extra_doc
        return extra_doc(x)[0]
    return c05.make_doc(**x)


def _task(task):
    t = Tally()
    states = set()
    prevs = []
    for j, item in enumerate(task["items"]):
        try:
            with case_alarm(120):
                # the space system's name rotates: none at all, the usual one, one of five others (what is written for one definition does not
                # depend on what was written for another)
                import dataclasses
                doc_name = (None, "S", f"M{j % 5}")[(j + task["base"]) % 3]
                doc = dataclasses.replace(make_doc(item), name=doc_name)
                for style in (STYLES if (j + task["base"]) % 4 == 0 or item[0] == "trees" else (STYLES[(j + task["base"]) % 5],)) if item[0] != "extra" else (STYLES[(j + task["base"]) % 5], "xtce")[:1 + (j % 2)]:
                    for via in ("xml", "objects"):
                        case = {"family": item[0], "item": item[1], "style": style, "via": via, "use_write_xml": (j + task["base"]) % 4 == 0, "doc_name": doc_name}
                        try:
                            defn = load_doc(doc, style) if via == "xml" else build_objects(doc, style)
                        except Exception as e:  # noqa: BLE001
                            t.violation({"kind": "load-failed", "exc": type(e).__name__, "style": style, "via": via}, case, observed=str(e)[:300])
                            continue
                        g1_now = cycle_check(t, defn, case, states)
                        # writing a definition does not depend on what was loaded or written in between: the definition written before this
                        # one (another document, usually another namespace convention) is written again and must come out as it did then
                        for pv in prevs if g1_now is not None else ():
                            t.evals += 1
                            t.transitions += 1
                            try:
                                again = W(pv[0])
                            except Exception as e:  # noqa: BLE001
                                again = f"raised {type(e).__name__}".encode()
                            if again != pv[1]:
                                t.violation({"kind": "write-depends-on-other-loads", "style_then": pv[2]["style"], "style_between": style},
                                            {"first": pv[2], "then": case}, note="W(A), load and cycle B, W(A) again: the two writes of A differ")
                        if g1_now is not None:
                            # remember the latest definition loaded from XML and the latest built from objects, one of each per style
                            prevs = [pv for pv in prevs if (pv[2]["via"], pv[2]["style"]) != (via, style)][-2:] + [(defn, g1_now, case)]
                t.programs += 1
                t.nontrivial += 1
        except BaseException as e:  # noqa: BLE001
            t.violation({"kind": "check-aborted", "exc": type(e).__name__}, {"item": item}, observed=repr(e)[:300])
    t.states = len(states)
    if task["items"]:
        t.sample({"family": task["items"][0][0], "item": task["items"][0][1], "cycle": "G1=W(D), G1'=W(D), G2=W(L(G1)), G3=W(L(G2)), G4=W(L(G3))"})
    return t


def twin_docs():
    """Pairs of documents that differ in ONE thing that matters to decoding: the slope of a length adjustment, an AND group versus an OR group,
    a polynomial coefficient 1 versus 1.5, one enumeration label.  -> [(label, docA, docB)]"""
    import dataclasses
    from mc import docs
    from mc.spec import And, BinEnc, BoolExpr, Cmp, Cond, Dyn, IntEnc, Or, Param, Poly, PType
    out = []

    def one(pts, prs, ents):
        return docs.selector_doc([(pts, prs, ents)])
    for label, a, b in (("adjustment slope 8 / 16", BinEnc(Dyn("LEN", False, 8, 0)), BinEnc(Dyn("LEN", False, 16, 0))),
                        ("adjustment intercept 0 / 8", BinEnc(Dyn("LEN", False, 8, 0)), BinEnc(Dyn("LEN", False, 8, 8)))):
        mk = lambda e: one([PType("LEN_T", "Integer", IntEnc(8)), PType("B_T", "Binary", e)], [Param("LEN", "LEN_T"), Param("B", "B_T")], [("p", "LEN"), ("p", "B")])  # noqa: E731
        out.append((label, mk(a), mk(b)))
    conds = (Cond("PKT_APID", "==", right_value="1", right_cal=False), Cond("TYPE", "==", right_value="0", right_cal=False))
    for label, ga, gb in (("AND group / OR group", And(conds, ()), Or(conds, ())),):
        mk = lambda g: one([PType("U_T", "Integer", IntEnc(8, ctx_cals=()))], [Param("U", "U_T")], [("p", "U")])  # noqa: E731
        da, db = mk(ga), mk(gb)
        # the group is the restriction criterion of the one packet container
        ca = [dataclasses.replace(c, criteria=(BoolExpr(ga),)) if c.base else c for c in da.containers]
        cb = [dataclasses.replace(c, criteria=(BoolExpr(gb),)) if c.base else c for c in db.containers]
        out.append((label, dataclasses.replace(da, containers=tuple(ca)), dataclasses.replace(db, containers=tuple(cb))))
    mkp = lambda p: one([PType("U_T", "Integer", IntEnc(8, default_cal=p))], [Param("U", "U_T")], [("p", "U")])  # noqa: E731
    out.append(("coefficient 1 / 1.5", mkp(Poly(((1.0, 1),))), mkp(Poly(((1.5, 1),)))))
    mke = lambda lab: one([PType("E_T", "Enumerated", IntEnc(8), enum=((0, "OFF"), (1, lab)))], [Param("E", "E_T")], [("p", "E")])  # noqa: E731
    out.append(("enumeration label", mke("ON"), mke("RUN")))
    return out


def check_twins(t: Tally):
    """write_xml(path) puts THIS definition into the file, whatever the file held before - in particular a near twin of it."""
    import pathlib
    for label, da, db in twin_docs():
        for via in ("xml", "objects"):
            for order in ((da, db), (db, da)):
                case = {"twins": label, "via": via, "order": "A then B" if order[0] is da else "B then A"}
                pth = pathlib.Path(VERIF_ROOT) / ".work" / f"c15_twins_{os.getpid()}.xml"
                fresh = pathlib.Path(VERIF_ROOT) / ".work" / f"c15_twins_{os.getpid()}_fresh.xml"
                pth.parent.mkdir(exist_ok=True)
                t.evals += 1
                t.transitions += 3
                try:
                    first, second = [(load_doc(d) if via == "xml" else build_objects(d)) for d in order]
                    first.write_xml(pth)
                    second.write_xml(pth)
                    second.write_xml(fresh)
                    if pth.read_bytes() != fresh.read_bytes():
                        t.violation({"kind": "write-depends-on-what-the-file-held"}, case,
                                    note="writing a definition over a file that holds a near twin of it does not give the file a fresh path gets")
                except Exception as e:  # noqa: BLE001
                    t.violation({"kind": "write_xml-failed", "exc": type(e).__name__, "twins": True}, case, observed=str(e)[:300])
                finally:
                    for q in (pth, fresh):
                        try:
                            q.unlink()
                        except OSError:
                            pass
                t.nontrivial += 1


def emit_digests(tier):
    """Subprocess entry: print {index: sha of W(D)} for the cross-process determinism comparison."""
    import logging
    logging.disable(logging.CRITICAL)
    items = docs_for(tier)[:: (9 if tier == "quick" else 4)]
    out = {}
    for i, item in enumerate(items):
        doc = make_doc(item)
        for via in ("xml", "objects"):
            style = STYLES[i % 5]
            try:
                defn = load_doc(doc, style) if via == "xml" else build_objects(doc, style)
                out[f"{i}:{via}:{style}"] = hashlib.sha256(W(defn)).hexdigest()
            except Exception as e:  # noqa: BLE001
                out[f"{i}:{via}:{style}"] = f"error:{type(e).__name__}"
    print(json.dumps(out))


def cross_process(t: Tally, tier):
    res = []
    for seed in ("1", "424242"):
        env = dict(os.environ, PYTHONHASHSEED=seed, PYTHONDONTWRITEBYTECODE="1")
        p = subprocess.run([sys.executable, "-c", f"from mc.checks.c15 import emit_digests; emit_digests({tier!r})"],
                           cwd=VERIF_ROOT, env=env, capture_output=True, text=True, timeout=1500)
        if p.returncode != 0:
            t.violation({"kind": "subprocess-failed"}, {"seed": seed}, observed=p.stderr[-500:])
            return
        res.append(json.loads(p.stdout.strip().splitlines()[-1]))
    a, b = res
    t.evals += len(a)
    t.transitions += 2 * len(a)
    diff = [k for k in a if a[k] != b.get(k)]
    t.outcomes["cross-process-identical" if not diff else "cross-process-differs"] += len(a)
    if diff:
        t.violation({"kind": "hash-seed-dependent-output"}, {"keys": diff[:10]}, note="W(D) differs between interpreters with different PYTHONHASHSEED")


def run(ctx):
    items = docs_for(ctx.tier)
    # the attribute-coverage documents are the big ones: they go in small tasks that start first
    heavy = [it for it in items if it[0] == "extra"]
    light = [it for it in items if it[0] != "extra"]
    tasks, base = [], 0
    for ch in chunked(heavy, 6) + chunked(light, 48):
        tasks.append({"items": ch, "base": base})
        base += len(ch)
    tally = fan_out(_task, tasks, jobs=ctx.jobs, seed=ctx.seed)
    cross_process(tally, ctx.tier)
    check_twins(tally)
    coverage = {
        "states": tally.states,
        "transitions": tally.transitions,
        "traces_validated_against_impl": tally.traces,
        "programs": tally.programs,
        "exhaustive": True,
        "bound": (f"{len(items)} documents of the C09 family (palette kinds alone / ordered pairs, container trees, the attribute-coverage families) x namespace configurations "
                  "{prefix xtce, upper-case prefix XTCE, default namespace, none} and the XTCE prefix among five unrelated namespace declarations (all five for every fourth document and all trees, one rotating otherwise) x "
                  "{loaded from XML, built from objects}; space system names rotating through none / the usual one / five others; 3 write/load cycles each; the last definitions (one per namespace convention and origin, up to three) are written once more after every later document was loaded and cycled; a sample re-serialized in two subprocesses with different PYTHONHASHSEED; 5 pairs of near-twin definitions written over each other's file with write_xml"),
        "rule": ("one evaluation = one document/config taken through G1..G4; states = distinct serializations reached; transitions = write and load "
                 "steps; traces = complete cycles compared"),
    }
    return {"level": LEVEL, "tally": tally, "coverage": coverage,
            "assumptions": ["header date fixed in every document", "stock lxml parser defines well-formedness"]}


def _rebuild(case):
    import dataclasses
    item = (case["family"], case["item"])
    if case["family"] == "palette":
        item = ("palette", (tuple(case["item"][0]), case["item"][1]))
    elif case["family"] == "extra":
        it = case["item"]
        item = ("extra", (it[0], tuple(it[1]) if isinstance(it[1], list) else it[1]))
    else:
        spec = dict(case["item"])
        spec["parents"] = tuple(spec["parents"])
        spec["crits"] = tuple(spec["crits"])
        item = ("trees", spec)
    doc = make_doc(item)
    if "doc_name" in case:
        doc = dataclasses.replace(doc, name=case["doc_name"])
    return load_doc(doc, case["style"]) if case["via"] == "xml" else build_objects(doc, case["style"])


def replay(case):
    t = Tally()
    if "twins" in case:
        check_twins(t)
        return next((v for v in t.violations if all(v["case"].get(k) == case.get(k) for k in ("twins", "via", "order"))), None)
    if "first" in case:
        # W(A), load and cycle B, W(A) again
        a = _rebuild(case["first"])
        g1 = W(a)
        cycle_check(t, _rebuild(case["then"]), case["then"], set())
        if W(a) != g1:
            return {"sig": {"kind": "write-depends-on-other-loads", "style_then": case["first"]["style"], "style_between": case["then"]["style"]}, "case": case}
        return t.violations[0] if t.violations else None
    cycle_check(t, _rebuild(case), case, set())
    return t.violations[0] if t.violations else None


def repro_py(case):
    return f"# {case!r}\n# ./check C15 --replay <this file> rebuilds the document and repeats the write/load cycles\n"
