"""C07 — String and binary fields, including computed lengths, decode as documented.

E-prod end to end.  Variant layout: [PAD offset][LEN u8][LENC u8 (calibrated 2x - 2: raw 1 is a calibrated length of 0)][LENH u8 (calibrated 0.5x)][SEL u2 + 6 pad][FIELD][SENT u8].
Strings: charsets x delimiting {whole buffer, termination character (two choices), leading size 3/8/16}
x length {fixed, discrete lookup, dynamic reference raw/calibrated with linear adjustment} x every
content over a 5-symbol alphabet for buffers of <= 4 code units.  Binary: every length 0..40 bits.
"""
from __future__ import annotations

import itertools

from mc import docs
from mc.kernel import Tally, case_alarm, fan_out
from mc.observe import compare_outcome, parse_one
from mc.ref.interp import codec_for, decode_packet, unit_width
from mc.spec import (BinEnc, Cmp, Dyn, Fixed, IntEnc, Lookup, Param, Poly, PType, StrEnc, build_objects, load_doc)

PROP = "C07"
LEVEL = "exploration"

CHARSETS = [("US-ASCII", None), ("ISO-8859-1", None), ("Windows-1252", None), ("UTF-8", None),
            ("UTF-16BE", None), ("UTF-16LE", None), ("UTF-32BE", None), ("UTF-32LE", None),
            ("UTF-16", "mostSignificantByteFirst"), ("UTF-16", "leastSignificantByteFirst"),
            ("UTF-32", "mostSignificantByteFirst"), ("UTF-32", "leastSignificantByteFirst")]

ADJUSTMENTS = [(8, 0), (8, 8), (1, 0), (1, -8), None, (8, 16)]   # (8, 16) on the calibrated LENC: the reference is -2 for raw 0 and the length 0 bits


def _codec(cs, bo):
    return codec_for(StrEnc(Fixed(8), cs, bo))


ALPHABET = 0  # set per task: 0 = the basic alphabet, 1 = the Unicode corner cases (BOM, astral characters, lone surrogates, invalid sequences)


def symbols(cs, bo, term_hex):
    codec = _codec(cs, bo)
    u = unit_width(codec)
    A = "A".encode(codec)
    X = "X".encode(codec)
    NUL = "\0".encode(codec)
    if ALPHABET == 1:
        A = "\n".encode(codec)   # in the corner alphabet the ordinary character is a line feed (a character like any other, byte 0x0A)
        if codec == "utf-8":
            return [A, X, NUL, "\U0001F600".encode(codec), b"\xc0\x80", "\ufeff".encode(codec)], u   # astral char, overlong NUL (invalid), BOM
        if u == 1:
            return [A, X, NUL, b"\x7f", b"\xff", b"\x80"], u
        if u == 2:
            hi = b"\xd8\x3d" if codec.endswith("be") else b"\x3d\xd8"                                   # a lone high surrogate
            return [A, X, NUL, "\ufeff".encode(codec), "\U0001F600".encode(codec), hi], u
        bad = b"\x00\x11\x00\x00" if codec.endswith("be") else b"\x00\x00\x11\x00"               # beyond U+10FFFF
        return [A, X, NUL, "\ufeff".encode(codec), "\U0001F600".encode(codec), bad], u
    if u == 1:
        if codec == "utf-8":
            syms = [A, X, NUL, "é".encode(codec), b"\xa9"]  # 2-byte character and a lone continuation byte
        else:
            syms = [A, X, NUL, b"\xe9", b"\x81"]  # 0x81 is undefined in cp1252, 0xe9/0x81 are invalid ASCII
    else:
        syms = [A, X, NUL, "é".encode(codec), "堀".encode(codec)]  # U+5800 next to itself contains X's bytes misaligned
    return syms, u


def contents(cs, bo, L, max_units):
    """All byte contents for a buffer of L bits: symbol sequences filling the whole code units, remaining bits 0s / 1s."""
    syms, u = symbols(cs, bo, None)
    nbytes = L // 8
    rem_bits = L % 8
    nunits = nbytes // u
    tail_bytes = nbytes - nunits * u
    if nunits > max_units:
        # too many units for the full product: first max_units positions vary, rest is 'A' (or NUL) filled
        seqs = []
        for fill in (syms[0], syms[2]):
            for head in _fill(syms, max_units * u, u):
                body = head + fill * ((nunits * u - len(head)) // len(fill))
                if len(body) == nunits * u:
                    seqs.append(body)
    else:
        seqs = list(_fill(syms, nunits * u, u))
    out = []
    for body in seqs:
        for tb in ((b"\x00", b"\xff") if tail_bytes else (b"",)):
            b = body + tb * tail_bytes
            bits = "".join(format(x, "08b") for x in b)
            for rb in (("0", "1") if rem_bits else ("",)):
                out.append(bits + rb * rem_bits)
    return sorted(set(out))


def _fill(syms, nbytes, u):
    if nbytes == 0:
        yield b""
        return
    for s in syms:
        if len(s) <= nbytes:
            for rest in _fill(syms, nbytes - len(s), u):
                yield s + rest


def term_hexes(cs, bo):
    codec = _codec(cs, bo)
    out = ["\0".encode(codec).hex(), "X".encode(codec).hex()]
    # one character that takes several code units: found wherever it starts on a code-unit boundary, not only at multiples of its own length
    if codec == "utf-8":
        out.append("\u00e9".encode(codec).hex())
    elif unit_width(codec) == 2:
        out.append("\U0001F600".encode(codec).hex())
    return out


def string_variants(cs, bo, tier):
    """-> list of (label, StrEnc, kind) ; kind tells how the packet family is generated."""
    codec = _codec(cs, bo)
    u = unit_width(codec)
    fixed_lengths = {1: [8, 12, 16, 24, 32, 64, 136, 320], 2: [16, 24, 32, 40, 128, 336], 4: [32, 40, 64, 256]}[u]
    delims = [("whole", None, None)] + [("term" + ("NUL", "X", "WIDE")[i], th, None) for i, th in enumerate(term_hexes(cs, bo))] + \
             [("lead3", None, 3), ("lead8", None, 8), ("lead16", None, 16)]
    out = []
    for dname, term, lead in delims:
        extra = lead or 0
        for L in fixed_lengths:
            if L > 64 and tier == "quick" and dname in ("termX", "termWIDE", "lead3"):
                continue
            if L + 0 <= extra:
                continue
            out.append((f"str:{dname}:fixed{L + extra if lead else L}", StrEnc(Fixed(L + extra if lead else L), cs, bo, term, lead), ("fixed", L + extra if lead else L)))
        lk = Lookup((((Cmp("SEL", "==", "0"),), 16.0 + extra), ((Cmp("SEL", "==", "1"), Cmp("LEN", ">=", "0")), 32.0 + extra),
                     ((Cmp("SEL", "==", "2"),), 0.0)))
        out.append((f"str:{dname}:lookup", StrEnc(lk, cs, bo, term, lead), ("lookup", (16 + extra, 32 + extra, 0, 0))))
        # overlapping criteria: the FIRST matching entry wins, whatever was decoded before (packets come in the order SEL 0,1,2,3)
        lko = Lookup((((Cmp("SEL", "==", "3"),), 32.0 + extra), ((Cmp("SEL", ">=", "1"),), 16.0 + extra), ((Cmp("SEL", ">=", "0"), Cmp("LEN", "<=", "255")), 0.0)))
        out.append((f"str:{dname}:lookup-overlap", StrEnc(lko, cs, bo, term, lead), ("lookup", (0, 16 + extra, 16 + extra, 32 + extra))))
        # the first matching entry wins and later entries are not consulted: here the second entry refers to a parameter that is decoded
        # only AFTER this field (evaluating it would fail)
        lkl = Lookup((((Cmp("SEL", "==", "0"),), 16.0 + extra), ((Cmp("SENT", "==", "1"),), 32.0 + extra)))
        out.append((f"str:{dname}:lookup-late-error", StrEnc(lkl, cs, bo, term, lead), ("lookup", (16 + extra, 0, 0, 0))))
        # a matching entry of length 0 (text absent in this mode) BEFORE a catch-all entry: 0 is a length like any other
        lkz = Lookup((((Cmp("SEL", "==", "1"),), 0.0), ((Cmp("SEL", ">=", "0"),), 16.0 + extra)))
        out.append((f"str:{dname}:lookup-zero-then-catch-all", StrEnc(lkz, cs, bo, term, lead), ("lookup", (16 + extra, 0, 16 + extra, 16 + extra))))
        # inside ONE entry: a comparison that is false guards a later one that cannot be evaluated (the entry simply does not match)
        lkg = Lookup((((Cmp("SEL", "==", "3"), Cmp("SENT", "==", "1")), 32.0 + extra), ((Cmp("SEL", "<=", "2"),), 16.0 + extra)))
        out.append((f"str:{dname}:lookup-guarded", StrEnc(lkg, cs, bo, term, lead), ("lookup", (16 + extra, 16 + extra, 16 + extra, 0))))
        for adj in ADJUSTMENTS:
            for ref, use_cal in (("LEN", True), ("LEN", False), ("LENC", True), ("LENC", False)):
                if tier == "quick" and ref == "LENC" and adj in ((8, 8), (1, -8)):
                    continue
                if adj == (8, 16) and not (ref == "LENC" and use_cal and dname == "whole"):
                    continue
                d = Dyn(ref, use_cal, adj[0] if adj else None, adj[1] if adj else None)
                out.append((f"str:{dname}:dyn:{ref}:{'cal' if use_cal else 'raw'}:{adj}", StrEnc(d, cs, bo, term, lead), ("dyn", ref, use_cal, adj, extra)))
        # a reference whose calibrated value is fractional (0.5 x raw): the length is slope * value + intercept, computed on the value as it is
        for adj in ((16 * u, 0), (16 * u, 8 * u), (8 * u, 0)):
            d = Dyn("LENH", True, adj[0], adj[1])
            out.append((f"str:{dname}:dyn:LENH:cal:{adj}", StrEnc(d, cs, bo, term, lead), ("dyn", "LENH", True, adj, extra)))
        if dname == "whole":
            # the field is the LAST thing in the packet (no sentinel after it)
            out.append((f"str:{dname}:dyn:LEN:raw:(8, 0):last", StrEnc(Dyn("LEN", False, 8 * u, 0), cs, bo, term, lead), ("dyn", "LEN", False, (8 * u, 0), extra)))
    return out


def binary_variants(tier):
    out = []
    for L in range(1, 41):
        out.append((f"bin:fixed{L}", BinEnc(Fixed(L)), ("fixed", L)))
    lk = Lookup((((Cmp("SEL", "==", "0"),), 12.0), ((Cmp("SEL", "==", "1"), Cmp("LEN", ">=", "0")), 16.0), ((Cmp("SEL", "==", "2"),), 0.0)))
    out.append(("bin:lookup", BinEnc(lk), ("lookup", (12, 16, 0, 0))))
    lko = Lookup((((Cmp("SEL", "==", "3"),), 32.0), ((Cmp("SEL", ">=", "1"),), 8.0), ((Cmp("SEL", ">=", "0"), Cmp("LEN", "<=", "255")), 20.0)))
    out.append(("bin:lookup-overlap", BinEnc(lko), ("lookup", (20, 8, 8, 32))))
    lkl = Lookup((((Cmp("SEL", "==", "0"),), 12.0), ((Cmp("SENT", "==", "1"),), 32.0)))
    out.append(("bin:lookup-late-error", BinEnc(lkl), ("lookup", (12, 0, 0, 0))))
    lkz = Lookup((((Cmp("SEL", "==", "1"),), 0.0), ((Cmp("SEL", ">=", "0"),), 12.0)))
    out.append(("bin:lookup-zero-then-catch-all", BinEnc(lkz), ("lookup", (12, 0, 12, 12))))
    lkg = Lookup((((Cmp("SEL", "==", "3"), Cmp("SENT", "==", "1")), 32.0), ((Cmp("SEL", "<=", "2"),), 20.0)))
    out.append(("bin:lookup-guarded", BinEnc(lkg), ("lookup", (20, 20, 20, 0))))
    for adj in ADJUSTMENTS:
        for ref, use_cal in (("LEN", True), ("LEN", False), ("LENC", True), ("LENC", False)):
            if adj == (8, 16) and not (ref == "LENC" and use_cal):
                continue
            d = Dyn(ref, use_cal, adj[0] if adj else None, adj[1] if adj else None)
            out.append((f"bin:dyn:{ref}:{'cal' if use_cal else 'raw'}:{adj}", BinEnc(d), ("dyn", ref, use_cal, adj, 0)))
    for adj in ((8, 0), (16, 8), (4, 0), (2, 1), (1, 0), None):
        d = Dyn("LENH", True, adj[0] if adj else None, adj[1] if adj else None)
        out.append((f"bin:dyn:LENH:cal:{adj}", BinEnc(d), ("dyn", "LENH", True, adj, 0)))
    # lengths that are almost whole numbers (rounding noise of a calibration): not a whole number of bits, so not a length
    lka = Lookup((((Cmp("SEL", "==", "0"),), 23.9999999999), ((Cmp("SEL", "==", "1"),), 24.0000000001), ((Cmp("SEL", "==", "2"),), 119.99999999999999),
                  ((Cmp("SEL", ">=", "3"),), 24.0)))
    out.append(("bin:lookup-almost-whole-numbers", BinEnc(lka), ("lookup", (-1, -1, -1, 24))))
    # the field is the LAST thing in the packet (no sentinel after it): a length of 0 then ends flush with the packet
    out.append(("bin:dyn:LEN:raw:(8, 0):last", BinEnc(Dyn("LEN", False, 8, 0)), ("dyn", "LEN", False, (8, 0), 0)))
    out.append(("bin:lookup-zero-then-catch-all:last", BinEnc(lkz), ("lookup", (12, 0, 12, 12))))
    return out


def len_values(adj, use_cal, ref):
    """Raw LEN values to try (the referenced value must give lengths in 0..40 bits, plus one negative / odd case)."""
    if adj is None or adj[0] == 1:
        vals = [0, 1, 7, 8, 9, 12, 16, 17, 24, 32, 40]
    else:
        vals = [0, 1, 2, 3, 4, 5]
    if ref == "LENC" and use_cal:
        vals = sorted(set(v // 2 + 1 for v in vals) | {v + 1 for v in vals if v <= 4})
        if adj and adj[1] >= 16:
            vals = [0] + vals   # a negative reference (-2) whose adjusted length is not negative
    if ref == "LENH":
        vals = list(range(0, 11)) if adj and adj[0] <= 8 else list(range(0, 6)) if adj else [0, 1, 2, 3, 16, 17, 64]
    return vals


def length_from(kind, len_raw, sel):
    """Harness-side prediction of the buffer length, only used to build packets that are long enough."""
    if kind[0] == "fixed":
        return kind[1]
    if kind[0] == "lookup":
        return kind[1][sel]
    _, ref, use_cal, adj, extra = kind
    v = (2 * len_raw - 2 if (ref == "LENC" and use_cal) else len_raw)
    if ref == "LENH":
        from fractions import Fraction
        v = Fraction(len_raw, 2)
        if adj:
            v = adj[0] * v + adj[1]
        return int(v) if v.denominator == 1 else -1   # non-integral: no sensible buffer, any packet will do
    if adj:
        v = adj[0] * v + adj[1]
    return v


def mk_doc(variants_chunk, offset, kind_of_type):
    specs = []
    for j, (label, enc, kind) in enumerate(variants_chunk):
        pt = PType(f"T{j}", kind_of_type, enc)
        pts = [pt, PType("LEN_T", "Integer", IntEnc(8)), PType("LENC_T", "Integer", IntEnc(8, default_cal=Poly(((-2.0, 0), (2.0, 1))))),
               PType("LENH_T", "Integer", IntEnc(8, default_cal=Poly(((0.5, 1),)))), PType("SEL_T", "Integer", IntEnc(2)), PType("P6_T", "Integer", IntEnc(6)), PType("SENT_T", "Integer", IntEnc(8))]
        prs = [Param("LEN", "LEN_T"), Param("LENC", "LENC_T"), Param("LENH", "LENH_T"), Param("SEL", "SEL_T"), Param("P6", "P6_T"), Param(f"F_{j}", f"T{j}"),
               Param("SENT", "SENT_T")]
        ents = []
        if offset:
            pts.append(docs.pad_type(offset))
            prs.append(Param("PAD", f"PAD{offset}_T"))
            ents.append(("p", "PAD"))
        ents += [("p", "LEN"), ("p", "LENC"), ("p", "LENH"), ("p", "SEL"), ("p", "P6"), ("p", f"F_{j}")] + ([] if label.endswith(":last") else [("p", "SENT")])
        specs.append((pts, prs, ents))
    return docs.selector_doc(specs)


def packets_for(label, enc, kind, cs, bo, offset, max_units, is_string):
    """Yields (sel, len_raw, field_bits) triples."""
    if kind[0] == "fixed":
        L = kind[1]
        for fb in field_contents(enc, cs, bo, L, max_units, is_string):
            yield 0, L & 0xFF, fb
    elif kind[0] == "lookup":
        for sel in (0, 1, 2, 3, 1, 3, 0):
            L = length_from(kind, 0, sel)
            if L < 0:
                yield sel, 5, "01" * 80   # no sensible length: plenty of data follows, so that nothing fails merely for lack of it
                continue
            conts = list(field_contents(enc, cs, bo, L, min(max_units, 2), is_string))
            for fb in conts[:: max(1, len(conts) // 40)]:
                yield sel, 5, fb
    else:
        _, ref, use_cal, adj, extra = kind
        for lv in len_values(adj, use_cal, ref):
            L = length_from(kind, lv, 0)
            if L < 0 or L > 80:
                yield 0, lv, "01" * 12
                continue
            conts = list(field_contents(enc, cs, bo, L, min(max_units, 2), is_string))
            for fb in conts[:: max(1, len(conts) // 12)]:
                yield 0, lv, fb


def field_contents(enc, cs, bo, L, max_units, is_string):
    if L <= 0:
        yield ""
        return
    if not is_string:
        ones = "1" * L
        pats = {"0" * L, ones, ("10" * L)[:L], ("01" * L)[:L], format(int.from_bytes(bytes(range(1, 12)), "big") >> 8, "b").zfill(L)[-L:]}
        for b in range(0, L, max(1, L // 6)):
            pats.add("0" * b + "1" + "0" * (L - b - 1))
        yield from sorted(pats)
        return
    lead = enc.lead
    if lead:
        body_L = L - lead
        if body_L < 0:
            yield "1" * L
            return
        tags = sorted(set([0, 8, 16, 24, 32, 40, 7, 12, body_L, body_L + 8, (1 << lead) - 1, body_L - 8, body_L // 16 * 8, 248, 256, 264]))
        tags = [tg for tg in tags if 0 <= tg < (1 << lead)]
        bodies = contents(cs, bo, body_L, max_units) if body_L else [""]
        step = max(1, len(bodies) // (25 if lead != 8 else 60))
        for tg in tags:
            for body in bodies[::step]:
                yield format(tg, f"0{lead}b") + body
        return
    yield from contents(cs, bo, L, max_units)


def _task(task):
    t = Tally()
    tier, offset = task["tier"], task["offset"]
    is_string = task["family"] == "string"
    if is_string:
        cs, bo = task["charset"]
        allv = string_variants(cs, bo, tier)
    else:
        cs, bo = None, None
        allv = binary_variants(tier)
    vs = allv
    doc = mk_doc(vs, offset, "String" if is_string else "Binary")
    try:
        with case_alarm(120):
            defn = load_doc(doc) if task["via"] == "xml" else build_objects(doc)
    except BaseException as e:  # noqa: BLE001
        t.violation({"kind": "load-failed", "exc": type(e).__name__, "via": task["via"]},
                    {"family": task["family"], "charset": task.get("charset"), "offset": offset, "via": task["via"]}, observed=str(e)[:300])
        return t
    max_units = 3 if tier == "quick" else 4
    global ALPHABET
    ALPHABET = task.get("alphabet", 0) if is_string else 0
    if ALPHABET == 1:
        max_units -= 1
    for j, (label, enc, kind) in enumerate(vs):
        if task.get("only") is not None and j != task["only"]:
            continue
        n = 0
        try:
            with case_alarm(600):
                for sel, lv, fb in packets_for(label, enc, kind, cs, bo, offset, max_units, is_string):
                    bits = "1" * offset + format(lv & 0xFF, "08b") * 3 + format(sel, "02b") + "000000" + fb + ("" if label.endswith(":last") else "10100101")
                    bits += "0" * ((-len(bits)) % 8)
                    pkt = docs.packet_for(j, bits)
                    want = decode_packet(doc, pkt)
                    obs = parse_one(defn, pkt)
                    t.evals += 1
                    n += 1
                    t.outcomes[f"{label.split(':')[0]}:{label.split(':')[1] if is_string else kind[0]}:{want.kind}"] += 1
                    why = compare_outcome(want, obs)
                    if why:
                        sig = {"kind": "field-mismatch", "family": task["family"], "lenspec": kind[0], "want": want.kind, "got": obs[0],
                               "exc": obs[1][0] if obs[0] == "raised" else None}
                        if is_string:
                            sig.update({"delim": label.split(":")[1], "charset": cs, "byte_order": bo})
                            if want.kind == "parsed" and obs[0] == "parsed" and enc.term:
                                sig["what"] = "terminator"
                        else:
                            sig["why"] = want.why if want.kind == "raised" else None
                        t.violation(sig, {"family": task["family"], "charset": [cs, bo], "offset": offset, "variant": j, "label": label,
                                          "packet": pkt.hex(), "via": task["via"], "tier": tier, "alphabet": ALPHABET},
                                    expected=[(x.name, x.value, x.raw) for x in want.items[7:]] if want.kind == "parsed" else (want.kind, want.why),
                                    observed=obs[1][7:] if obs[0] == "parsed" else obs[:3], note=why)
        except BaseException as e:  # noqa: BLE001
            t.violation({"kind": "sweep-aborted", "exc": type(e).__name__}, {"label": label, "offset": offset}, observed=str(e)[:200])
        t.nontrivial += 1
        t.programs += 1
    if offset == 3 and task["via"] == "xml":
        t.sample({"family": task["family"], "charset": task.get("charset"), "offset_bits": offset, "variants": len(vs),
                  "example_variant": vs[len(vs) // 2][0]})
    return t


STR_EDITS = [(("UTF-8", None), ("ISO-8859-1", None)), (("ISO-8859-1", None), ("Windows-1252", None)), (("US-ASCII", None), ("UTF-8", None)),
             (("UTF-16BE", None), ("UTF-16LE", None)), (("UTF-16", "mostSignificantByteFirst"), ("UTF-16", "leastSignificantByteFirst")),
             (("UTF-32", "leastSignificantByteFirst"), ("UTF-32", "mostSignificantByteFirst")), (("UTF-16LE", None), ("UTF-16", "mostSignificantByteFirst")),
             (("UTF-8", None), ("UTF-16BE", None))]


def _task_edits(task):
    """The character set / byte order of a string encoding of a loaded (and used) definition corrected through the public attributes
    `encoding` and `byte_order`: the next packets are decoded as the attributes say then.  Fixed 32-bit buffers, with and without a size tag."""
    import dataclasses
    import warnings
    t = Tally()
    offset = task["offset"]
    bodies = ["01001000011010010010000100100001", "00000000010010000000000001101001", "01001000000000000110100100000000", "11000011101010010100000101000010",
              "11111111111111100100100000000000", "00000000000000000000000001001000", "10000000100101011110100110100100", "01000001010000100100001101000100"]
    for (old, new) in STR_EDITS:
        for lead in (None, 8):
            for use_first in (True, False):
                case = {"attr_edits": True, "old": list(old), "new": list(new), "lead": lead, "offset": offset, "decoded_before_edit": use_first}
                try:
                    with case_alarm(60), warnings.catch_warnings():
                        warnings.simplefilter("ignore")
                        L = 32 + (lead or 0)
                        e_old = StrEnc(Fixed(L), old[0], old[1], None, lead)
                        e_new = StrEnc(Fixed(L), new[0], new[1], None, lead)
                        doc = mk_doc([("edit", e_old, ("fixed", L))], offset, "String")
                        doc2 = dataclasses.replace(doc, ptypes=tuple(PType("T0", "String", e_new) if p.name == "T0" else p for p in doc.ptypes))
                        defn = load_doc(doc)

                        def pkt_for(body):
                            bits = "1" * offset + "00000101" * 3 + "00" + "000000" + (format(32, "08b") if lead else "") + body + "10100101"
                            bits += "0" * ((-len(bits)) % 8)
                            return docs.packet_for(0, bits)
                        if use_first:
                            parse_one(defn, pkt_for(bodies[0]))
                        enc = defn.parameter_types["T0"].encoding
                        enc.encoding = new[0]
                        # suffixed names carry their own byte order; the attribute is kept in step with them, as the constructor does
                        enc.byte_order = new[1] or ("leastSignificantByteFirst" if "LE" in new[0] else "mostSignificantByteFirst" if "BE" in new[0] else None)
                        for body in bodies:
                            pkt = pkt_for(body)
                            why = compare_outcome(decode_packet(doc2, pkt), parse_one(defn, pkt))
                            t.evals += 1
                            if why:
                                t.violation({"kind": "field-mismatch", "family": "string", "after": "encoding attributes edited on the loaded definition"},
                                            {**case, "packet": pkt.hex()}, note=why)
                                break
                except BaseException as e:  # noqa: BLE001
                    t.violation({"kind": "sweep-aborted", "exc": type(e).__name__, "part": "attribute-edits"}, case, observed=str(e)[:200])
                t.nontrivial += 1
    return t


def _task_long(task):
    """Long fields (hundreds to tens of thousands of bytes): fixed, and taken from a 16-bit length parameter; whole buffers, terminators near
    the start / in the middle / at the very end, leading size tags; aligned and unaligned."""
    from mc.spec import Container, Doc, Cmp, header_entries, header_params, header_ptypes
    t = Tally()
    offset = task["offset"]
    nbytes = task["nbytes"]
    L = 8 * nbytes
    specs = []
    variants = [("bin:fixed", BinEnc(Fixed(L)), "bin"), ("bin:dyn16(x8)", BinEnc(Dyn("LEN16", False, 8, 0)), "bin"),
                ("str:ascii:whole", StrEnc(Fixed(L), "US-ASCII"), "str1"), ("str:utf8:termNUL", StrEnc(Fixed(L), "UTF-8", None, "00"), "str1"),
                ("str:latin1:dyn16(x8)", StrEnc(Dyn("LEN16", True, 8, 0), "ISO-8859-1"), "str1"),
                ("str:utf16be:termNUL", StrEnc(Fixed(L), "UTF-16BE", None, "0000"), "str2"), ("str:utf16le:whole", StrEnc(Fixed(L), "UTF-16LE"), "str2"),
                ("str:ascii:lead16", StrEnc(Fixed(L + 16), "US-ASCII", None, None, 16), "lead")]
    for j, (label, enc, fam) in enumerate(variants):
        pt = PType(f"T{j}", "Binary" if fam == "bin" else "String", enc)
        pts = [pt, PType("LEN16_T", "Integer", IntEnc(16)), PType("SENT_T", "Integer", IntEnc(8))]
        prs = [Param("LEN16", "LEN16_T"), Param(f"F_{j}", f"T{j}"), Param("SENT", "SENT_T")]
        ents = []
        if offset:
            pts.append(docs.pad_type(offset))
            prs.append(Param("PAD", f"PAD{offset}_T"))
            ents.append(("p", "PAD"))
        ents += [("p", "LEN16"), ("p", f"F_{j}"), ("p", "SENT")]
        specs.append((pts, prs, ents))
    doc = docs.selector_doc(specs)
    try:
        with case_alarm(120):
            defn = load_doc(doc)
    except BaseException as e:  # noqa: BLE001
        t.violation({"kind": "load-failed", "exc": type(e).__name__, "long": True}, {"offset": offset, "nbytes": nbytes}, observed=str(e)[:300])
        return t
    base1 = bytes(0x21 + (i * 7) % 90 for i in range(nbytes))                       # printable ASCII, no NUL
    base2 = b"".join(bytes([0x00, 0x21 + (i * 5) % 90]) for i in range(nbytes // 2))  # UTF-16BE text
    for j, (label, enc, fam) in enumerate(variants):
        bodies = []
        if fam == "bin":
            bodies = [base1, bytes(nbytes), b"\xff" * nbytes, bytes((i * 131 + 7) & 0xFF for i in range(nbytes))]
        elif fam == "str1":
            bodies = [base1]
            for pos in (0, 1, nbytes // 2, nbytes - 2, nbytes - 1):
                b = bytearray(base1)
                b[pos] = 0
                bodies.append(bytes(b))
        elif fam == "str2":
            src = base2 if "utf16be" in label else b"".join(bytes([c[1], c[0]]) for c in (base2[i:i + 2] for i in range(0, len(base2), 2)))
            bodies = [src]
            for pos in (0, 2, (nbytes // 4) * 2, nbytes - 2):
                b = bytearray(src)
                b[pos:pos + 2] = b"\x00\x00"
                bodies.append(bytes(b))
            odd = bytearray(src)       # a NUL byte pair that straddles two characters must not terminate
            odd[3:5] = b"\x00\x00"
            bodies.append(bytes(odd))
        else:
            for tag in sorted({0, 8, min(65528, 8 * (nbytes // 2)), min(65528, 8 * nbytes - 8), min(65528, 8 * nbytes)}):
                bodies.append(tag.to_bytes(2, "big") + base1)
        for body in bodies:
            bits = "1" * offset + format(nbytes & 0xFFFF, "016b") + "".join(format(x, "08b") for x in body) + "10100101"
            bits += "0" * ((-len(bits)) % 8)
            pkt = docs.packet_for(j, bits)   # beyond 65536 bytes: a packet as segment reassembly hands it over
            try:
                with case_alarm(120):
                    want = decode_packet(doc, pkt)
                    obs = parse_one(defn, pkt)
            except BaseException as e:  # noqa: BLE001
                t.violation({"kind": "sweep-aborted", "exc": type(e).__name__, "long": True}, {"label": label, "offset": offset, "nbytes": nbytes}, observed=str(e)[:200])
                continue
            t.evals += 1
            t.nontrivial += 1
            t.outcomes[f"long:{fam}:{want.kind}"] += 1
            why = compare_outcome(want, obs)
            if why:
                t.violation({"kind": "field-mismatch", "family": "long-" + fam, "label": label, "want": want.kind, "got": obs[0]},
                            {"long": True, "label": label, "variant": j, "offset": offset, "nbytes": nbytes, "packet_head": pkt[:24].hex(), "body_index": bodies.index(body)},
                            note=why[:300])
        t.programs += 1
    return t


def run(ctx):
    offsets = [0, 3] if ctx.quick else list(range(8))
    tasks = []
    for cs in CHARSETS:
        for off in offsets:
            tasks.append({"family": "string", "charset": cs, "offset": off, "tier": ctx.tier, "via": "xml", "alphabet": (off + 1) % 2 if len(offsets) == 2 else off % 2})
        tasks.append({"family": "string", "charset": cs, "offset": 5, "tier": "quick", "via": "objects"})
    for off in range(8):
        tasks.append({"family": "binary", "offset": off, "tier": ctx.tier, "via": "xml"})
    tasks.append({"family": "binary", "offset": 1, "tier": ctx.tier, "via": "objects"})
    tally = fan_out(_task, tasks, jobs=ctx.jobs, seed=ctx.seed)
    sizes = (300, 4098, 30000, 70000) if ctx.quick else (300, 1000, 4098, 30000, 65000, 70000, 140000)   # the last ones: longer than any single CCSDS packet (combined segments)
    tally.merge(fan_out(_task_long, [{"offset": off, "nbytes": nb} for nb in sizes for off in ((0, 5) if ctx.quick else (0, 1, 5, 7))], jobs=ctx.jobs, seed=ctx.seed))
    tally.merge(fan_out(_task_edits, [{"offset": off} for off in (0, 3)], jobs=ctx.jobs, seed=ctx.seed))
    coverage = {
        "programs": tally.programs,
        "exhaustive": True,
        "bound": ("strings: 12 charset/byte-order configurations x {whole buffer, NUL terminator, 'X' terminator, leading size 3/8/16} x "
                  "{fixed lengths incl. non-byte and long buffers (up to 42 bytes), discrete lookup (3 entries incl. value 0, and no match; and 3 entries with OVERLAPPING criteria decoded in several orders; a list whose second entry cannot be evaluated when the first matches), 8 pairs of character sets / byte orders where the first is turned into the second by editing the loaded definition's encoding attributes (before and after first use), dynamic reference LEN/LENC raw/calibrated (LENC calibrated 2x - 2, so that a raw 1 is a calibrated 0) and LENH (calibrated 0.5x: fractional values) x "
                  "adjustments (8,0),(8,8),(1,0),(1,-8),none} x "
                  f"bit offsets {offsets} x every content over a 5-symbol alphabet (and, on every other offset, a 6-symbol alphabet of Unicode corner cases: BOM, an astral character, a lone surrogate / overlong / out-of-range sequence) for <= {3 if ctx.quick else 4} code units (every size-tag value family); "
                  "binary: every fixed length 1..40 bits, lookup, dynamic lengths 0..40 bits, offsets 0..7, pattern family; "
                  f"long fields of {sizes} bytes (binary fixed / from a 16-bit length, ASCII, UTF-8 with terminator at the start / middle / end, Latin-1 from a length, UTF-16 with aligned and "
                  "straddling NUL pairs, 16-bit leading size), aligned and unaligned"),
        "rule": "one evaluation = one packet; distinct non-trivial = distinct (encoding configuration, offset) variants, each swept over its content family",
    }
    return {"level": LEVEL, "tally": tally, "coverage": coverage,
            "assumptions": ["a buffer without its termination character, a size tag beyond the unpadded buffer: unspecified (not judged)",
                            "Python codecs are trusted for character tables; the declared byte order selects the codec"]}


def replay(case):
    if case.get("attr_edits"):
        t = _task_edits({"offset": case["offset"]})
        return next((v for v in t.violations if all(v["case"].get(k) == case.get(k) for k in ("old", "new", "lead", "decoded_before_edit"))), None)
    if case.get("long"):
        t = _task_long({"offset": case["offset"], "nbytes": case["nbytes"]})
        return next((v for v in t.violations if v["case"].get("variant") == case.get("variant") and v["case"].get("body_index") == case.get("body_index")), None)
    cs = case.get("charset") or [None, None]
    task = {"family": case["family"], "charset": tuple(cs), "offset": case["offset"], "tier": case.get("tier", "thorough"),
            "via": case.get("via", "xml"), "only": case["variant"], "alphabet": case.get("alphabet", 0)}
    t = _task(task)
    for v in t.violations:
        if v["case"].get("packet") == case.get("packet"):
            return v
    return None


def repro_py(case):
    return f"# variant {case.get('label')} charset {case.get('charset')} offset {case.get('offset')} packet {case.get('packet')}\n" \
           "# ./check C07 --replay <this file> re-executes exactly this case\n"
