"""C08 — Calibration, enumeration and boolean derivation follow XTCE; raw value kept.

E-prod end to end.  Every calibrator configuration is one APID-selected variant
[SEL u2][field][SENT u8][pad]; every raw value of the 5-bit fields (and a float16 family) is
queried, so every spline knot, both end points and both outside regions are hit for every spline.
Oracle: exact rational evaluation, rounded once.
"""
from __future__ import annotations

import itertools

from mc import docs
from mc.kernel import Tally, case_alarm, chunked, fan_out
from mc.observe import compare_outcome, parse_one
from mc.ref.interp import decode_packet
from mc.spec import (And, BoolExpr, Cmp, Cond, CtxCal, Fixed, FloatEnc, IntEnc, Or, Param, Poly, PType, Spline, StrEnc,
                     build_objects, load_doc)

PROP = "C08"
LEVEL = "exploration"

F16_PATTERNS = [0x0000, 0x8000, 0x3C00, 0xBC00, 0x4100, 0x3800, 0x7BFF, 0x0001, 0xC500, 0x4880, 0x7C00, 0xFC00, 0x7E00]
COEFS = (-1.25, 0.0, 0.5, 2.0)


def polys(tier):
    out = []
    for k in range(0, 4):
        for exps in itertools.combinations(range(4), k):
            for cs in itertools.product(COEFS, repeat=k):
                out.append(Poly(tuple(zip(cs, exps))))
    out.append(Poly(((0.5, 1), (2.0, 1))))       # repeated exponent: terms add
    out.append(Poly(((2.0, 3), (0.5, 0), (-1.25, 1))))  # unordered
    out.append(Poly(((-0.0, 0), (0.0, 1), (1.0, 2))))   # both zeros as coefficients
    out.append(Poly(((0.0, 0), (-0.0, 2), (-0.0, 1))))
    if tier == "quick":
        # all polys with <= 2 terms, and the 3-term ones whose coefficients use >= 2 distinct values incl. a zero or negative
        out = [p for p in out if len(p.terms) <= 2 or (len(set(c for c, _ in p.terms)) >= 2 and p.terms[0][0] != p.terms[2][0])]
    return out


RAWS = (-4, 0, 3, 8, 31)
CALS = (-2.0, 0.0, 0.5, 10.0)


def splines(tier):
    out = []
    for k in (2, 3, 4):
        for xs in itertools.combinations(RAWS, k):
            if tier == "quick":
                ys_list = [tuple(CALS[(i + s) % 4] for i in range(k)) for s in range(4)] + [tuple(CALS[(3 - i) % 4] for i in range(k))]
            else:
                ys_list = list(itertools.product(CALS, repeat=k))
            for ys in ys_list:
                for order in (0, 1):
                    for ex in (False, True):
                        out.append(Spline(tuple(zip(map(float, xs), ys)), order, ex))
    # points listed in descending order in the document (the definition sorts them)
    out.append(Spline(((8.0, 10.0), (3.0, 0.5), (0.0, -2.0)), 1, True))
    out.append(Spline(((31.0, 0.0), (-4.0, 10.0)), 0, False))
    # steps: two points with the same raw value (left limit, then right limit), downward and upward (saw-tooth)
    for order in (0, 1):
        for ex in (False, True):
            out.append(Spline(((0.0, 0.0), (8.0, 10.0), (8.0, -2.0), (31.0, 0.5)), order, ex))
            out.append(Spline(((-4.0, 10.0), (3.0, 0.5), (3.0, 10.0), (8.0, 0.0), (8.0, 0.5), (31.0, -2.0)), order, ex))
    # knots of the size of 32-bit counters
    for order in (0, 1):
        out.append(Spline(((0.0, 10.0), (2e9, 20.0), (4e9, 30.0)), order, order == 1))
        out.append(Spline(((-2147483648.0, -1.0), (2147483647.0, 1.0)), order, False))
    # knots beyond 2**53 (64-bit counters): integer raws next to them are not floats
    for order in (0, 1):
        out.append(Spline(((0.0, 10.0), (2.0 ** 60, 20.0), (2.0 ** 62, 30.0)), order, False))
        out.append(Spline(((-(2.0 ** 63), -1.0), (9007199254740996.0, 0.5), (2.0 ** 64, 1.0)), order, order == 1))
    # both zeros as calibrated values and as raws, in both orders
    out.append(Spline(((-4.0, -0.0), (0.0, 0.0), (8.0, -0.0), (31.0, 10.0)), 1, True))
    out.append(Spline(((-0.0, 0.0), (3.0, -0.0), (8.0, 0.5)), 0, False))
    # long tables (one point per half count / per count): 33, 64, 130 and 300 points; the calibrated values zig-zag, start at -0.0 and pass
    # through 0.0, and all but those are distinct
    for n, step in ((33, 1.0), (64, 0.5), (130, 0.25), (300, 1.0)):
        pts = tuple((-4.0 + i * step, (-0.0 if i == 0 else 0.0 if i == n // 2 else ((i * 37) % n) / 4.0 - (i % 3))) for i in range(n))
        for order in (0, 1):
            out.append(Spline(pts, order, order == 0))
    return out


def base_encs():
    return [("u5", IntEnc(5), 5, list(range(32))),
            ("s5", IntEnc(5, "twosComplement"), 5, list(range(32))),
            ("f16", FloatEnc(16), 16, F16_PATTERNS)]


def with_cal(enc, default=None, ctx=()):
    if isinstance(enc, IntEnc):
        return IntEnc(enc.bits, enc.enc, enc.lsb_first, default, tuple(ctx))
    return FloatEnc(enc.bits, enc.enc, enc.lsb_first, default, tuple(ctx))


def variants(tier):
    """Yields (label, PType-maker(name, field_param_name) -> PType, width, patterns, sel_values)."""
    out = []
    P = polys(tier)
    S = splines(tier)
    for bname, enc, w, pats in base_encs():
        for i, p in enumerate(P):
            if bname == "f16" and tier == "quick" and i % 3:
                continue
            out.append((f"poly:{bname}", lambda n, f, enc=enc, p=p: PType(n, "Integer" if isinstance(enc, IntEnc) else "Float", with_cal(enc, p)), w, pats, (0,)))
        for i, s in enumerate(S):
            if bname == "f16" and i % (7 if tier == "quick" else 3):
                continue
            out.append((f"spline{s.order}{'x' if s.extrapolate else ''}:{bname}", lambda n, f, enc=enc, s=s: PType(n, "Integer" if isinstance(enc, IntEnc) else "Float", with_cal(enc, s)), w, pats, (0,)))
    # context calibrator lists: which calibrator applies is readable from the result (poly 10k + x)
    def ctx_alphabet(f):
        return [
            (Cmp("SEL", "==", "0"),), (Cmp("SEL", "==", "1"),), (Cmp("SEL", ">=", "1"),),
            (Cmp(f, "<", "8", use_cal=False),),            # the field's own raw value
            (Cmp(f, ">=", "0", use_cal=False), Cmp("SEL", "!=", "2")),  # comparison list mixing own raw value and an earlier parameter
            (BoolExpr(Or((Cond("SEL", "==", right_value="2", right_cal=False),),
                         (And((Cond("SEL", "==", right_value="0", right_cal=False), Cond("SEL", "<", right_value="1", right_cal=False))),))),),
        ]
    n_alpha = 6
    lists = [()] + [(a,) for a in range(n_alpha)] + [(a, b) for a in range(n_alpha) for b in range(n_alpha) if a != b]
    for bname, enc, w, pats in base_encs()[:1] + base_encs()[2:]:
        for lst in lists:
            for default in (None, Poly(((100.0, 0), (1.0, 1)))):
                for cal_kind in ("poly", "spline") if len(lst) == 1 else ("poly",):
                    def mk(n, f, enc=enc, lst=lst, default=default, cal_kind=cal_kind):
                        alpha = ctx_alphabet(f)
                        ccs = []
                        for pos, a in enumerate(lst):
                            cal = Poly(((10.0 * (pos + 1), 0), (1.0, 1))) if cal_kind == "poly" else Spline(((0.0, 50.0), (31.0, 81.0)), 1, True)
                            ccs.append(CtxCal(alpha[a], cal))
                        return PType(n, "Integer" if isinstance(enc, IntEnc) else "Float", with_cal(enc, default, ccs))
                    out.append((f"ctx{len(lst)}:{bname}:{'default' if default else 'nodefault'}", mk, w, pats, (0, 1, 2, 3)))
    # enumerations (int-, float-, string-encoded), listed and unlisted raws, with and without a calibrator on the encoding
    cal = Poly(((1.0, 0), (2.0, 1)))
    for tag, encs in (("plain", (IntEnc(3), IntEnc(4, "signed"), FloatEnc(16))), ("cal-ignored", (IntEnc(3, default_cal=cal), IntEnc(4, "signed", default_cal=cal), FloatEnc(16, default_cal=cal)))):
        out.append((f"enum-u3:{tag}", lambda n, f, e=encs[0]: PType(n, "Enumerated", e, enum=((0, "ZERO"), (1, "ONE"), (5, "FIVE"))), 3, list(range(8)), (0,)))
        out.append((f"enum-s4:{tag}", lambda n, f, e=encs[1]: PType(n, "Enumerated", e, enum=((-8, "MIN"), (-1, "NEG"), (0, "ZERO"), (7, "MAX"))), 4, list(range(16)), (0,)))
        out.append((f"enum-f16:{tag}", lambda n, f, e=encs[2]: PType(n, "Enumerated", e, enum=((0.0, "ZERO"), (1.0, "ONE"), (2.5, "TWOFIVE"))), 16, F16_PATTERNS, (0,)))
        out.append((f"bool-u1:{tag}", lambda n, f, e=IntEnc(1, default_cal=encs[0].default_cal): PType(n, "Boolean", e), 1, [0, 1], (0,)))
        out.append((f"bool-u3:{tag}", lambda n, f, e=encs[0]: PType(n, "Boolean", e), 3, list(range(8)), (0,)))
        out.append((f"bool-s4:{tag}", lambda n, f, e=encs[1]: PType(n, "Boolean", e), 4, list(range(16)), (0,)))
        out.append((f"bool-f16:{tag}", lambda n, f, e=encs[2]: PType(n, "Boolean", e), 16, F16_PATTERNS, (0,)))
    # a label that is the empty string (falsy): still a label
    out.append(("enum-u3:empty-label", lambda n, f: PType(n, "Enumerated", IntEnc(3), enum=((0, ""), (1, "ONE"), (2, " "), (7, "0"))), 3, list(range(8)), (0,)))
    out.append(("enum-f16:empty-label", lambda n, f: PType(n, "Enumerated", FloatEnc(16), enum=((0.0, ""), (1.0, "ONE"))), 16, F16_PATTERNS, (0,)))
    # wide integer enumerations: listed values beyond 2**53 (not representable as doubles), their neighbours unlisted
    W = [0, 1, 2 ** 53, 2 ** 53 + 1, 2 ** 53 + 2, 0xDEADBEEFCAFEBABE, 0xDEADBEEFCAFEBABE - 1, 0xDEADBEEFCAFEB800, 2 ** 64 - 1, 2 ** 64 - 2, 2 ** 63, 2 ** 63 - 1]
    out.append(("enum-u64:wide", lambda n, f: PType(n, "Enumerated", IntEnc(64), enum=((0, "ZERO"), (2 ** 53 + 1, "ODD"), (0xDEADBEEFCAFEBABE, "BEEF"), (2 ** 64 - 1, "ALL_ONES"),
                                                                                           (2 ** 63 - 1, "HALF"))), 64, W, (0,)))
    out.append(("enum-s64:wide", lambda n, f: PType(n, "Enumerated", IntEnc(64, "twosComplement"), enum=((-1, "MINUS_ONE"), (-(2 ** 53) - 1, "NEG_ODD"), (2 ** 62 + 1, "BIG"),
                                                                                                            (-(2 ** 63), "MIN"))), 64,
                W + [2 ** 64 - 2 ** 53 - 1, 2 ** 64 - 2 ** 53, 2 ** 62 + 1, 2 ** 62], (0,)))
    out.append(("enum-str8", lambda n, f: PType(n, "Enumerated", StrEnc(Fixed(8), "US-ASCII"), enum=(("a", "LOWER_A"), ("B", "UPPER_B"))), 8,
                [ord("a"), ord("B"), ord("b"), 0, 0x7F], (0,)))
    out.append(("enum-str16-latin1", lambda n, f: PType(n, "Enumerated", StrEnc(Fixed(16), "ISO-8859-1"), enum=(("ab", "AB"), ("éé", "EE"))), 16,
                [0x6162, 0xE9E9, 0x6100, 0x0061], (0,)))
    # plain parameters without calibrators keep their kind (int stays int, float stays float), also under a Float/Integer type name
    out.append(("plain-int-under-FloatParameterType", lambda n, f: PType(n, "Float", IntEnc(5)), 5, list(range(32)), (0,)))
    out.append(("plain-float-under-IntegerParameterType", lambda n, f: PType(n, "Integer", FloatEnc(16)), 16, F16_PATTERNS, (0,)))
    # time types
    big = [0, 1, 2, 0x7FFFFFFF, 0x80000000, 0xFFFFFFFF, 86400, 1000000007]
    out.append(("abstime-u32-scale-offset", lambda n, f: PType(n, "AbsoluteTime", IntEnc(32), unit="seconds", scale=0.5, offset=16.0, epoch="TAI"), 32, big, (0,)))
    out.append(("abstime-u32-scale", lambda n, f: PType(n, "AbsoluteTime", IntEnc(32), unit="s", scale=1e-3, epoch="2000-01-01T12:00:00"), 32, big, (0,)))
    out.append(("reltime-u16-scale", lambda n, f: PType(n, "RelativeTime", IntEnc(16), scale=0.25), 16, [0, 1, 3, 0x7FFF, 0x8000, 0xFFFF], (0,)))
    out.append(("abstime-u16-offsetfrom", lambda n, f: PType(n, "AbsoluteTime", IntEnc(16), unit="s", offset_from="SEL"), 16, [0, 1, 0xFFFF], (0,)))
    out.append(("abstime-u16-offset-only", lambda n, f: PType(n, "AbsoluteTime", IntEnc(16), offset=-2.5), 16, [0, 1, 2, 0xFFFF], (0,)))
    out.append(("reltime-f32", lambda n, f: PType(n, "RelativeTime", FloatEnc(32), scale=2.0, offset=1.0), 32, [0, 0x3F800000, 0xC0200000, 0x00000001], (0,)))
    return out


def doc_for(idx, tier):
    """The selector document holding the given variants (used by C09/C15 as an attribute-coverage family)."""
    allv = variants(tier)
    specs = []
    for j, i in enumerate(idx):
        label, mk, w, pats, sels = allv[i]
        pt = mk(f"T{j}", f"F_{j}")
        pts, prs, ents, tail = docs.framed_field_variant(pt, 2, w, str(j))
        prs = [Param("SEL", "SEL_T") if p.name == f"PAD_{j}" else p for p in prs]
        ents = [("p", "SEL") if e == ("p", f"PAD_{j}") else e for e in ents]
        specs.append(([PType("SEL_T", "Integer", IntEnc(2))] + list(pts), prs, ents))
    return docs.selector_doc(specs)


def _task(task):
    t = Tally()
    allv = variants(task["tier"])
    vs = [allv[i] for i in task["idx"]]
    specs = []
    metas = []
    for j, (label, mk, w, pats, sels) in enumerate(vs):
        fname = f"F_{j}"
        pt = mk(f"T{j}", fname)
        sel_t = PType("SEL_T", "Integer", IntEnc(2))
        pts, prs, ents, tail = docs.framed_field_variant(pt, 2, w, str(j))
        # replace the leading pad by the selector
        prs = [Param("SEL", "SEL_T") if p.name == f"PAD_{j}" else p for p in prs]
        ents = [("p", "SEL") if e == ("p", f"PAD_{j}") else e for e in ents]
        pts = [sel_t] + list(pts)
        specs.append((pts, prs, ents))
        metas.append(tail)
    doc = docs.selector_doc(specs)
    try:
        with case_alarm(120):
            defn = load_doc(doc) if task["via"] == "xml" else build_objects(doc)
    except BaseException as e:  # noqa: BLE001
        t.violation({"kind": "load-failed", "exc": type(e).__name__}, {"idx": task["idx"][:3], "via": task["via"]}, observed=str(e)[:300])
        return t
    for j, (label, mk, w, pats, sels) in enumerate(vs):
        tail = metas[j]
        kinds = set()
        try:
            with case_alarm(300):
                # calibrator objects are shared by all packets: query them in ascending order AND in a scrambled order (big jumps up
                # and down between consecutive queries), so that anything a calibrator remembers from its previous query shows
                order = list(pats)
                if label.startswith(("spline", "ctx")):
                    m = len(pats)
                    order += [pats[(i * 13 + 5) % m] for i in range(m)] if m > 2 and m % 13 else list(reversed(pats))
                # context lists are walked twice, the second time backwards: which context applies to a packet must not depend on how often
                # each context applied before
                sel_seq = tuple(sels) + tuple(reversed(sels))[1:] if label.startswith("ctx") else tuple(sels)
                for sel in sel_seq:
                    for v in order:
                        bits = format(sel, "02b") + format(v, f"0{w}b") + "10100101" + "0" * tail
                        pkt = docs.packet_for(j, bits)
                        want = decode_packet(doc, pkt)
                        obs = parse_one(defn, pkt)
                        t.evals += 1
                        kinds.add(want.kind)
                        t.outcomes[f"{label.split(':')[0]}:{want.kind}"] += 1
                        why = compare_outcome(want, obs)
                        if why:
                            fam = label.split(":")[0]
                            t.violation({"kind": "derivation-mismatch", "family": fam, "want": want.kind, "got": obs[0],
                                         "exc": obs[1][0] if obs[0] == "raised" else None},
                                        {"variant": task["idx"][j], "label": label, "sel": sel, "raw_pattern": v, "packet": pkt.hex(),
                                         "via": task["via"], "tier": task["tier"]},
                                        expected=[(x.name, x.value, x.raw) for x in want.items[7:]] if want.kind == "parsed" else (want.kind, want.why, want.exc),
                                        observed=obs[1][7:] if obs[0] == "parsed" else obs[:3], note=why)
        except BaseException as e:  # noqa: BLE001
            t.violation({"kind": "sweep-aborted", "exc": type(e).__name__}, {"variant": task["idx"][j], "label": label}, observed=str(e)[:200])
        # the (used) definition edited in place: another default calibrator on the encoding / other labels in the enumeration.  What the
        # public attributes say afterwards is what must be decoded.
        if task["via"] == "xml" and (label.startswith(("poly:u5", "spline0:u5", "spline1x:s5")) or label in ("enum-u3:plain", "enum-s4:plain")) and j % 2 == 0:
            try:
                import dataclasses
                from space_packet_parser.xtce import calibrators as _cal
                lib_pt = defn.parameter_types[f"T{j}"]
                spec_pt = next(p for p in doc.ptypes if p.name == f"T{j}")
                if label.startswith("enum"):
                    first = next(iter(lib_pt.enumeration))
                    lib_pt.enumeration[6 if label.startswith("enum-u3") else -2] = "ADDED"
                    lib_pt.enumeration[first] = "RELABELLED"
                    new_enum = tuple((k, "RELABELLED" if k == first else lab) for k, lab in spec_pt.enum) + ((6 if label.startswith("enum-u3") else -2, "ADDED"),)
                    spec2 = dataclasses.replace(spec_pt, enum=new_enum)
                else:
                    lib_pt.encoding.default_calibrator = _cal.PolynomialCalibrator([_cal.PolynomialCoefficient(3.0, 0), _cal.PolynomialCoefficient(2.0, 1)])
                    spec2 = dataclasses.replace(spec_pt, enc=dataclasses.replace(spec_pt.enc, default_cal=Poly(((3.0, 0), (2.0, 1)))))
                doc2 = dataclasses.replace(doc, ptypes=tuple(spec2 if p.name == spec2.name else p for p in doc.ptypes))
                for v in pats:
                    bits = "00" + format(v, f"0{w}b") + "10100101" + "0" * tail
                    pkt = docs.packet_for(j, bits)
                    why = compare_outcome(decode_packet(doc2, pkt), parse_one(defn, pkt))
                    t.evals += 1
                    if why:
                        t.violation({"kind": "derivation-mismatch", "family": label.split(":")[0], "after": "definition edited in place"},
                                    {"variant": task["idx"][j], "label": label, "raw_pattern": v, "packet": pkt.hex(), "via": "xml+edited", "tier": task["tier"]}, note=why)
                        break
            except BaseException as e:  # noqa: BLE001
                t.violation({"kind": "sweep-aborted", "exc": type(e).__name__, "part": "edited"}, {"variant": task["idx"][j], "label": label}, observed=str(e)[:200])
        t.nontrivial += 1
        t.programs += 1
    if task["idx"] and task["idx"][0] == 0:
        t.sample({"variant": vs[0][0], "raws": "all 32 values of the 5-bit field", "layout": "[SEL u2][field][SENT u8][pad]"})
    return t


def _task_objects(task):
    """Object level: calibrators built with the public constructors and queried through calibrate() on a dyadic grid that
    includes every knot and its neighbourhood (adjacent floats, 1e-10 relative), the midpoints between knots and points half a unit outside both ends (not only integer raws)."""
    from fractions import Fraction
    from space_packet_parser.exceptions import CalibrationError
    from space_packet_parser.xtce import calibrators
    from mc.ref.interp import RefRaise, RefUnspecified, calibrate
    from mc.observe import same_value
    t = Tally()
    with case_alarm(900):
        for cal in task["cals"]:
            if isinstance(cal, Poly):
                lib = calibrators.PolynomialCalibrator([calibrators.PolynomialCoefficient(float(c), int(e)) for c, e in cal.terms])
                grid = [-4, -1.5, -0.25, 0, 0.5, 1, 2.75, 8, 31, 255.5]
            else:
                # the points are handed over as a list the caller goes on to re-use (cleared / reversed / refilled afterwards), a tuple, or a
                # one-shot generator: the calibrator keeps the points it was given
                pts = [calibrators.SplinePoint(float(r), float(c)) for r, c in cal.points]
                form = (len(cal.points) + cal.order + (1 if cal.extrapolate else 0) + int(abs(cal.points[0][1]) * 4)) % 5
                arg = (pts, pts, tuple(pts), (p_ for p_ in pts), pts)[form]
                lib = calibrators.SplineCalibrator(arg, order=cal.order, extrapolate=cal.extrapolate)
                if form == 0:
                    pts.clear()
                elif form == 1:
                    pts.reverse()
                    pts.append(calibrators.SplinePoint(1e6, -1e6))
                elif form == 4:
                    pts[:] = [calibrators.SplinePoint(100.0, 0.0), calibrators.SplinePoint(200.0, 1.0)]
                xs = sorted(r for r, _ in cal.points)
                grid = sorted(set(xs + [(a + b) / 2 for a, b in zip(xs, xs[1:])] + [(3 * a + b) / 4 for a, b in zip(xs, xs[1:])]
                                  + [xs[0] - 0.5, xs[0] - 16, xs[-1] + 0.5, xs[-1] + 16]))
                if len(xs) <= 8:
                    # the neighbourhood of every knot: the adjacent floats, a relative distance of 1e-10, and (for big raws) the adjacent integers
                    import math
                    near = []
                    for x0 in xs:
                        near += [math.nextafter(x0, -math.inf), math.nextafter(x0, math.inf), x0 - max(abs(x0), 1.0) * 1e-10, x0 + max(abs(x0), 1.0) * 1e-10]
                        if abs(x0) > 1e6:
                            near += [x0 - 1, x0 + 1]
                        if abs(x0) >= 2.0 ** 53:
                            near += [int(x0) - 1, int(x0) + 1]   # integers next to the knot that no float can hold
                    grid = sorted(set(grid + near))
            scr = [grid[(i * 7 + 3) % len(grid)] for i in range(len(grid))] if len(grid) % 7 else list(reversed(grid))
            for x in list(grid) + scr:   # ascending, then scrambled (the same calibrator object answers all queries)
                for q in ((x, int(x)) if float(x).is_integer() else (x,)):   # int and float query of the same point
                    t.evals += 1
                    try:
                        want, scale = calibrate(cal, q)
                        wk = "value"
                    except RefRaise:
                        want, scale, wk = None, 0.0, "CalibrationError"
                    except RefUnspecified:
                        continue
                    try:
                        got = lib.calibrate(q)
                        gk = "value"
                    except CalibrationError:
                        got, gk = None, "CalibrationError"
                    except Exception as e:  # noqa: BLE001
                        got, gk = None, "raised:" + type(e).__name__
                    t.outcomes[f"object:{wk}"] += 1
                    ok = wk == gk and (wk != "value" or (isinstance(got, (int, float)) and not isinstance(got, bool) and same_value(want, float(got), tolerant=True, scale=scale)))
                    if not ok:
                        t.violation({"kind": "calibrate-mismatch", "calibrator": type(cal).__name__, "order": getattr(cal, "order", None), "got": gk},
                                    {"object_level": True, "calibrator": repr(cal), "query": q}, expected=(wk, want), observed=(gk, got))
            t.nontrivial += 1
            # the public attributes of a calibrator object say what it does: after order / extrapolate are changed on the object (or on a shallow
            # copy of it) the object calibrates as the attributes now say.  Queried BEFORE the edit as well, so that nothing stale survives it.
            if isinstance(cal, Spline) and len(cal.points) >= 2 and not getattr(cal, "_edited", False):
                import copy as _copy
                from mc.spec import Spline as _S
                for new_order, new_ex, how in ((1 - cal.order, cal.extrapolate, "edit"), (cal.order, not cal.extrapolate, "edit"),
                                               (1 - cal.order, not cal.extrapolate, "copy-then-edit")):
                    lib2 = calibrators.SplineCalibrator([calibrators.SplinePoint(float(r), float(c)) for r, c in cal.points], order=cal.order,
                                                        extrapolate=cal.extrapolate)
                    try:
                        lib2.calibrate(grid[len(grid) // 2])
                    except Exception:  # noqa: BLE001
                        pass
                    target = _copy.copy(lib2) if how == "copy-then-edit" else lib2
                    target.order, target.extrapolate = new_order, new_ex
                    spec2 = _S(cal.points, new_order, new_ex)
                    for q in grid[:: max(1, len(grid) // 7)]:
                        t.evals += 1
                        try:
                            want, scale = calibrate(spec2, q)
                            wk = "value"
                        except RefRaise:
                            want, scale, wk = None, 0.0, "CalibrationError"
                        except RefUnspecified:
                            continue
                        try:
                            got, gk = target.calibrate(q), "value"
                        except CalibrationError:
                            got, gk = None, "CalibrationError"
                        except Exception as e:  # noqa: BLE001
                            got, gk = None, "raised:" + type(e).__name__
                        ok = wk == gk and (wk != "value" or same_value(want, float(got), tolerant=True, scale=scale))
                        if not ok:
                            t.violation({"kind": "calibrate-mismatch", "calibrator": "SplineCalibrator", "after": how, "got": gk},
                                        {"object_level": True, "calibrator": repr(cal), "query": q, "edited_to": [new_order, new_ex], "how": how},
                                        expected=(wk, want), observed=(gk, got), note="the object does not calibrate as its (edited) attributes say")
    return t


def run(ctx):
    allv = variants(ctx.tier)
    idx = list(range(len(allv)))
    tasks = [{"idx": ch, "tier": ctx.tier, "via": "xml"} for ch in chunked(idx, max(16, len(idx) // 60))]
    # the object-built rendering for a sample of every family (C09 compares the two renderings structurally)
    fam_first = {}
    for i, v in enumerate(allv):
        fam_first.setdefault(v[0], []).append(i)
    obj_idx = [i for fam, lst in fam_first.items() for i in lst[:: max(1, len(lst) // 12)]]
    tasks += [{"idx": ch, "tier": ctx.tier, "via": "objects"} for ch in chunked(obj_idx, 8)]
    tally = fan_out(_task, tasks, jobs=ctx.jobs, seed=ctx.seed)
    cals = polys(ctx.tier) + splines(ctx.tier)
    tally.merge(fan_out(_task_objects, [{"cals": ch} for ch in chunked(cals, 48)], jobs=ctx.jobs, seed=ctx.seed))
    coverage = {
        "programs": tally.programs,
        "exhaustive": True,
        "bound": (f"{len(polys(ctx.tier))} polynomials (term sets of <= 3 terms, exponents in 0..3, coefficients in -1.25,0,0.5,2) on u5/s5/f16; "
                  f"{len(splines(ctx.tier))} splines (incl. tables of 33, 64, 130 and 300 points; 2..4 strictly increasing raws from -4,0,3,8,31, calibrated from -2,0,0.5,10, order 0/1, extrapolate T/F) "
                  "queried at ALL 32 raw values (every knot, both ends, both outside regions); context lists of 0..2 from a 6-criterion alphabet "
                  "(earlier parameter, own raw value, list, boolean expression) x default present/absent x SEL 0..3; enumerations int/float/string encoded "
                  "with listed and unlisted raws, booleans, both also over calibrated encodings; time types with scale/offset; object level: every polynomial and spline "
                  "queried through calibrate() at every knot, the midpoints and quarter points between knots and points outside both ends, as int and as float"),
        "rule": "one evaluation = one packet; distinct non-trivial = distinct calibrator/derivation configurations, each swept over all its raw values",
    }
    return {"level": LEVEL, "tally": tally, "coverage": coverage,
            "assumptions": ["calibrated results compared with max(4 ulp, 16 eps x operand magnitude) tolerance",
                            "calibration of NaN/inf raws is unspecified"]}


def replay(case):
    if case.get("object_level"):
        cals = polys("thorough") + splines("thorough")
        hit = [c for c in cals if repr(c) == case["calibrator"]]
        t = _task_objects({"cals": hit})
        for v in t.violations:
            if v["case"]["query"] == case["query"]:
                return v
        return None
    edited = case.get("via") == "xml+edited"
    t = _task({"idx": [case["variant"]], "tier": case.get("tier", "thorough"), "via": "xml" if edited else case.get("via", "xml")})
    for v in t.violations:
        if v["case"].get("sel") == case.get("sel") and v["case"].get("raw_pattern") == case.get("raw_pattern") and (v["case"].get("via") == "xml+edited") == edited:
            return v
    return None


def repro_py(case):
    return f"# variant {case.get('label')} of mc.checks.c08.variants({case.get('tier')!r})[{case.get('variant')}], packet {case.get('packet')}\n" \
           "# ./check C08 --replay <this file> re-executes exactly this case\n"
