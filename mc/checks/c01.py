"""C01 — End-to-end decoding conforms to the XTCE document for every stream.

The composition property: feature *interaction*.  Every ordered pair (quick) / every ordered triple
of the core palette plus every pair (thorough) of field kinds, in three container shapes (flat
concrete root; abstract root + APID-selected children; child nesting a shared container).  A
computed-length kind placed after a kind that can serve as its reference is wired to it.  Per
document: a family of payload patterns (constant, index, 0xA5, walking bit per field), defined and
undefined APIDs, and every stream of <= 3 packets with and without error reporting.
Oracle: generator(load(xml(D)), S) == reference(D, S) item by item.
"""
from __future__ import annotations

import itertools

from mc import framing
from mc.kernel import Tally, case_alarm, chunked, fan_out, observed_warnings
from mc.observe import compare_items, exc_names, items_of
from mc.palette import palette
from mc.ref.interp import decode_packet
from mc.spec import (Cmp, Container, Doc, Param, build_objects, header_entries, header_params, header_ptypes, load_doc)

PROP = "C01"
LEVEL = "exploration"

PAL = None


def pal():
    global PAL
    if PAL is None:
        PAL = palette()
    return PAL


def compose(kidx, shape):
    """kidx: tuple of palette indices; shape 1 flat / 2 inherit / 3 nested."""
    P = pal()
    ptypes = {p.name: p for p in header_ptypes()}
    params = {p.name: p for p in header_params()}
    built = []
    ref_raw = ref_cal = None
    start = 48
    for pos, ki in enumerate(kidx):
        ctx = {"ref_raw": ref_raw, "ref_cal": ref_cal, "start": start, "last": pos == len(kidx) - 1}
        b = P[ki].build(f"{pos}", ctx)
        built.append(b)
        for pt in b.ptypes:
            ptypes[pt.name] = pt
        for fn, ptn in b.fields:
            params[fn] = Param(fn, ptn, short=f"kind   {P[ki].name}  " if pos == 0 else None, long="second field\n  continued on an indented line\n\n\tand after a blank line, a tab" if pos == 1 else None)
        ref_raw = b.ref_raw or ref_raw
        ref_cal = b.ref_cal or ref_cal
        start = (start + b.static_width) if (start is not None and b.static_width is not None) else None
    ents = [[("p", fn) for fn, _ in b.fields] for b in built]
    hdr = header_entries()
    if shape == 1:
        conts = [Container("CCSDSPacket", hdr + tuple(e for es in ents for e in es))]
    elif shape == 2:
        conts = [Container("CCSDSPacket", hdr, abstract=True),
                 Container("A", tuple(e for es in ents for e in es), base="CCSDSPacket", criteria=(Cmp("PKT_APID", "==", "1"),)),
                 Container("B", tuple(ents[0]), base="CCSDSPacket", criteria=(Cmp("PKT_APID", "==", "2"), Cmp("SEQ_FLGS", "==", "3")))]
        if sum(kidx) % 2 == 0:
            # a stand-alone container listed FIRST that embeds the root (which is also the base of A and B); reachable only as a per-call root
            conts.insert(0, Container("DUMP", (("c", "CCSDSPacket"),) + tuple(ents[0]), short="header and first field, as a stand-alone layout"))
    else:
        inner = tuple(e for es in ents[1:2] for e in es)
        a_entries = tuple(ents[0]) + (("c", "NEST"),) + tuple(e for es in ents[2:] for e in es)
        conts = [Container("CCSDSPacket", hdr, abstract=True),
                 Container("A", a_entries, base="CCSDSPacket", criteria=(Cmp("PKT_APID", "==", "1"),), long="nests NEST\n    (shared with B)\n"),
                 Container("NEST", inner, short="shared     nested       container   "),   # runs of 5, 7 and 3 blanks are part of the text
                 Container("B", (("c", "NEST"),), base="CCSDSPacket", criteria=(Cmp("PKT_APID", "==", "2"),))]
    return Doc(tuple(ptypes.values()), tuple(params.values()), tuple(conts))


def base_patterns(n=320):
    return {
        "zeros": bytes(n), "ones": b"\xff" * n, "a5": bytes([0xA5]) * n, "5a": bytes([0x5A]) * n,
        "index": bytes((i + 1) & 0xFF for i in range(n)), "small": bytes((i % 3) + 1 for i in range(n)),
        "ascii": bytes(0x41 + (i % 26) for i in range(n)), "x2": bytes([0x02]) * n,
        "A-e-acute": (b"A\xc3\xa9" * n)[:n],
        "cp1252-specials": (b"\x80\x93A\x94\x85" * n)[:n],    # bytes that Windows-1252 and ISO-8859-1 read differently
    }


def fit(doc, apid, pattern: bytes, seqcount=0):
    """Find the shortest packet carrying `pattern` that the reference decodes without running off the end."""
    n = 1
    last = None
    for _ in range(6):
        pkt = framing.mk_packet(pattern[:n], apid=apid, seqcount=seqcount)
        o = decode_packet(doc, pkt)
        last = (pkt, o)
        if o.overrun:
            # needs more bits: try with plenty, then shrink to what was consumed
            pkt2 = framing.mk_packet(pattern[:300], apid=apid, seqcount=seqcount)
            o2 = decode_packet(doc, pkt2)
            if o2.kind != "parsed":
                return pkt2, o2
            need = max(1, (o2.consumed - 48 + 7) // 8)
            if need == n:
                n = need + 1
            else:
                n = need
            continue
        return pkt, o
    # packet-length dependent layouts: scan
    for n in range(1, 200):
        pkt = framing.mk_packet(pattern[:n], apid=apid, seqcount=seqcount)
        o = decode_packet(doc, pkt)
        if not o.overrun:
            return pkt, o
    return last


def observe_stream(defn, stream: bytes, yield_errors: bool, root=None):
    from space_packet_parser.exceptions import UnrecognizedPacketTypeError
    out = []
    with observed_warnings():
        kw = {"root_container_name": root} if root else {}
        g = defn.packet_generator(stream, yield_unrecognized_packet_errors=yield_errors, **kw)
        while True:
            try:
                p = next(g)
            except StopIteration:
                break
            except Exception as e:  # noqa: BLE001 - the observation
                out.append(("raised", exc_names(e), str(e)[:120]))
                break
            if isinstance(p, UnrecognizedPacketTypeError):
                pd = getattr(p, "partial_data", None)
                out.append(("error", items_of(pd) if pd is not None else None))
            elif isinstance(p, Exception):
                out.append(("exception-object", type(p).__name__))
            else:
                its = items_of(p)
                # the two documented views of a packet partition its items: the 7 CCSDS header fields, then everything else, in order
                try:
                    hv, uv = list(p.header.items()), list(p.user_data.items())
                    allv = list(p.items())
                    if len(allv) >= 7 and (hv != allv[:7] or uv != allv[7:]):
                        its = its + [("<header/user_data views>", "str", f"header={[k for k, _ in hv]} user_data={[k for k, _ in uv]}", "str", "")]
                except Exception as e:  # noqa: BLE001
                    its = its + [("<header/user_data views>", "str", f"raised {type(e).__name__}", "str", "")]
                out.append(("packet", its))
            if len(out) > 16:
                out.append(("horizon",))
                break
    return out


def expected_stream(outcomes, yield_errors):
    exp = []
    for o in outcomes:
        if o.kind == "parsed":
            exp.append(("packet", o))
        elif o.kind == "unrecognized":
            if yield_errors:
                exp.append(("error", o))
        elif o.kind == "raised":
            exp.append(("raised", o))
            break
        else:
            raise AssertionError("unspecified outcome in a stream")
    return exp


def compare_stream(exp, got):
    for i, (tag, o) in enumerate(exp):
        if i >= len(got):
            return f"stream item #{i}: expected {tag}, generator ended"
        g = got[i]
        if g[0] != tag:
            return f"stream item #{i}: expected {tag} ({o.why}), observed {g[0]} {g[1][0] if g[0] == 'raised' else ''} {g[2] if g[0] == 'raised' else ''}"
        if tag in ("packet", "error"):
            why = compare_items(o.items, g[1])
            if why:
                return f"stream item #{i}: {why}"
        elif tag == "raised" and o.exc is not None and not any(n in g[1] for n in o.exc):
            return f"stream item #{i}: expected {o.exc}, observed {g[1][0]}"
    if len(got) > len(exp):
        return f"generator yielded {len(got) - len(exp)} extra item(s): {[g[0] for g in got[len(exp):]]}"
    return None


def check_doc(t: Tally, kidx, shape, via, long_streams=True):
    doc = compose(kidx, shape)
    case0 = {"kinds": list(kidx), "kind_names": [pal()[k].name for k in kidx], "shape": shape, "via": via}
    try:
        with case_alarm(60):
            if via == "file":
                # the documented front door: space_packet_parser.load_xml on a file path (str and pathlib.Path alternate)
                import os
                import pathlib
                import space_packet_parser
                from mc import VERIF_ROOT
                from mc.spec import doc_xml as render_xml
                path = os.path.join(VERIF_ROOT, ".work", f"c01_{os.getpid()}.xml")
                os.makedirs(os.path.dirname(path), exist_ok=True)
                with open(path, "wb") as f:
                    f.write(render_xml(doc))
                try:
                    defn = space_packet_parser.load_xml(path if sum(kidx) % 2 else pathlib.Path(path))
                finally:
                    os.unlink(path)
            elif via == "copy":
                # a deep copy of a loaded definition is a definition like any other
                import copy
                defn = copy.deepcopy(load_doc(doc))
            else:
                defn = load_doc(doc) if via == "xml" else build_objects(doc)
    except BaseException as e:  # noqa: BLE001
        t.violation({"kind": "load-failed", "exc": type(e).__name__, "via": via}, case0, observed=str(e)[:300])
        return
    pats = base_patterns()
    apids = [1, 0] if shape == 1 else [1, 2, 3, 0]
    packets = []  # (label, pkt, outcome)
    for apid in apids:
        names = list(pats) if apid == 1 else ["index", "ones"]
        for pn in names:
            pkt, o = fit(doc, apid, pats[pn], seqcount=len(packets))
            packets.append((f"{pn}@{apid}", pkt, o))
        if apid == 1:
            # walking bit per user field: first and last bit of each decoded field set, over an all-zero payload
            z = next(o for lab, p, o in packets if lab == "zeros@1")
            if z.kind == "parsed":
                for it in z.items[7:][:6]:
                    for bit in {it.start, it.start + max(0, it.width - 1)}:
                        if it.width <= 0:
                            continue
                        pat = bytearray(320)
                        b = bit - 48
                        pat[b // 8] |= 0x80 >> (b % 8)
                        pkt, o = fit(doc, apid, bytes(pat), seqcount=len(packets))
                        packets.append((f"walk{bit}@{apid}", pkt, o))
    kinds_seen = set()
    fam = []
    for lab, pkt, o in packets:
        t.outcomes[o.kind if not o.overrun else "overrun(not judged)"] += 1
        if o.kind == "unspecified" or o.overrun:
            continue
        kinds_seen.add(o.kind)
        for ye in (True, False):
            got = observe_stream(defn, pkt, ye)
            t.evals += 1
            why = compare_stream(expected_stream([o], ye), got)
            if why:
                t.violation({"kind": "decode-mismatch", "want": o.kind, "got": got[0][0] if got else "nothing",
                             "exc": got[0][1][0] if got and got[0][0] == "raised" else None, "shape": shape,
                             "fields": sorted(set(case0["kind_names"]))[:1] if False else None},
                            {**case0, "packets": [pkt.hex()], "yield_errors": ye, "label": lab},
                            expected=(o.kind, o.why, [(i.name, i.value, i.raw) for i in o.items[7:]]),
                            observed=got[:2], note=why)
                break
        fam.append((lab, pkt, o))
    # streams: every sequence of <= 3 packets over a 4-packet family
    pick = []
    for want_lab in ("index@1", "ones@1", "index@2" if shape != 1 else "index@0", "index@3" if shape != 1 else "a5@1"):
        for lab, pkt, o in fam:
            if lab == want_lab:
                pick.append((lab, pkt, o))
    for n in ((2, 3) if long_streams else (2,)):
        for seq in itertools.product(range(len(pick)), repeat=n):
            stream = b"".join(pick[i][1] for i in seq)
            outs = [pick[i][2] for i in seq]
            for ye in (True, False):
                got = observe_stream(defn, stream, ye)
                t.evals += 1
                why = compare_stream(expected_stream(outs, ye), got)
                if why:
                    t.violation({"kind": "stream-mismatch", "shape": shape, "yield_errors": ye},
                                {**case0, "packets": [pick[i][1].hex() for i in seq], "yield_errors": ye,
                                 "labels": [pick[i][0] for i in seq]}, observed=[g[0] for g in got], note=why)
    # a root container named for one call (the nested container decoded from bit 0), then the ordinary call again on the same object
    if shape == 3 and pick:
        for lab, pkt, o in pick[:2]:
            o_n = decode_packet(doc, pkt, "NEST")
            if o_n.kind in ("parsed", "unrecognized") and not o_n.overrun:
                got = observe_stream(defn, pkt, True, root="NEST")
                t.evals += 1
                why = compare_stream(expected_stream([o_n], True), got)
                if why:
                    t.violation({"kind": "decode-mismatch", "want": o_n.kind, "root": "per-call", "shape": shape},
                                {**case0, "packets": [pkt.hex()], "yield_errors": True, "label": lab, "root": "NEST"}, observed=got[:2], note=why)
            got = observe_stream(defn, pkt, True)
            t.evals += 1
            why = compare_stream(expected_stream([o], True), got)
            if why:
                t.violation({"kind": "decode-mismatch", "want": o.kind, "after": "a call with another root container", "shape": shape},
                            {**case0, "packets": [pkt.hex()], "yield_errors": True, "label": lab, "root_history": ["NEST", None]}, observed=got[:2], note=why)
    t.programs += 1
    if "parsed" in kinds_seen and len(set(kidx)) >= 2:
        t.nontrivial += 1


def _task(task):
    t = Tally()
    for kidx, shape in task["docs"]:
        try:
            with case_alarm(120):
                check_doc(t, tuple(kidx), shape, task["via"], long_streams=task.get("tier") != "quick" or sum(kidx) % 4 == 0)
        except BaseException as e:  # noqa: BLE001
            t.violation({"kind": "check-aborted", "exc": type(e).__name__}, {"kinds": list(kidx), "shape": shape}, observed=repr(e)[:300])
    if task["docs"]:
        k, s = task["docs"][0]
        t.sample({"kinds": [pal()[i].name for i in k], "shape": {1: "flat", 2: "inherit", 3: "nested"}[s], "via": task["via"]})
    return t


def _task_mission(task):
    """The bundled mission documents, imported into DocSpec by an independent reader, on their recorded packets."""
    import os
    from mc import REPO_ROOT
    from mc.importer import import_doc
    from mc.observe import compare_outcome, parse_one
    from space_packet_parser.packets import ccsds_generator
    from space_packet_parser.xtce.definitions import XtcePacketDefinition
    t = Tally()
    path, prefix, root, data, skip = task["item"]
    try:
        with case_alarm(3000):
            doc = import_doc(os.path.join(REPO_ROOT, path), root)
            defn = XtcePacketDefinition.from_xtce(os.path.join(REPO_ROOT, path), xtce_ns_prefix=prefix, root_container_name=root)
            with open(os.path.join(REPO_ROOT, data), "rb") as f:
                for i, p in enumerate(ccsds_generator(f, skip_header_bytes=skip)):
                    if i >= task["npkts"]:
                        break
                    pkt = bytes(p)
                    want = decode_packet(doc, pkt, root)
                    with observed_warnings():
                        obs = parse_one(defn, pkt, root=root if root != "CCSDSPacket" else None)
                    t.evals += 1
                    t.outcomes["mission:" + want.kind] += 1
                    why = compare_outcome(want, obs)
                    if why:
                        t.violation({"kind": "mission-decode-mismatch", "document": os.path.basename(path)}, {"mission": path, "packet_index": i, "packet": pkt.hex()[:400]},
                                    note=why)
        t.programs += 1
        t.nontrivial += 1
    except BaseException as e:  # noqa: BLE001
        t.notes.append(f"mission document {path} could not be cross-checked ({type(e).__name__}: {str(e)[:80]})")
    return t


def plan(tier):
    P = pal()
    n = len(P)
    docs_ = []
    for a in range(n):
        for b in range(n):
            for shape in (1, 2, 3):
                docs_.append(((a, b), shape))
    if tier == "thorough":
        core = [i for i, k in enumerate(P) if k.core]
        for a in core:
            for b in core:
                for c in core:
                    docs_.append(((a, b, c), 1 + (a + b + c) % 3))
    else:
        core = [i for i, k in enumerate(P) if k.core]
        # a diagonal sample of triples in quick (full product in thorough)
        for a in core:
            for b in core:
                c = core[(core.index(a) + 2 * core.index(b) + 1) % len(core)]
                docs_.append(((a, b, c), 1 + (a + b) % 3))
    return docs_


def run(ctx):
    docs_ = plan(ctx.tier)
    tasks = [{"docs": ch, "via": "xml", "tier": ctx.tier} for ch in chunked(docs_, 160 if ctx.quick else 400)]
    tasks += [{"docs": ch, "via": "objects", "tier": ctx.tier} for ch in chunked(docs_[::9], 24)]
    tasks += [{"docs": ch, "via": "file", "tier": ctx.tier} for ch in chunked(docs_[5::23], 24)]
    tasks += [{"docs": ch, "via": "copy", "tier": ctx.tier} for ch in chunked(docs_[11::29], 24)]
    tally = fan_out(_task, tasks, jobs=ctx.jobs, seed=ctx.seed)
    from mc.checks.c09 import BUNDLED
    # the 1.6 MB CTIM document takes ~15 s to load twice: thorough tier only
    mission = [{"item": b, "npkts": 120 if ctx.quick else 10 ** 9} for b in BUNDLED if b[3] and not (ctx.quick and "ctim" in b[0])]
    tally.merge(fan_out(_task_mission, mission, jobs=ctx.jobs, mem_gib=None))
    n = len(pal())
    ncore = sum(k.core for k in pal())
    coverage = {
        "programs": tally.programs,
        "exhaustive": True,
        "bound": (f"every ordered pair of a {n}-kind palette in 3 container shapes ({n * n * 3} documents)"
                  + (f" + every ordered triple of the {ncore}-kind core palette" if not ctx.quick else f" + {ncore * ncore} triples (diagonal sample) of the core palette")
                  + "; per document: 8 payload patterns + a walking bit at both ends of each field on the defined APID, 2 patterns on every other APID, "
                    "each as a single-packet stream with and without error reporting, and every stream of 2 (and, " + ("for every 4th document, " if ctx.quick else "") + "3) packets over a 4-packet family; "
                    "every 9th document also built from objects, every 23rd also loaded with space_packet_parser.load_xml from a file; plus the bundled mission documents (4 in the quick tier, 5 in thorough) (imported by an independent XML reader) on their "
                    + ("first 120 recorded packets" if ctx.quick else "complete recorded packet files (15 990 packets)")),
        "rule": ("one evaluation = one generator run over one stream; distinct non-trivial = documents with >= 2 distinct field kinds for which at "
                 "least one packet decoded completely"),
    }
    return {"level": LEVEL, "tally": tally, "coverage": coverage,
            "assumptions": ["packets may carry trailing pad bits (a length-mismatch warning is not an error for this property)",
                            "fields that run off the end of the packet are C14's business and not judged here"]}


def replay(case):
    t = Tally()
    check_doc(t, tuple(case["kinds"]), case["shape"], case.get("via", "xml"))
    for v in t.violations:
        if v["case"].get("packets") == case.get("packets") and v["case"].get("yield_errors") == case.get("yield_errors"):
            return v
    return None


def repro_py(case):
    from mc.spec import doc_xml as render_xml
    doc = compose(tuple(case["kinds"]), case["shape"])
    return ("import io\nfrom space_packet_parser.xtce.definitions import XtcePacketDefinition\n"
            f"xml = {render_xml(doc)!r}\nd = XtcePacketDefinition.from_xtce(io.BytesIO(xml))\n"
            f"stream = b''.join(bytes.fromhex(h) for h in {case.get('packets')!r})\n"
            f"for p in d.packet_generator(stream, yield_unrecognized_packet_errors={case.get('yield_errors')!r}):\n    print(p)\n")
