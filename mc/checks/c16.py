"""C16 — Loading is independent of lexical spelling and of earlier loads.

Spellings (E-prod): base documents x namespace renderings {prefix xtce, prefix q, default namespace,
no namespace, no namespace + unrelated xmlns:xsi} x a comment inserted at EVERY inter-element
position (one at a time, and all at once) x whitespace {none, newline + indent}.
Histories (E-hist): operation menu = loads of (document, rendering) with the right prefix, with a
wrong prefix (fails after touching class state), of malformed XML (fails before); EVERY history up
to a length bound followed by EVERY target load, plus a breadth-first closure over the real
class-level namespace state to a fixed point.  Oracle: the canonical form obtained for that
document in a fresh interpreter.
"""
from __future__ import annotations

import io
import json
import os
import subprocess
import sys

from mc import VERIF_ROOT
from mc.canon import canon_definition, diff_canon, footprint_changes, package_footprint
from mc.checks import c01, c05
from mc.kernel import Tally, case_alarm, chunked, digest, fan_out
from mc.spec import NS_STYLES, count_positions, ns_prefix_arg, render_xml

PROP = "C16"
LEVEL = "model_checking"


def kind_index(name):
    for i, k in enumerate(c01.pal()):
        if k.name == name:
            return i
    raise KeyError(name)


def base_docs():
    ki = kind_index
    return [
        c01.compose((ki("u8+ctx3(earlier)+default"), ki("u8+spline1+extrapolate"), ki("enum-s4")), 3),
        c01.compose((ki("u3"), ki("str-dyn(raw ref, x8)"), ki("bin-lookup")), 2),
        c01.compose((ki("abstime-u32(scale,offset,units,epoch)"), ki("str24-term00-utf8"), ki("str24-lead8-ascii")), 1),
        c01.compose((ki("u8+ctx(own raw)"), ki("f32+poly"), ki("str-lookup(3 entries)")), 3),
        c05.make_doc(n=3, parents=(0, 1), crits=(5, 4), abstract_bits=1, nest=1, children_first=False, other_names=False),
        c05.make_doc(n=3, parents=(0, 0), crits=(3, 6), abstract_bits=3, nest=2, children_first=True, other_names=True),
        _same_names_other_content(c05.make_doc(n=3, parents=(0, 0), crits=(3, 6), abstract_bits=3, nest=2, children_first=True, other_names=True)),
    ]


def _same_names_other_content(doc):
    """The same container names and document shape as the previous base document (children listed before their base container, the base
    nesting NEST), but NEST and C1 hold other entries: anything remembered by *name* across loads gives this document the wrong content."""
    import dataclasses
    conts = []
    for c in doc.containers:
        if c.name == "NEST":
            c = dataclasses.replace(c, entries=(("p", "TAILM"), ("p", "NM")))
        elif c.name == "C1":
            # ... and a description that consists of two blanks
            c = dataclasses.replace(c, entries=tuple(c.entries) + (("p", "LM"),), long="  ")
        conts.append(c)
    return dataclasses.replace(doc, containers=tuple(conts))


def loose_docs():
    """Documents outside the schema that the loader nevertheless accepts; whatever it makes of them, it has to make the same of them after any
    history.  -> [(label, xml, prefix, root)]"""
    from mc.spec import El, doc_tree
    out = []
    doc = base_docs()[3]
    for first in ("IntegerDataEncoding", "FloatDataEncoding"):
        tree = doc_tree(doc)

        def walk(e):
            if e.tag in ("IntegerParameterType", "FloatParameterType"):
                for i, k in enumerate(e.children):
                    if k.tag in ("IntegerDataEncoding", "FloatDataEncoding"):
                        other = (El("FloatDataEncoding", {"sizeInBits": "32"}) if k.tag == "IntegerDataEncoding"
                                 else El("IntegerDataEncoding", {"sizeInBits": "32", "encoding": "unsigned"}))
                        e.children[i:i + 1] = [k, other] if k.tag == first else [other, k]
                        break
            for k in e.children:
                walk(k)
        walk(tree)
        out.append((f"two-encodings({first} first)", render_xml(doc, "xtce", tree=tree), "xtce", doc.root, False))
    # documents the library warns about (a Boolean type on a string encoding), loaded by a caller who turns warnings into errors ("strict") and
    # by one who does not: the outcome - an error for the first, a definition for the second - is the same after any history
    from mc.spec import Container, Doc, Fixed, Param, PType, StrEnc, header_entries, header_params, header_ptypes
    bdoc = Doc(tuple(header_ptypes()) + (PType("BS_T", "Boolean", StrEnc(Fixed(8), "US-ASCII")),), tuple(header_params()) + (Param("BS", "BS_T"),),
               (Container("CCSDSPacket", tuple(header_entries()) + (("p", "BS"),)),))
    out.append(("boolean-on-string(strict caller)", render_xml(bdoc, "xtce"), "xtce", bdoc.root, True))
    out.append(("boolean-on-string", render_xml(bdoc, "xtce"), "xtce", bdoc.root, False))
    return out


def expected(base, idx):
    b = base[idx]
    return ("raised", b[8:]) if isinstance(b, str) and b.startswith("!raised:") else ("loaded", b)


class StreamClosedByLoader(RuntimeError):
    pass


def load_bytes(xml: bytes, prefix, root="CCSDSPacket"):
    from space_packet_parser.xtce.definitions import XtcePacketDefinition
    stream = io.BytesIO(xml)
    try:
        return XtcePacketDefinition.from_xtce(stream, xtce_ns_prefix=prefix, root_container_name=root)
    finally:
        # the stream is the caller's: after the load (successful or not) it is still open, so that the caller can rewind it and load again
        if stream.closed:
            raise StreamClosedByLoader("from_xtce closed the stream it was handed")


def load_form(xml: bytes, prefix, root, form: int):
    """The same document handed to the loader in the forms it accepts: in-memory binary file, binary file object, text file object, str path,
    pathlib.Path."""
    from space_packet_parser.xtce.definitions import XtcePacketDefinition
    if form == 0:
        return load_bytes(xml, prefix, root)
    import pathlib
    path = os.path.join(VERIF_ROOT, ".work", f"c16 [x]%s{{0}}_{os.getpid()}.xml")   # the path is a label: brackets, % and braces mean nothing
    os.makedirs(os.path.dirname(path), exist_ok=True)
    with open(path, "wb") as f:
        f.write(xml)
    try:
        if form == 1:
            with open(path, "rb") as f:
                return XtcePacketDefinition.from_xtce(f, xtce_ns_prefix=prefix, root_container_name=root)
        if form == 2:
            with open(path, "r", encoding="utf-8") as f:
                return XtcePacketDefinition.from_xtce(f, xtce_ns_prefix=prefix, root_container_name=root)
        if prefix == "xtce" and root == "CCSDSPacket":
            # the documented front door for the conventional prefix and root (the path is re-used from load to load)
            import space_packet_parser
            return space_packet_parser.load_xml(path if form == 3 else pathlib.Path(path))
        return XtcePacketDefinition.from_xtce(path if form == 3 else pathlib.Path(path), xtce_ns_prefix=prefix, root_container_name=root)
    finally:
        os.unlink(path)


def canon_digest(defn):
    return digest(repr(canon_definition(defn)))


# ----------------------------------------------------------------------------- fresh-interpreter baselines
def emit_baselines():
    """Subprocess entry: for every base document, the canon digest when it is the FIRST load of a fresh interpreter
    is approximated by loading each in its own process (see baselines())."""
    import logging
    logging.disable(logging.CRITICAL)
    i = int(sys.argv[1])
    nb = len(base_docs())
    if i >= nb:
        _, xml, prefix, root, strict = loose_docs()[i - nb]
        r = do_op(("baseline", xml, prefix, root, i, True, strict))
        print(json.dumps({"digest": r[1] if r[0] == "loaded" else "!raised:" + r[1]}))
        return
    else:
        doc = base_docs()[i]
        d = load_bytes(render_xml(doc, "xtce"), "xtce", doc.root)
    print(json.dumps({"digest": canon_digest(d)}))


def baselines():
    out = []
    env = dict(os.environ, PYTHONDONTWRITEBYTECODE="1")
    procs = []
    for i in range(len(base_docs()) + len(loose_docs())):
        procs.append(subprocess.Popen([sys.executable, "-c", "from mc.checks.c16 import emit_baselines; emit_baselines()", str(i)],
                                      cwd=VERIF_ROOT, env=env, stdout=subprocess.PIPE, stderr=subprocess.PIPE, text=True))
    for p in procs:
        so, se = p.communicate(timeout=600)
        if p.returncode != 0:
            out.append(None)
        else:
            out.append(json.loads(so.strip().splitlines()[-1])["digest"])
    return out


# ----------------------------------------------------------------------------- spellings
def _task_spellings(task):
    t = Tally()
    docs_ = base_docs()
    di = task["doc"]
    doc = docs_[di]
    base = task["baseline"]
    npos = count_positions(doc)
    with case_alarm(1500):
        for style in task["styles"]:
            prefix = ns_prefix_arg(style)
            variants = [(None, False), (None, True), ("all", False), ("all", True)] + [({i}, ws) for i in task["positions"] for ws in task["ws"]]
            variants = [v + ("lower", False) for v in variants] + [(None, False, "title", False), (None, True, "upper", False), ("all", False, "upper", False),
                                                                    ("all", True, "title", False), (None, False, "lower", True), ("all", True, "upper", True)]
            variants = [v + ("plain",) for v in variants] + [(c, w, "lower", False, ts) for ts in ("charref", "entity", "cdata") for c, w in ((None, False), ("all", True))]
            # schema attributes that do not bear on decoding (signed, sizeInBits, initialValue on parameter types), alone and with the defaults left out
            # the document stored in another character encoding (named in its XML declaration)
            variants += [(None, False, "lower", False, "plain+utf16"), ("all", True, "lower", False, "charref+latin1"), (None, True, "upper", True, "plain+latin1")]
            variants += [(None, False, "lower", False, "plain+padded"), ("all", False, "title", False, "cdata+padded+attrs")]
            variants += [(None, False, "lower", False, "plain+attrs"), (None, True, "title", True, "plain+attrs"), ("all", False, "lower", True, "entity+attrs")]
            for comments, ws, bool_case, omit, text_style in variants:
                case = {"doc": di, "style": style, "comments": "all" if comments == "all" else sorted(comments) if comments else None,
                        "whitespace": ws, "bool_case": bool_case, "omit_defaults": omit, "text_style": text_style}
                xenc = "UTF-16" if "+utf16" in text_style else "ISO-8859-1" if "+latin1" in text_style else "UTF-8"
                xml = render_xml(doc, style, comments=comments, whitespace=ws, bool_case=bool_case, omit_defaults=omit, text_style=text_style.split("+")[0],
                                 extra_attrs="+attrs" in text_style, xml_encoding=xenc, padded_numbers="+padded" in text_style)
                t.evals += 1
                form = t.evals % 5
                if xenc != "UTF-8" and form == 2:
                    form = 1   # a text file object is the caller's decoding, not the document's
                case["form"] = ("BytesIO", "binary file object", "text file object", "str path", "pathlib.Path")[form]
                try:
                    d = load_form(xml, prefix, doc.root, form)
                    got = canon_digest(d)
                except Exception as e:  # noqa: BLE001
                    t.outcomes["load-raised"] += 1
                    t.violation({"kind": "spelling-load-failed", "exc": type(e).__name__, "style": style if comments is None else "*",
                                 "comment": comments is not None},
                                case, observed=f"{type(e).__name__}: {str(e)[:200]}", note="a lexical variant of a loadable document fails to load")
                    continue
                t.outcomes["loaded"] += 1
                if got != base:
                    ref = canon_definition(load_bytes(render_xml(doc, "xtce"), "xtce", doc.root))
                    t.violation({"kind": "spelling-changes-definition", "style": style if comments is None else "*", "comment": comments is not None},
                                case, observed=diff_canon(ref, canon_definition(d)), note="the definition depends on the lexical spelling")
            t.nontrivial += 1
    t.sample({"doc": di, "styles": task["styles"], "comment_positions": f"{task['positions'][:1]}..{task['positions'][-1:]} of {npos}", "whitespace": task["ws"]})
    return t


# ----------------------------------------------------------------------------- histories
def op_menu():
    """-> list of (label, xml, prefix, root, doc index or None, should_succeed)"""
    docs_ = base_docs()
    ops = []
    picks = [(0, "xtce"), (0, "default"), (1, "q"), (1, "none"), (2, "default"), (2, "XTCE"), (3, "none+xsi"), (3, "q"), (4, "none"), (5, "xtce"), (6, "xtce")]
    for di, style in picks:
        ops.append((f"ok:{di}:{style}", render_xml(docs_[di], style), ns_prefix_arg(style), docs_[di].root, di, True))
    ops.append(("wrongprefix:0:xtce-as-q", render_xml(docs_[0], "xtce"), "q", docs_[0].root, None, False))
    ops.append(("wrongprefix:1:q-as-None", render_xml(docs_[1], "q"), None, docs_[1].root, None, False))
    ops.append(("wrongprefix:2:none-as-xtce", render_xml(docs_[2], "none"), "xtce", docs_[2].root, None, False))
    # loads that fail late: inside the container set (after base/nested lookups happened), and inside the parameter set
    from mc.spec import El, doc_tree

    def corrupt(doc, tag, attr, which=-1):
        tree = doc_tree(doc)
        hits = []

        def walk(e):
            if e.tag == tag:
                hits.append(e)
            for k in e.children:
                walk(k)
        walk(tree)
        hits[which].attrs[attr] = "UNDEFINED_NAME_X"
        return tree
    ops.append(("latefail:0:xtce:dangling-parameterRef", render_xml(docs_[0], "xtce", tree=corrupt(docs_[0], "ParameterRefEntry", "parameterRef")), "xtce",
                docs_[0].root, None, False))
    ops.append(("latefail:4:none:dangling-parameterRef", render_xml(docs_[4], "none", tree=corrupt(docs_[4], "ParameterRefEntry", "parameterRef")), None,
                docs_[4].root, None, False))
    ops.append(("latefail:3:default:dangling-containerRef", render_xml(docs_[3], "default", tree=corrupt(docs_[3], "ContainerRefEntry", "containerRef")), None,
                docs_[3].root, None, False))
    ops.append(("latefail:1:q:dangling-typeRef", render_xml(docs_[1], "q", tree=corrupt(docs_[1], "Parameter", "parameterTypeRef")), "q", docs_[1].root, None, False))
    # loads that fail because a container refers back to itself (nests itself / is its own base), for containers that other documents of the
    # menu define under the same name and refer to BEFORE they define them
    def cyclic(doc, name, how):
        tree = doc_tree(doc)
        for e in walk_all(tree):
            if e.tag == "SequenceContainer" and e.attrs.get("name") == name:
                if how == "nest":
                    next(k for k in e.children if k.tag == "EntryList").children.append(El("ContainerRefEntry", {"containerRef": name}))
                else:
                    e.children = [k for k in e.children if k.tag != "BaseContainer"]
                    idx = next(i for i, k in enumerate(e.children) if k.tag == "EntryList")
                    e.children.insert(idx, El("BaseContainer", {"containerRef": name}))
        return tree
    for di, name, how in ((5, "NEST", "nest"), (5, "C1", "base")):
        if any(c.name == name for c in docs_[di].containers):
            ops.append((f"latefail:{di}:xtce:cycle-{how}-{name}", render_xml(docs_[di], "xtce", tree=cyclic(docs_[di], name, how)), "xtce", docs_[di].root, None, False))
    ops.append(("malformed:truncated", render_xml(docs_[0], "xtce")[:400], "xtce", "CCSDSPacket", None, False))
    ops.append(("malformed:not-xml", b"this is not xml", "xtce", "CCSDSPacket", None, False))
    for k, (label, xml, prefix, root, strict) in enumerate(loose_docs()):
        ops.append((f"ok:{len(docs_) + k}:xtce:{label}", xml, prefix, root, len(docs_) + k, True, strict))
    return ops


def walk_all(e):
    yield e
    for k in e.children:
        yield from walk_all(k)


def class_state():
    from space_packet_parser.common import NamespaceAwareElement as N
    nm = getattr(N, "_nsmap", None)
    return (tuple(sorted((str(k), v) for k, v in (nm or {}).items())), getattr(N, "_ns_prefix", None))


def do_op(op):
    label, xml, prefix, root, di, ok = op[:6]
    strict = len(op) > 6 and op[6]
    import warnings
    lim = None
    if "cycle-" in label:
        # a container that refers back to itself is followed until the interpreter's recursion limit stops it: a lower limit, same outcome
        lim = sys.getrecursionlimit()
        depth, fr = 0, sys._getframe()
        while fr is not None:
            depth, fr = depth + 1, fr.f_back
        sys.setrecursionlimit(depth + 120)
    try:
        with warnings.catch_warnings():
            warnings.simplefilter("error" if strict else "ignore")
            try:
                d = load_bytes(xml, prefix, root)
            finally:
                if lim is not None:
                    sys.setrecursionlimit(lim)
        return ("loaded", canon_digest(d))
    except Exception as e:  # noqa: BLE001
        return ("raised", type(e).__name__)


def _task_histories(task):
    t = Tally()
    ops = op_menu()
    targets = [i for i, o in enumerate(ops) if o[5]]
    if task["length"] >= 4:
        targets = targets[::3]  # the longest histories are followed by every third target (one per namespace convention)
    elif task["length"] == 3 and task.get("quick"):
        # quick tier: histories of three operations are followed by every other document-rendering target and by every loose / strict target
        targets = sorted(set(targets[::2]) | {i for i in targets if len(ops[i]) > 6})
    base = task["baselines"]
    fp0 = None
    states = set()
    import itertools
    with case_alarm(3000):
        for first in task["firsts"]:
            for rest in itertools.product(range(len(ops)), repeat=task["length"] - 1):
                hist = (first,) + rest
                if task.get("quick") and task["length"] == 3 and sum(hist) % 2:
                    continue   # quick tier: every other history of three operations
                for oi in hist:
                    do_op(ops[oi])
                    t.transitions += 1
                st = class_state()
                states.add(st)
                if fp0 is None:
                    fp0 = {k: v for k, v in package_footprint().items() if "NamespaceAwareElement._ns" not in k}
                for ti in targets:
                    r = do_op(ops[ti])
                    t.evals += 1
                    t.transitions += 1
                    if r != expected(base, ops[ti][4]):
                        t.violation({"kind": "history-dependent-load", "target": ops[ti][0].split(":")[2], "got": r[0],
                                     "exc": r[1] if r[0] == "raised" else None},
                                    {"history": [ops[i][0] for i in hist], "hist_idx": list(hist), "target": ops[ti][0], "target_idx": ti},
                                    observed=r, note="loading after this history differs from loading first in a fresh interpreter")
                t.traces += 1
                t.nontrivial += 1
        if fp0 is not None:
            fp1 = {k: v for k, v in package_footprint().items() if "NamespaceAwareElement._ns" not in k}
            ch = footprint_changes(fp0, fp1)
            if ch:
                t.notes.append("package-level state changed while the check ran (not a violation by itself): " + ", ".join(ch[:6]))
    t.states = len(states)
    t.extra["distinct_class_states"] = len(states)
    return t


def closure(t: Tally, base):
    """Breadth-first closure over the REAL class state (nsmap items, prefix): from every reachable state, every op."""
    ops = op_menu()
    targets = [i for i, o in enumerate(ops) if o[5]]
    seen = {}
    frontier = [()]
    while frontier:
        nxt = []
        for hist in frontier:
            for oi in range(len(ops)):
                for h in hist:
                    do_op(ops[h])
                do_op(ops[oi])
                st = class_state()
                t.transitions += len(hist) + 1
                if st in seen:
                    continue
                seen[st] = hist + (oi,)
                nxt.append(hist + (oi,))
                for ti in targets:
                    r = do_op(ops[ti])
                    # re-establish the state for the next target
                    for h in hist + (oi,):
                        do_op(ops[h])
                    t.evals += 1
                    if r != expected(base, ops[ti][4]):
                        t.violation({"kind": "history-dependent-load", "target": ops[ti][0].split(":")[2], "got": r[0], "where": "closure"},
                                    {"hist_idx": list(hist + (oi,)), "target_idx": ti, "target": ops[ti][0], "class_state": st}, observed=r)
        frontier = nxt
    t.extra["closure_reachable_class_states"] = len(seen)
    return len(seen)


def run(ctx):
    base = baselines()
    tally = Tally()
    if any(b is None for b in base):
        tally.violation({"kind": "baseline-load-failed"}, {"baselines": base}, note="a base document cannot be loaded first in a fresh interpreter")
        base = [b or "none" for b in base]
    docs_ = base_docs()
    tasks = []
    for di, doc in enumerate(docs_):
        npos = count_positions(doc)
        for style in NS_STYLES + ("both:unprefixed,loaded-as-xtce", "both:prefixed,loaded-as-default", "xtce+foreign-default", "xtce+extras"):
            if ctx.quick and style in ("q", "none+xsi", "XTCE", "both:unprefixed,loaded-as-xtce", "both:prefixed,loaded-as-default", "xtce+foreign-default", "xtce+extras"):
                pos = list(range(0, npos, 3))
                ws = [False]
            else:
                pos = list(range(npos))
                ws = [False, True] if (not ctx.quick or style == "default") else [False]
            tasks.append({"doc": di, "styles": [style], "positions": pos, "ws": ws, "baseline": base[di]})
    tally.merge(fan_out(_task_spellings, tasks, jobs=ctx.jobs, seed=ctx.seed))
    nops = len(op_menu())
    htasks = []
    for n in range(1, (3 if ctx.quick else 4) + 1):
        if n <= 2:
            htasks.append({"length": n, "firsts": list(range(nops)), "baselines": base})
        else:
            htasks += [{"length": n, "firsts": [f], "baselines": base, "quick": ctx.quick} for f in range(nops)]
    tally.merge(fan_out(_task_histories, htasks, jobs=ctx.jobs, seed=ctx.seed))
    nstates = closure(tally, base)
    coverage = {
        "states": nstates,
        "transitions": tally.transitions,
        "traces_validated_against_impl": tally.traces,
        "exhaustive": True,
        "bound": (f"spellings: {len(docs_)} base documents x 10 namespace renderings (prefix xtce, prefix q, an upper-case prefix XTCE, default namespace, none, none + xmlns:xsi, and the namespace bound twice on the root with the loader told the binding the elements do not use, the XTCE prefix next to a foreign default namespace, and next to five unrelated prefixes) x a comment at every inter-element position "
                  f"({'every position for prefix xtce/default/none, every third for q and none+xsi' if ctx.quick else 'every position'}), all at once, "
                  f"x whitespace variants x boolean attribute spellings true, True, TRUE x (every attribute written | attributes that equal their documented default left out) x character spellings (plain | numeric character references in text and attribute values | general entities of an internal DTD subset | CDATA sections) x document encodings (UTF-8, UTF-16, ISO-8859-1) x (schema attributes that do not bear on decoding absent | present), handed over in rotation as BytesIO / binary file object / text file object / str path / pathlib.Path; histories: every sequence of <= {3 if ctx.quick else 4} operations over a {nops}-operation menu "
                  "(15 target loads in different namespace conventions, two of them of documents with identical names and shape but different content, 2 loads of documents whose types carry two encodings in either order, a document the library warns about loaded by a caller who turns warnings into errors and by one who does not, 3 wrong-prefix loads, 4 loads that fail late inside the container/parameter set, loads that fail on a container that nests itself or is its own base, 2 malformed inputs) followed by every target load (histories of length 4: every third target; quick tier, length 3: every other history, followed by every other rendering target and all loose / strict targets); "
                  "breadth-first closure over the real class-level namespace state to a fixed point"),
        "rule": ("one evaluation = one load compared with the fresh-interpreter canonical form; states = reachable class-level (nsmap, prefix) states "
                 "(complete); transitions = loads performed; traces = histories replayed"),
    }
    return {"level": LEVEL, "tally": tally, "coverage": coverage,
            "assumptions": ["baselines come from separate fresh interpreter processes, one per base document",
                            "namespace map and prefix are excluded from 'the definition' (they are the spelling)"]}


def replay(case):
    t = Tally()
    base = baselines()
    if "history" in case or "hist_idx" in case:
        ops = op_menu()
        for oi in case["hist_idx"]:
            do_op(ops[oi])
        r = do_op(ops[case["target_idx"]])
        if r != expected(base, ops[case["target_idx"]][4]):
            return {"sig": {"kind": "history-dependent-load", "target": ops[case["target_idx"]][0].split(":")[2], "got": r[0],
                            "exc": r[1] if r[0] == "raised" else None}, "case": case, "observed": r}
        return None
    comments = case.get("comments")
    comments = "all" if comments == "all" else set(comments) if comments else None
    doc = base_docs()[case["doc"]]
    xml = render_xml(doc, case["style"], comments=comments, whitespace=case["whitespace"], bool_case=case.get("bool_case", "lower"), omit_defaults=case.get("omit_defaults", False),
                     text_style=case.get("text_style", "plain").split("+")[0], extra_attrs="+attrs" in case.get("text_style", ""),
                     padded_numbers="+padded" in case.get("text_style", ""),
                     xml_encoding="UTF-16" if "+utf16" in case.get("text_style", "") else "ISO-8859-1" if "+latin1" in case.get("text_style", "") else "UTF-8")
    try:
        forms = ("BytesIO", "binary file object", "text file object", "str path", "pathlib.Path")
        d = load_form(xml, ns_prefix_arg(case["style"]), doc.root, forms.index(case["form"]) if case.get("form") in forms else 0)
    except Exception as e:  # noqa: BLE001
        return {"sig": {"kind": "spelling-load-failed", "exc": type(e).__name__, "style": case["style"] if comments is None else "*",
                        "comment": comments is not None}, "case": case, "observed": str(e)[:200]}
    if canon_digest(d) != base[case["doc"]]:
        return {"sig": {"kind": "spelling-changes-definition"}, "case": case}
    return None


def repro_py(case):
    return f"# {case!r}\n# ./check C16 --replay <this file> re-renders the document / replays the load history\n"
