"""C19 — CLI listings show each packet once, in order, and never hang or crash.

E-prod through click's test runner with a fixed terminal width.  Files of n = 0..13 packets
(distinct APID and sequence count per packet), each also truncated mid-packet; for `parse`,
every index 0..n+1.  Oracle: rows parsed from the printed table / the printed packet.
"""
from __future__ import annotations

import os
import re

from mc import framing
from mc.checks.c10 import HEADER_ONLY_XTCE
from mc.kernel import CaseTimeout, Tally, case_alarm, fan_out

PROP = "C19"
LEVEL = "exploration"


def packets_for(n):
    return [framing.mk_packet(bytes([0xA0 + i] * ((i % 3) + 1)), apid=100 + i, seqcount=1000 + i, seqflags=3) for i in range(n)]


def header_tuple(p):
    return framing.header_fields(p)


ROW = re.compile(r"^[^0-9A-Za-z.]*((?:\d+|\.\.\.)(?:[^0-9A-Za-z.]+(?:\d+|\.\.\.)){6})[^0-9A-Za-z.]*$")


def table_rows(output: str):
    rows = []
    for line in output.splitlines():
        m = ROW.match(line.strip())
        if not m:
            continue
        toks = re.findall(r"\d+|\.\.\.", m.group(1))
        if len(toks) == 7:
            rows.append(tuple("..." if x == "..." else int(x) for x in toks))
    return rows


def invoke(args):
    from click.testing import CliRunner
    from space_packet_parser import cli
    # a command-line run is a process of its own: the logging configuration an earlier run in this worker left on the root logger is taken
    # away first (logging.basicConfig does nothing once the root logger has a handler), and put back afterwards
    import logging
    root = logging.getLogger()
    saved = (list(root.handlers), root.level)
    for h in saved[0]:
        root.removeHandler(h)
    root.setLevel(logging.WARNING)
    try:
        with case_alarm(15):
            r = CliRunner().invoke(cli.spp, args)
    except CaseTimeout:
        return ("timeout", None, "")
    except MemoryError:
        return ("memory", None, "")
    finally:
        for h in list(root.handlers):
            root.removeHandler(h)
        for h in saved[0]:
            root.addHandler(h)
        root.setLevel(saved[1])
    exc = None
    if r.exception is not None and not isinstance(r.exception, SystemExit):
        exc = type(r.exception).__name__
    return (r.exit_code, exc, r.output)


def _task(task):
    t = Tally()
    work = task["work"]
    os.makedirs(work, exist_ok=True)
    xtce = os.path.join(work, f"c19_{os.getpid()}.xml")
    with open(xtce, "wb") as f:
        f.write(HEADER_ONLY_XTCE)
    for n in task["ns"]:
        pkts = packets_for(n)
        for trunc in (None, 3, 7):
            data = b"".join(pkts)
            if trunc is not None:
                extra = framing.mk_packet(b"\x01\x02\x03\x04\x05", apid=999, seqcount=1)[:trunc]
                data += extra
            path = os.path.join(work, f"c19_{os.getpid()}_{n}.bin")
            with open(path, "wb") as f:
                f.write(data)
            # ---- describe-packets
            code, exc, out = invoke(["describe-packets", path])
            t.evals += 1
            case = {"cmd": "describe-packets", "n": n, "truncated_tail_bytes": trunc}
            want_rows = [header_tuple(p) for p in pkts]
            if n > 10:
                want_rows = want_rows[:5] + [("...",) * 7] + want_rows[-5:]
            rows = table_rows(out)
            klass = "empty" if n == 0 else "all-rows" if n <= 10 else "elided"
            t.outcomes[f"describe:{klass}"] += 1
            if code != 0 or exc:
                t.violation({"kind": "cli-crash", "cmd": "describe-packets", "exit": str(code), "exc": exc, "empty_file": n == 0 and trunc is None}, case,
                            observed=out[-400:], note="command did not end with exit code 0")
            elif rows != want_rows:
                dup = len(rows) > len(want_rows)
                t.violation({"kind": "listing-wrong", "class": klass, "duplicates": dup}, case, expected=want_rows[:12], observed=rows[:24],
                            note="printed rows differ from the packets in the file")
            t.nontrivial += 1
            # ---- parse --packet i
            if trunc not in (None, 3):
                continue
            for i in range(0, n + 2):
                code, exc, out = invoke(["parse", path, xtce, "--packet", str(i)])
                t.evals += 1
                case = {"cmd": "parse", "n": n, "index": i, "truncated_tail_bytes": trunc}
                shown = [int(x) for x in re.findall(r"'PKT_APID':\s*(\d+)", out)]
                valid = 0 <= i < n
                t.outcomes[f"parse:{'valid' if valid else 'out-of-range'}"] += 1
                if code != 0 or exc:
                    t.violation({"kind": "cli-crash", "cmd": "parse", "exit": str(code), "exc": exc, "index_rel": "n" if i == n else "n+1" if i == n + 1 else "valid"},
                                case, observed=out[-400:], note="command did not end with exit code 0")
                elif valid and shown != [100 + i]:
                    t.violation({"kind": "parse-shows-wrong-packet"}, case, expected=[100 + i], observed=shown[:5])
                elif not valid and (shown or not out.strip()):
                    t.violation({"kind": "parse-out-of-range-not-reported"}, case, observed=out[-300:])
                t.nontrivial += 1
            # without --packet: every packet once, in order (the default max_items shows up to 20 entries)
            code, exc, out = invoke(["parse", path, xtce])
            t.evals += 1
            shown = [int(x) for x in re.findall(r"'PKT_APID':\s*(\d+)", out)]
            if code != 0 or exc:
                t.violation({"kind": "cli-crash", "cmd": "parse-all", "exit": str(code), "exc": exc}, {"cmd": "parse", "n": n}, observed=out[-400:])
            elif shown != [100 + i for i in range(min(n, 20))]:  # --max-items defaults to 20: longer lists are elided by design
                t.violation({"kind": "parse-all-wrong"}, {"cmd": "parse", "n": n}, expected=[100 + i for i in range(min(n, 20))], observed=shown[:24])
            os.unlink(path)
        # --skip-header-bytes: files whose packets are preceded by 4 foreign bytes, complete and with a tail cut short by 1..5 bytes
        if n in task.get("skip_ns", (0, 3, 12)):
            for cut in (0, 1, 3, 4, 5):
                recs = [bytes([0xF0 + (i % 8)] * 4) + p for i, p in enumerate(pkts)]
                extra = (b"\xEE\xEE\xEE\xEE" + framing.mk_packet(b"\x01\x02\x03\x04\x05\x06", apid=999, seqcount=1))
                data = b"".join(recs) + (extra[:-cut] if cut else b"")
                path = os.path.join(work, f"c19_{os.getpid()}_{n}_skip.bin")
                with open(path, "wb") as f:
                    f.write(data)
                code, exc, out = invoke(["parse", path, xtce, "--skip-header-bytes", "4"])
                t.evals += 1
                shown = [int(x) for x in re.findall(r"'PKT_APID':\s*(\d+)", out)]
                want = [100 + i for i in range(n)][:20]
                case = {"cmd": "parse --skip-header-bytes 4", "n": n, "tail_cut": cut}
                if code != 0 or exc:
                    t.violation({"kind": "cli-crash", "cmd": "parse-skip", "exit": str(code), "exc": exc}, case, observed=out[-300:])
                elif shown != want:
                    t.violation({"kind": "parse-skip-wrong"}, case, expected=want, observed=shown[:24], note="packets shown with --skip-header-bytes differ from the complete records in the file")
                code, exc, out = invoke(["parse", path, xtce, "--skip-header-bytes", "4", "--packet", str(n)])
                t.evals += 1
                shown = [int(x) for x in re.findall(r"'PKT_APID':\s*(\d+)", out)]
                if code != 0 or exc:
                    t.violation({"kind": "cli-crash", "cmd": "parse-skip-index", "exit": str(code), "exc": exc}, case, observed=out[-300:])
                elif shown or not out.strip():
                    t.violation({"kind": "parse-out-of-range-not-reported", "skip": True}, {**case, "index": n}, observed=out[-300:])
                t.nontrivial += 1
                os.unlink(path)
    os.unlink(xtce)
    t.sample({"n": task["ns"][0], "commands": ["describe-packets", "parse --packet 0..n+1", "parse"], "truncated_tails": [None, 3, 7]})
    return t


UNITS = None


def units():
    """Building blocks of 'any file': well-formed packets with extreme header values, garbage bytes, a header that promises more than follows."""
    global UNITS
    if UNITS is None:
        UNITS = [
            framing.mk_packet(b"\x11", apid=2047, seqcount=16383, version=7, type_=1, shflag=1, seqflags=3),   # every header field at its maximum
            framing.mk_packet(b"\x00\x00", apid=0, seqcount=0, seqflags=0),                                    # every header field zero
            framing.mk_packet(b"\x21\x22\x23", apid=300, seqcount=9, seqflags=1),
            b"\x00",                                                                                             # stray byte: shifts everything after it
            b"\xff\xff\xff",
            b"\x08\x64\xc0\x01\x00\x09\xaa",                                                               # header promising 10 data bytes, 1 present
        ]
    return UNITS


def _expect_listing(pkts):
    want_rows = [header_tuple(p) for p in pkts]
    if len(want_rows) > 10:
        want_rows = want_rows[:5] + [("...",) * 7] + want_rows[-5:]
    return want_rows


def _task_anyfile(task):
    """Files that are not tidy packet streams: every sequence of units (see units()), and every short byte string over a small alphabet.
    Expected content: the greedy framing of the bytes (mc.framing.ref_frame), whatever they are."""
    t = Tally()
    work = task["work"]
    os.makedirs(work, exist_ok=True)
    xtce = os.path.join(work, f"c19a_{os.getpid()}.xml")
    with open(xtce, "wb") as f:
        f.write(HEADER_ONLY_XTCE)
    path = os.path.join(work, f"c19a_{os.getpid()}.bin")
    for label, data in task["files"]:
        with open(path, "wb") as f:
            f.write(data)
        pkts, _ = framing.ref_frame(data, 0)
        case = {"anyfile": label, "data": data.hex() if len(data) <= 64 else data[:64].hex() + "...", "n_framed": len(pkts)}
        code, exc, out = invoke(["describe-packets", path])
        t.evals += 1
        t.outcomes[f"anyfile:describe:{min(len(pkts), 3)}+packets" if pkts else "anyfile:describe:none"] += 1
        rows = table_rows(out)
        if code != 0 or exc:
            t.violation({"kind": "cli-crash", "cmd": "describe-packets", "exit": str(code), "exc": exc, "anyfile": True}, {**case, "cmd": "describe-packets"},
                        observed=out[-400:], note="command did not end with exit code 0")
        elif rows != _expect_listing(pkts):
            t.violation({"kind": "listing-wrong", "anyfile": True}, {**case, "cmd": "describe-packets"}, expected=_expect_listing(pkts)[:12], observed=rows[:24])
        code, exc, out = invoke(["parse", path, xtce])
        t.evals += 1
        shown = [int(x) for x in re.findall(r"'PKT_APID':\s*(\d+)", out)]
        want = [header_tuple(p)[3] for p in pkts][:20]
        if code != 0 or exc:
            t.violation({"kind": "cli-crash", "cmd": "parse-all", "exit": str(code), "exc": exc, "anyfile": True}, {**case, "cmd": "parse"}, observed=out[-400:])
        elif shown != want:
            t.violation({"kind": "parse-all-wrong", "anyfile": True}, {**case, "cmd": "parse"}, expected=want, observed=shown[:24])
        for i in sorted({0, len(pkts) - 1, len(pkts)} - {-1}):
            code, exc, out = invoke(["parse", path, xtce, "--packet", str(i)])
            t.evals += 1
            shown = [int(x) for x in re.findall(r"'PKT_APID':\s*(\d+)", out)]
            valid = i < len(pkts)
            if code != 0 or exc:
                t.violation({"kind": "cli-crash", "cmd": "parse", "exit": str(code), "exc": exc, "anyfile": True}, {**case, "cmd": "parse", "index": i}, observed=out[-400:])
            elif valid and shown != [header_tuple(pkts[i])[3]]:
                t.violation({"kind": "parse-shows-wrong-packet", "anyfile": True}, {**case, "cmd": "parse", "index": i}, expected=[header_tuple(pkts[i])[3]], observed=shown[:5])
            elif not valid and (shown or not out.strip()):
                t.violation({"kind": "parse-out-of-range-not-reported", "anyfile": True}, {**case, "cmd": "parse", "index": i}, observed=out[-300:])
        t.nontrivial += 1
    for pth in (path, xtce):
        try:
            os.unlink(pth)
        except OSError:
            pass
    return t


def _task_options(task):
    """Group options (-q, -v, --log-level) and --max-items: none of them may change which packets are listed, or make a command fail."""
    t = Tally()
    work = task["work"]
    os.makedirs(work, exist_ok=True)
    xtce = os.path.join(work, f"c19o_{os.getpid()}.xml")
    with open(xtce, "wb") as f:
        f.write(HEADER_ONLY_XTCE)
    path = os.path.join(work, f"c19o_{os.getpid()}.bin")
    import logging
    for n in task["ns"]:
        pkts = packets_for(n)
        with open(path, "wb") as f:
            f.write(b"".join(pkts))
        for g in ([], ["-q"], ["-v"], ["--log-level", "WARNING"], ["--log-level", "DEBUG"], ["-q", "-v"]):
            logging.disable(logging.NOTSET)
            try:
                code, exc, out = invoke(g + ["describe-packets", path])
            finally:
                logging.disable(logging.CRITICAL)
            t.evals += 1
            case = {"cmd": "describe-packets", "n": n, "group_options": g}
            rows = table_rows(out)
            if code != 0 or exc:
                t.violation({"kind": "cli-crash", "cmd": "describe-packets", "exit": str(code), "exc": exc, "group_options": " ".join(g)}, case, observed=out[-400:])
            elif rows != _expect_listing(pkts):
                t.violation({"kind": "listing-wrong", "group_options": " ".join(g)}, case, expected=_expect_listing(pkts)[:12], observed=rows[:24])
            logging.disable(logging.NOTSET)
            try:
                code, exc, out = invoke(g + ["parse", path, xtce, "--packet", str(max(0, n - 1))])
            finally:
                logging.disable(logging.CRITICAL)
            t.evals += 1
            shown = [int(x) for x in re.findall(r"'PKT_APID':\s*(\d+)", out)]
            if code != 0 or exc:
                t.violation({"kind": "cli-crash", "cmd": "parse", "exit": str(code), "exc": exc, "group_options": " ".join(g)}, {**case, "cmd": "parse"}, observed=out[-400:])
            elif shown != ([100 + n - 1] if n else []):
                t.violation({"kind": "parse-shows-wrong-packet", "group_options": " ".join(g)}, {**case, "cmd": "parse"}, expected=[100 + n - 1] if n else [], observed=shown[:5])
            t.nontrivial += 1
        for k in (7, 10, 11, 20, 50):  # rich applies the limit to every container, also to a packet's own 7 items: smaller limits hide fields by design
            code, exc, out = invoke(["parse", path, xtce, "--max-items", str(k)])
            t.evals += 1
            shown = [int(x) for x in re.findall(r"'PKT_APID':\s*(\d+)", out)]
            want = [100 + i for i in range(min(n, k))]
            case = {"cmd": "parse", "n": n, "max_items": k}
            if code != 0 or exc:
                t.violation({"kind": "cli-crash", "cmd": "parse-max-items", "exit": str(code), "exc": exc}, case, observed=out[-400:])
            elif shown != want:
                t.violation({"kind": "parse-all-wrong", "max_items": True}, case, expected=want, observed=shown[:24],
                            note="with --max-items k the first min(n, k) packets are shown, each once, in order")
            t.nontrivial += 1
    # file names and directories with characters that mean something to a formatter (%-formatting, str.format, rich markup), with and
    # without live logging: the path is only a label, it must never be interpreted
    import shutil
    pkts = packets_for(3)
    base = os.path.join(work, f"c19n_{os.getpid()}")
    for name in task.get("names", ()):
        fpath = os.path.join(base, name)
        try:
            os.makedirs(os.path.dirname(fpath), exist_ok=True)
            with open(fpath, "wb") as f:
                f.write(b"".join(pkts))
        except (OSError, UnicodeEncodeError):
            continue  # the file system (or, in the C locale, the file system encoding) does not take this name
        for g in ([], ["-v"], ["--log-level", "INFO"], ["-q"]):
            for cmd in ("describe-packets", "parse"):
                logging.disable(logging.NOTSET)
                try:
                    code, exc, out = invoke(g + ([cmd, fpath] if cmd == "describe-packets" else [cmd, fpath, xtce, "--packet", "2"]))
                finally:
                    logging.disable(logging.CRITICAL)
                t.evals += 1
                t.nontrivial += 1
                case = {"cmd": cmd, "n": 3, "file_name": name, "group_options": g}
                if code != 0 or exc:
                    t.violation({"kind": "cli-crash", "cmd": cmd, "exit": str(code), "exc": exc, "file_name": name}, case, observed=out[-300:],
                                note="the command failed because of characters in the file's path")
                elif cmd == "describe-packets" and table_rows(out) != _expect_listing(pkts):
                    t.violation({"kind": "listing-wrong", "file_name": name}, case, expected=_expect_listing(pkts), observed=table_rows(out)[:8])
                elif cmd == "parse" and [int(x) for x in re.findall(r"'PKT_APID':\s*(\d+)", out)] != [102]:
                    t.violation({"kind": "parse-shows-wrong-packet", "file_name": name}, case, expected=[102], observed=out[-200:])
                if cmd == "parse" and not g:
                    # ... and an index beyond the file: the out-of-range message, whatever the path looks like
                    logging.disable(logging.NOTSET)
                    try:
                        code2, exc2, out2 = invoke(["parse", fpath, xtce, "--packet", "99"])
                    finally:
                        logging.disable(logging.CRITICAL)
                    t.evals += 1
                    if code2 != 0 or exc2 or "out of range" not in out2:
                        t.violation({"kind": "cli-crash" if (code2 != 0 or exc2) else "parse-out-of-range-not-reported", "cmd": "parse", "exit": str(code2), "exc": exc2, "file_name": name},
                                    {**case, "index": 99}, observed=out2[-300:], note="an index beyond the file on a path with special characters")
    shutil.rmtree(base, ignore_errors=True)
    for pth in (path, xtce):
        try:
            os.unlink(pth)
        except OSError:
            pass
    return t


NAMES = ["plain.bin", "pass%2042.pkts", "cal_50%.pkts", "dump_%s.bin", "100%d.bin", "a b.bin", "x{0}.bin", "{name}.bin", "\u00e9t\u00e9.bin", "[bold]x.bin",
         "x[red].bin", "a[/b].bin", "run[1]/data[2].bin", "[/bold magenta].bin".replace("/", "_") , "c[/d]/e.bin", "tab\there.bin", "quote'\".bin",
         "-v.bin", "--packet", "back\\slash.bin"]


def _task_unrecognized(task):
    """Files in which some packets are not defined by the document (unknown APIDs between the known ones): the parse command lists and indexes
    the packets the definition yields, i.e. the recognised ones, and an index beyond those gets the out-of-range message."""
    from mc.spec import Cmp, Container, Doc, header_entries, header_params, header_ptypes, render_xml
    t = Tally()
    work = task["work"]
    os.makedirs(work, exist_ok=True)
    doc = Doc(header_ptypes(), header_params(), (Container("CCSDSPacket", header_entries(), abstract=True),
                                                 Container("KNOWN", (), base="CCSDSPacket", criteria=(Cmp("PKT_APID", "<", "500"),))))
    xtce = os.path.join(work, f"c19u_{os.getpid()}.xml")
    with open(xtce, "wb") as f:
        f.write(render_xml(doc))
    path = os.path.join(work, f"c19u_{os.getpid()}.bin")
    import itertools
    for n in task["ns"]:
        for pattern in itertools.product((0, 1), repeat=n):     # 1 = a known packet, 0 = an unknown one
            pk, rec = [], []
            for i, known in enumerate(pattern):
                apid = 100 + i if known else 900 + i
                pk.append(framing.mk_packet(bytes([0xB0 + i]), apid=apid, seqcount=i))
                if known:
                    rec.append(apid)
            with open(path, "wb") as f:
                f.write(b"".join(pk))
            code, exc, out = invoke(["parse", path, xtce])
            t.evals += 1
            shown = [int(x) for x in re.findall(r"'PKT_APID':\s*(\d+)", out)]
            case = {"unrecognized": True, "pattern": list(pattern)}
            if code != 0 or exc:
                t.violation({"kind": "cli-crash", "cmd": "parse-all", "exit": str(code), "exc": exc, "unrecognized": True}, {**case, "cmd": "parse"}, observed=out[-300:])
            elif shown != rec:
                t.violation({"kind": "parse-all-wrong", "unrecognized": True}, {**case, "cmd": "parse"}, expected=rec, observed=shown)
            for i in range(len(rec) + 2):
                code, exc, out = invoke(["parse", path, xtce, "--packet", str(i)])
                t.evals += 1
                t.nontrivial += 1
                shown = [int(x) for x in re.findall(r"'PKT_APID':\s*(\d+)", out)]
                c2 = {**case, "cmd": "parse", "index": i}
                if code != 0 or exc:
                    t.violation({"kind": "cli-crash", "cmd": "parse", "exit": str(code), "exc": exc, "unrecognized": True}, c2, observed=out[-300:])
                elif i < len(rec) and shown != [rec[i]]:
                    t.violation({"kind": "parse-shows-wrong-packet", "unrecognized": True}, c2, expected=[rec[i]], observed=shown[:5],
                                note="the index counts the packets the command lists (the recognised ones)")
                elif i >= len(rec) and (shown or not out.strip()):
                    t.violation({"kind": "parse-out-of-range-not-reported", "unrecognized": True}, c2, observed=out[-300:])
    # a definition whose packets decode to NO items (a root container without entries): every valid index shows that (empty) packet, every
    # other index the out-of-range message
    from mc.spec import Container, Doc, render_xml
    empty = Doc((), (), (Container("CCSDSPacket", ()),))
    with open(xtce, "wb") as f:
        f.write(render_xml(empty))
    for n in task["ns"]:
        pk = [framing.mk_packet(bytes([0xC0 + i]), apid=100 + i, seqcount=i) for i in range(n)]
        with open(path, "wb") as f:
            f.write(b"".join(pk))
        for i in range(n + 2):
            code, exc, out = invoke(["parse", path, xtce, "--packet", str(i)])
            t.evals += 1
            t.nontrivial += 1
            c2 = {"empty_definition": True, "n": n, "cmd": "parse", "index": i}
            says_range = "out of range" in out
            if code != 0 or exc:
                t.violation({"kind": "cli-crash", "cmd": "parse", "exit": str(code), "exc": exc, "empty_definition": True}, c2, observed=out[-300:])
            elif i < n and (says_range or "{}" not in out):
                t.violation({"kind": "parse-shows-wrong-packet", "empty_definition": True}, c2, expected="{}", observed=out[-200:],
                            note="a valid index of a file whose packets decode to no items shows the empty packet")
            elif i >= n and not says_range:
                t.violation({"kind": "parse-out-of-range-not-reported", "empty_definition": True}, c2, observed=out[-300:])
    # a packet with a long value is shown whole: a 96-byte binary field prints as one (long) token, whatever the width of the console
    from mc import docs as _docs
    from mc.spec import BinEnc, Fixed, Param, PType
    bdoc = _docs.selector_doc([([PType("BLOB_T", "Binary", BinEnc(Fixed(8 * 96)))], [Param("BLOB", "BLOB_T")], [("p", "BLOB")])])
    with open(xtce, "wb") as f:
        f.write(render_xml(bdoc))
    blobs = [bytes((7 * j + 31 * i + 1) & 0xFF for j in range(96)) for i in range(2)]
    with open(path, "wb") as f:
        f.write(b"".join(_docs.packet_for(0, "".join(format(b, "08b") for b in bl), seqcount=i) for i, bl in enumerate(blobs)))
    for i in range(2):
        for extra in (["--max-string", "1000"], ["--max-string", "1000", "--max-items", "50"]):
            code, exc, out = invoke(["parse", path, xtce, "--packet", str(i)] + extra)
            t.evals += 1
            t.nontrivial += 1
            c2 = {"long_value": True, "cmd": "parse", "index": i, "options": extra}
            if code != 0 or exc:
                t.violation({"kind": "cli-crash", "cmd": "parse", "exit": str(code), "exc": exc, "long_value": True}, c2, observed=out[-300:])
            elif repr(blobs[i]) not in out:
                t.violation({"kind": "parse-shows-wrong-packet", "long_value": True}, c2, expected=repr(blobs[i])[:80] + "...", observed=out[-300:],
                            note="the selected packet's binary value is not shown in full (with --max-string above its length)")
    for pth in (path, xtce):
        try:
            os.unlink(pth)
        except OSError:
            pass
    return t


def anyfiles(tier):
    import itertools
    u = units()
    out = []
    maxu = 3 if tier == "quick" else 5
    for n in range(0, maxu + 1):
        for seq in itertools.product(range(len(u)), repeat=n):
            out.append(("units:" + "".join(map(str, seq)), b"".join(u[i] for i in seq)))
    alpha = [0x00, 0xFF, 0x08]
    for n in range(1, (6 if tier == "quick" else 9) + 1):
        for bs in itertools.product(alpha, repeat=n):
            out.append(("bytes:%d" % n, bytes(bs)))
    # long homogeneous files beyond the elision threshold, with a stray byte at the front / in the middle / at the end
    for n in (11, 12, 30):
        body = [u[i % 3] for i in range(n)]
        out.append((f"long:{n}", b"".join(body)))
        out.append((f"long:{n}+tail", b"".join(body) + b"\x08\x64"))
        out.append((f"long:{n}+head-garbage", b"\x00" + b"".join(body)))
    # byte-for-byte identical packets (fill packets, a counter that never moves or wraps): rows are per packet, not per distinct content
    for n in (2, 10, 11, 12, 16):
        out.append((f"same:{n}", u[2] * n))
    out.append(("wrap:12", b"".join(framing.mk_packet(bytes([0x30 + (i % 8)]), apid=77, seqcount=i % 8) for i in range(12))))
    out.append(("wrap:13", b"".join(framing.mk_packet(b"\x01", apid=78, seqcount=i % 5) for i in range(13))))
    # one maximum-size packet between two small ones
    big = framing.mk_packet(bytes((i * 7 + 1) & 0xFF for i in range(65536)), apid=1234, seqcount=77)
    out.append(("maxsize", u[2] + big + u[0]))
    return out


def run(ctx):
    ns = list(range(0, 14)) + [22, 25] if ctx.quick else list(range(0, 27)) + [40]
    tally = fan_out(_task, [{"ns": [n], "work": ctx.work} for n in ns], jobs=ctx.jobs, seed=ctx.seed, mem_gib=6.0)
    from mc.kernel import chunked
    files = anyfiles(ctx.tier)
    tally.merge(fan_out(_task_anyfile, [{"files": ch, "work": ctx.work} for ch in chunked(files, 24)], jobs=ctx.jobs, seed=ctx.seed, mem_gib=6.0))
    tally.merge(fan_out(_task_options, [{"ns": [n], "work": ctx.work} for n in ((0, 1, 3, 10, 11, 25) if ctx.quick else range(0, 27))]
                        + [{"ns": [], "work": ctx.work, "names": [nm]} for nm in NAMES], jobs=ctx.jobs, seed=ctx.seed, mem_gib=6.0))
    tally.merge(fan_out(_task_unrecognized, [{"ns": [n], "work": ctx.work} for n in (range(0, 6) if ctx.quick else range(0, 9))], jobs=ctx.jobs, seed=ctx.seed, mem_gib=6.0))
    coverage = {
        "exhaustive": True,
        "bound": (f"files of n = {'0..13, 22, 25' if ctx.quick else '0..26 and 40'} packets, each also with 3 and 7 trailing bytes of an incomplete packet; "
                  "describe-packets on each; parse --packet i for every i in 0..n+1; parse without index; parse --skip-header-bytes 4 on files with 4 foreign bytes per record, complete and cut short by 1..5 bytes; "
                  f"'any file': every sequence of <= {3 if ctx.quick else 5} units over 6 units (3 packets with extreme header values, stray bytes, a header promising more than follows), "
                  f"every byte string of <= {6 if ctx.quick else 9} bytes over {{00, FF, 08}}, long files with garbage at the front/tail, a maximum-size packet ({len(files)} files), each through "
                  "describe-packets, parse, parse --packet {0, last, last+1} against the greedy framing model; group options -q / -v / --log-level and --max-items 7..50; "
                  f"every arrangement of known and unknown packets in files of <= {5 if ctx.quick else 8} packets against a document that defines only the known ones, parse and parse --packet i for every i; "
                  f"{len(NAMES)} file and directory names containing %, braces, brackets (rich markup), spaces, quotes, non-ASCII and option-like names x 4 logging configurations x both commands"),
        "rule": "one evaluation = one CLI invocation through click's runner; distinct non-trivial = distinct (command, file, index) invocations",
    }
    return {"level": LEVEL, "tally": tally, "coverage": coverage,
            "assumptions": ["COLUMNS=200 so that no cell is truncated", "negative indices are not judged",
                            "a data row is a line with exactly seven integer (or '...') cells"]}


def replay(case):
    work = os.path.join(os.path.dirname(os.path.dirname(os.path.dirname(os.path.abspath(__file__)))), ".work")
    if "anyfile" in case:
        files = [f for f in anyfiles("thorough") if f[0] == case["anyfile"] and (f[1].hex() == case["data"] or len(f[1]) > 64)]
        t = _task_anyfile({"files": files, "work": work})
        for v in t.violations:
            if v["case"].get("cmd") == case.get("cmd") and v["case"].get("index") == case.get("index"):
                return v
        return None
    if case.get("unrecognized"):
        t = _task_unrecognized({"ns": [len(case["pattern"])], "work": work})
        return next((v for v in t.violations if v["case"].get("pattern") == case["pattern"] and v["case"].get("index") == case.get("index")), None)
    if "file_name" in case:
        t = _task_options({"ns": [], "work": work, "names": [case["file_name"]]})
        for v in t.violations:
            if v["case"].get("cmd") == case.get("cmd") and v["case"].get("group_options") == case.get("group_options"):
                return v
        return None
    if "group_options" in case or "max_items" in case:
        t = _task_options({"ns": [case["n"]], "work": work})
        for v in t.violations:
            if all(v["case"].get(k) == case.get(k) for k in case):
                return v
        return None
    t = _task({"ns": [case["n"]], "work": os.path.join(os.path.dirname(os.path.dirname(os.path.dirname(os.path.abspath(__file__)))), ".work")})
    for v in t.violations:
        if all(v["case"].get(k) == case.get(k) for k in case):
            return v
    return None


def repro_py(case):
    return f"# {case!r}\n# write mc.checks.c19.packets_for(n) to a file and run: spp {case.get('cmd')} <file> ...\n"
