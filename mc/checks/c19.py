"""C19 — CLI listings show each packet once, in order, and never hang or crash.

E-prod through click's test runner with a fixed terminal width.  Files of n = 0..13 packets
(distinct APID and sequence count per packet), each also truncated mid-packet; for `parse`,
every index 0..n+1.  Oracle: rows parsed from the printed table / the printed packet.
"""
from __future__ import annotations

import os
import re

from mc import framing
from mc.checks.c10 import HEADER_ONLY_XTCE
from mc.kernel import CaseTimeout, Tally, case_alarm, fan_out

PROP = "C19"
LEVEL = "exploration"


def packets_for(n):
    return [framing.mk_packet(bytes([0xA0 + i] * ((i % 3) + 1)), apid=100 + i, seqcount=1000 + i, seqflags=3) for i in range(n)]


def header_tuple(p):
    return framing.header_fields(p)


ROW = re.compile(r"^[^0-9A-Za-z.]*((?:\d+|\.\.\.)(?:[^0-9A-Za-z.]+(?:\d+|\.\.\.)){6})[^0-9A-Za-z.]*$")


def table_rows(output: str):
    rows = []
    for line in output.splitlines():
        m = ROW.match(line.strip())
        if not m:
            continue
        toks = re.findall(r"\d+|\.\.\.", m.group(1))
        if len(toks) == 7:
            rows.append(tuple("..." if x == "..." else int(x) for x in toks))
    return rows


def invoke(args):
    from click.testing import CliRunner
    from space_packet_parser import cli
    try:
        with case_alarm(15):
            r = CliRunner().invoke(cli.spp, args)
    except CaseTimeout:
        return ("timeout", None, "")
    except MemoryError:
        return ("memory", None, "")
    exc = None
    if r.exception is not None and not isinstance(r.exception, SystemExit):
        exc = type(r.exception).__name__
    return (r.exit_code, exc, r.output)


def _task(task):
    t = Tally()
    work = task["work"]
    os.makedirs(work, exist_ok=True)
    xtce = os.path.join(work, f"c19_{os.getpid()}.xml")
    with open(xtce, "wb") as f:
        f.write(HEADER_ONLY_XTCE)
    for n in task["ns"]:
        pkts = packets_for(n)
        for trunc in (None, 3, 7):
            data = b"".join(pkts)
            if trunc is not None:
                extra = framing.mk_packet(b"\x01\x02\x03\x04\x05", apid=999, seqcount=1)[:trunc]
                data += extra
            path = os.path.join(work, f"c19_{os.getpid()}_{n}.bin")
            with open(path, "wb") as f:
                f.write(data)
            # ---- describe-packets
            code, exc, out = invoke(["describe-packets", path])
            t.evals += 1
            case = {"cmd": "describe-packets", "n": n, "truncated_tail_bytes": trunc}
            want_rows = [header_tuple(p) for p in pkts]
            if n > 10:
                want_rows = want_rows[:5] + [("...",) * 7] + want_rows[-5:]
            rows = table_rows(out)
            klass = "empty" if n == 0 else "all-rows" if n <= 10 else "elided"
            t.outcomes[f"describe:{klass}"] += 1
            if code != 0 or exc:
                t.violation({"kind": "cli-crash", "cmd": "describe-packets", "exit": str(code), "exc": exc, "empty_file": n == 0 and trunc is None}, case,
                            observed=out[-400:], note="command did not end with exit code 0")
            elif rows != want_rows:
                dup = len(rows) > len(want_rows)
                t.violation({"kind": "listing-wrong", "class": klass, "duplicates": dup}, case, expected=want_rows[:12], observed=rows[:24],
                            note="printed rows differ from the packets in the file")
            t.nontrivial += 1
            # ---- parse --packet i
            if trunc not in (None, 3):
                continue
            for i in range(0, n + 2):
                code, exc, out = invoke(["parse", path, xtce, "--packet", str(i)])
                t.evals += 1
                case = {"cmd": "parse", "n": n, "index": i, "truncated_tail_bytes": trunc}
                shown = [int(x) for x in re.findall(r"'PKT_APID':\s*(\d+)", out)]
                valid = 0 <= i < n
                t.outcomes[f"parse:{'valid' if valid else 'out-of-range'}"] += 1
                if code != 0 or exc:
                    t.violation({"kind": "cli-crash", "cmd": "parse", "exit": str(code), "exc": exc, "index_rel": "n" if i == n else "n+1" if i == n + 1 else "valid"},
                                case, observed=out[-400:], note="command did not end with exit code 0")
                elif valid and shown != [100 + i]:
                    t.violation({"kind": "parse-shows-wrong-packet"}, case, expected=[100 + i], observed=shown[:5])
                elif not valid and (shown or not out.strip()):
                    t.violation({"kind": "parse-out-of-range-not-reported"}, case, observed=out[-300:])
                t.nontrivial += 1
            # without --packet: every packet once, in order (the default max_items shows up to 20 entries)
            code, exc, out = invoke(["parse", path, xtce])
            t.evals += 1
            shown = [int(x) for x in re.findall(r"'PKT_APID':\s*(\d+)", out)]
            if code != 0 or exc:
                t.violation({"kind": "cli-crash", "cmd": "parse-all", "exit": str(code), "exc": exc}, {"cmd": "parse", "n": n}, observed=out[-400:])
            elif shown != [100 + i for i in range(min(n, 20))]:  # --max-items defaults to 20: longer lists are elided by design
                t.violation({"kind": "parse-all-wrong"}, {"cmd": "parse", "n": n}, expected=[100 + i for i in range(min(n, 20))], observed=shown[:24])
            os.unlink(path)
        # --skip-header-bytes: files whose packets are preceded by 4 foreign bytes, complete and with a tail cut short by 1..5 bytes
        if n in task.get("skip_ns", (0, 3, 12)):
            for cut in (0, 1, 3, 4, 5):
                recs = [bytes([0xF0 + (i % 8)] * 4) + p for i, p in enumerate(pkts)]
                extra = (b"\xEE\xEE\xEE\xEE" + framing.mk_packet(b"\x01\x02\x03\x04\x05\x06", apid=999, seqcount=1))
                data = b"".join(recs) + (extra[:-cut] if cut else b"")
                path = os.path.join(work, f"c19_{os.getpid()}_{n}_skip.bin")
                with open(path, "wb") as f:
                    f.write(data)
                code, exc, out = invoke(["parse", path, xtce, "--skip-header-bytes", "4"])
                t.evals += 1
                shown = [int(x) for x in re.findall(r"'PKT_APID':\s*(\d+)", out)]
                want = [100 + i for i in range(n)][:20]
                case = {"cmd": "parse --skip-header-bytes 4", "n": n, "tail_cut": cut}
                if code != 0 or exc:
                    t.violation({"kind": "cli-crash", "cmd": "parse-skip", "exit": str(code), "exc": exc}, case, observed=out[-300:])
                elif shown != want:
                    t.violation({"kind": "parse-skip-wrong"}, case, expected=want, observed=shown[:24], note="packets shown with --skip-header-bytes differ from the complete records in the file")
                code, exc, out = invoke(["parse", path, xtce, "--skip-header-bytes", "4", "--packet", str(n)])
                t.evals += 1
                shown = [int(x) for x in re.findall(r"'PKT_APID':\s*(\d+)", out)]
                if code != 0 or exc:
                    t.violation({"kind": "cli-crash", "cmd": "parse-skip-index", "exit": str(code), "exc": exc}, case, observed=out[-300:])
                elif shown or not out.strip():
                    t.violation({"kind": "parse-out-of-range-not-reported", "skip": True}, {**case, "index": n}, observed=out[-300:])
                t.nontrivial += 1
                os.unlink(path)
    os.unlink(xtce)
    t.sample({"n": task["ns"][0], "commands": ["describe-packets", "parse --packet 0..n+1", "parse"], "truncated_tails": [None, 3, 7]})
    return t


def run(ctx):
    ns = list(range(0, 14)) + [22, 25] if ctx.quick else list(range(0, 27)) + [40]
    tally = fan_out(_task, [{"ns": [n], "work": ctx.work} for n in ns], jobs=ctx.jobs, seed=ctx.seed, mem_gib=6.0)
    coverage = {
        "exhaustive": True,
        "bound": (f"files of n = {'0..13, 22, 25' if ctx.quick else '0..26 and 40'} packets, each also with 3 and 7 trailing bytes of an incomplete packet; "
                  "describe-packets on each; parse --packet i for every i in 0..n+1; parse without index; parse --skip-header-bytes 4 on files with 4 foreign bytes per record, complete and cut short by 1..5 bytes"),
        "rule": "one evaluation = one CLI invocation through click's runner; distinct non-trivial = distinct (command, file, index) invocations",
    }
    return {"level": LEVEL, "tally": tally, "coverage": coverage,
            "assumptions": ["COLUMNS=200 so that no cell is truncated", "negative indices are not judged",
                            "a data row is a line with exactly seven integer (or '...') cells"]}


def replay(case):
    t = _task({"ns": [case["n"]], "work": os.path.join(os.path.dirname(os.path.dirname(os.path.dirname(os.path.abspath(__file__)))), ".work")})
    for v in t.violations:
        if all(v["case"].get(k) == case.get(k) for k in case):
            return v
    return None


def repro_py(case):
    return f"# {case!r}\n# write mc.checks.c19.packets_for(n) to a file and run: spp {case.get('cmd')} <file> ...\n"
