"""C12 — Segmented packets are reassembled per APID exactly once and only when complete.

Kernel E-hist, stateless over the real generator.  History alphabet {FIRST, CONTINUATION, LAST,
UNSEGMENTED} x APID {a, b} x sequence step w.r.t. the previous packet of that APID {+1, +2 (gap)};
EVERY history up to a length bound, two base sequence counts (0 and 16382, so that +1 steps wrap),
secondary header lengths {0, 1, 3}.  Every packet carries a unique tag byte so the provenance of
every output byte is readable from raw_data.  Oracle: a ten-line per-APID reassembly model.
"""
from __future__ import annotations

import itertools

from mc import framing
from mc.checks.c10 import header_only_definition
from mc.kernel import Tally, case_alarm, fan_out, observed_warnings
from mc.observe import exc_names

PROP = "C12"
LEVEL = "model_checking"

FLAGS = {"F": 1, "C": 0, "L": 2, "U": 3}
SYMS = [(f, a, s) for f in "FCLU" for a in (0, 1) for s in (1, 2)]  # 16 symbols
# a second alphabet on ONE APID whose sequence count may also repeat (step 0: a duplicated / retransmitted segment) or go back (step -1)
SYMS_B = [(f, 0, s) for f in "FCLU" for s in (1, 2, 0, -1)]
# a third alphabet: steps that are 1 modulo a power of two smaller than the 14-bit counter period (a gap of 1024, 4096, 8192 packets plus one)
SYMS_C = [(f, 0, s) for f in "FCLU" for s in (1, 1025, 4097, 8193)]
APIDS = (0x0A1, 0x2B2)
# the two APIDs of a history rotate with its base count and secondary-header length: ordinary ones, both ends of the 11-bit range (either way
# round), and the two middle values
APID_PAIRS = ((0x0A1, 0x2B2), (2047, 0), (0, 2047), (1024, 1023))


def build_history(hist, base, k, vary=False, skip=0, syms=None, bare=False):
    """-> (stream bytes, [packet bytes], [(flag, apid_index, count, tag)]).  With vary=True the header bits that do not take part in
    reassembly (version, type, secondary-header flag) differ from packet to packet."""
    counts = {0: (base - 1) % 16384, 1: (base + 5 - 1) % 16384}
    pkts, meta = [], []
    for i, si in enumerate(hist):
        f, a, step = (syms or SYMS)[si]
        counts[a] = (counts[a] + step) % 16384
        tag = 0x10 + i
        data = bytes([0xE0 + j for j in range(k)]) + bytes([tag, tag ^ 0xFF])
        if bare and k and f in "CL" and i % 2:
            # a later segment that carries nothing but its secondary header (or, every fourth packet, even less than that)
            data = bytes([0xE0 + j for j in range(k)])[:k if i % 4 == 1 else max(1, k - 2)]
        if vary:
            # vary == 2: the type bit runs 1, 1, 0, 0 instead of 0, 0, 1, 1 (unrecognisable packets come first for a telemetry-only definition)
            hb = {"shflag": (i + 1) % 2, "type_": ((i + (2 if vary == 2 else 0)) // 2) % 2, "version": (i * 3) % 8}
        else:
            hb = {"shflag": 1 if k else 0}
        p = framing.mk_packet(data, apid=APID_PAIRS[(base + k) % 4][a], seqflags=FLAGS[f], seqcount=counts[a], **hb)
        pkts.append(p)
        meta.append((f, a, counts[a], tag))
    if skip:
        # raw-record framing: every packet is preceded by `skip` foreign bytes, stripped by the framer (skip_header_bytes)
        return b"".join(bytes([0xC0 + ((i + j) % 16) for j in range(skip)]) + p for i, p in enumerate(pkts)), pkts, meta
    return b"".join(pkts), pkts, meta


def model(pkts, meta, k, states=None):
    """Reference reassembly: per-APID open group or None."""
    open_ = {0: None, 1: None}
    out = []
    for p, (f, a, cnt, tag) in zip(pkts, meta):
        if f == "U":
            out.append(p)
        elif f == "F":
            open_[a] = [(p, cnt)]           # supersedes an unfinished group
        elif open_[a] is None:
            pass                            # continuation / last without an open group: dropped
        elif f == "C":
            open_[a].append((p, cnt))
        else:  # LAST closes the group, successfully or not
            grp = open_[a] + [(p, cnt)]
            open_[a] = None
            if all((grp[i + 1][1] - grp[i][1]) % 16384 == 1 for i in range(len(grp) - 1)):
                out.append(grp[0][0] + b"".join(q[6 + k:] for q, _ in grp[1:]))
        if states is not None:
            states.add(tuple((None if g is None else (len(g), all((g[i + 1][1] - g[i][1]) % 16384 == 1 for i in range(len(g) - 1))))
                             for g in (open_[0], open_[1])))
    return out


def run_impl(defn, stream, k, skip=0, **more):
    with observed_warnings() as w:
        try:
            kw = {"skip_header_bytes": skip} if skip else {}
            kw.update(more)
            out = list(defn.packet_generator(stream, combine_segmented_packets=True, secondary_header_bytes=k, **kw))
        except Exception as e:  # noqa: BLE001
            return ("raised", exc_names(e)[0], str(e)[:100]), len(w)
    res = []
    for p in out:
        rd = getattr(p, "raw_data", None)
        res.append(bytes(rd) if rd is not None else repr(p).encode())
    return res, len(w)


def tags_of(raw: bytes, k):
    """Tags contributing to an output: after the first packet's headers come (tag, ~tag) pairs."""
    return [raw[i] for i in range(6 + k, len(raw) - 1, 2) if raw[i] ^ raw[i + 1] == 0xFF]


_TM_ONLY = None


def tm_only_definition():
    """A definition that recognises telemetry packets only (TYPE == 0): what it does not recognise is passed over in silence by default, and
    has no bearing on anything else."""
    global _TM_ONLY
    if _TM_ONLY is None:
        from mc.spec import Cmp, Container, Doc, header_entries, header_params, header_ptypes, load_doc
        _TM_ONLY = load_doc(Doc(tuple(header_ptypes()), tuple(header_params()),
                                (Container("CCSDSPacket", tuple(header_entries()), abstract=True),
                                 Container("TM", (), base="CCSDSPacket", criteria=(Cmp("TYPE", "==", "0"),)))))
    return _TM_ONLY


_U32 = None


def u32_definition():
    """A definition whose packets hold exactly one 32-bit field: a group of two 2-byte segments fits it, a single packet (2 bytes) and a group of
    three (6 bytes) do not - with parse_bad_pkts=False those are withheld, and nothing else changes."""
    global _U32
    if _U32 is None:
        from mc.spec import Container, Doc, IntEnc, Param, PType, header_entries, header_params, header_ptypes, load_doc
        _U32 = load_doc(Doc(tuple(header_ptypes()) + (PType("W_T", "Integer", IntEnc(32)),), tuple(header_params()) + (Param("W", "W_T"),),
                            (Container("CCSDSPacket", tuple(header_entries()) + (("p", "W"),)),)))
    return _U32


def check_history(t: Tally, defn, hist, base, k, states, vary=False, skip=0, alphabet="A", bare=False, tm_only=False, exact4=False):
    syms = SYMS_B if alphabet == "B" else SYMS_C if alphabet == "C" else SYMS
    stream, pkts, meta = build_history(hist, base, k, vary, skip, syms, bare)
    want = model(pkts, meta, k, states)
    if tm_only:
        # the combined packet carries the header of its FIRST segment: outputs of type 1 are not recognised and not yielded
        defn = tm_only_definition()
        want = [w for w in want if not (w[0] >> 4) & 1]
    more = {}
    if exact4:
        defn = u32_definition()
        want = [w for w in want if len(w) == 6 + 4]
        more = {"parse_bad_pkts": False}
    got, nwarn = run_impl(defn, stream, k, skip, **more)
    t.evals += 1
    t.transitions += len(hist)
    t.traces += 1
    if isinstance(got, tuple):
        why = f"generator raised {got[1]}: {got[2]}"
        okind = "raised"
    else:
        why = None
        okind = "ok"
        if got != want:
            okind = "mismatch"
            why = f"outputs differ: got {len(got)} packet(s), expected {len(want)}"
        else:
            seen = set()
            for raw in got:
                for tg in tags_of(raw, k):
                    if tg in seen:
                        why = f"raw packet with tag {tg:#x} contributes to more than one output"
                    seen.add(tg)
    t.outcomes[f"outputs={min(len(want), 3)}{'+' if len(want) > 3 else ''}"] += 1
    if why:
        after_last = any(meta[i][0] == "L" and any(m[1] == meta[i][1] and m[0] in "CL" for m in meta[i + 1:]) for i in range(len(meta)))
        t.violation({"kind": "reassembly", "observed": okind, "stale_group_reuse": bool(after_last and okind == "mismatch"),
                     "secondary_header_bytes": k},
                    {"history": [list(syms[s]) for s in hist], "hist_idx": list(hist), "base": base, "k": k, "vary_header_bits": vary, "skip_header_bytes": skip,
                     "alphabet": alphabet, "bare": bare, "tm_only": tm_only, "exact4": exact4},
                    expected=[w.hex() for w in want],
                    observed=[g.hex() for g in got] if not isinstance(got, tuple) else list(got), note=why)


def _task(task):
    t = Tally()
    defn = header_only_definition()
    states = set()
    n = task["length"]
    try:
        with case_alarm(3000):
            for first in task["firsts"]:
                for rest in itertools.product(range(16), repeat=n - 1):
                    hist = (first,) + rest
                    for base in task["bases"]:
                        for k in task["ks"]:
                            check_history(t, defn, hist, base, k, states)
                    if n <= task.get("vary_upto", 4):
                        check_history(t, defn, hist, task["bases"][-1], 0, states, vary=True)
                        check_history(t, defn, hist, task["bases"][0], 0, states, vary=True, tm_only=True)
                        check_history(t, defn, hist, task["bases"][0], 0, states, vary=2, tm_only=True)
                        check_history(t, defn, hist, task["bases"][-1], 0, states, exact4=True)
                        check_history(t, defn, hist, task["bases"][0], (first + n) % 3, states, skip=3 + (first % 2))
                    if n <= task.get("alphabet_b_upto", 4):
                        for base in task["bases"]:
                            check_history(t, defn, hist, base, 0, states, alphabet="B")
                        check_history(t, defn, hist, task["bases"][-1], 0, states, alphabet="C")
                        check_history(t, defn, hist, task["bases"][0], 0, states, alphabet="B", exact4=True)
                        for kb in (1, 3):
                            check_history(t, defn, hist, task["bases"][0], kb, states, bare=True)
                    t.nontrivial += any(SYMS[s][0] in "FCL" for s in hist)
    except BaseException as e:  # noqa: BLE001
        t.violation({"kind": "sweep-aborted", "exc": type(e).__name__}, {"length": n, "firsts": task["firsts"]}, observed=repr(e)[:200])
    if n == 3 and 0 in task["firsts"]:
        t.sample({"history": [list(SYMS[s]) for s in (0, 4, 8)], "meaning": "(flag, apid index, sequence step)", "bases": task["bases"], "secondary_header_bytes": task["ks"]})
    return t


def _task_long_groups(task):
    """Groups longer than the period of the 14-bit sequence counter (16384): consecutive counts modulo 16384 all the way, so the group is
    valid and is combined into one packet; the same group with one count skipped in the middle is dropped."""
    t = Tally()
    defn = header_only_definition()
    for n in task["sizes"]:
        for gap_at in (None, n // 2, n - 1):
            pkts = []
            cnt = task["base"]
            for i in range(n):
                if gap_at is not None and i == gap_at:
                    cnt = (cnt + 1) % 16384
                flag = 1 if i == 0 else 2 if i == n - 1 else 0
                pkts.append(framing.mk_packet(bytes([i & 0xFF]), apid=APIDS[0], seqflags=flag, seqcount=cnt))
                cnt = (cnt + 1) % 16384
            extra = framing.mk_packet(b"\xEE", apid=APIDS[1], seqflags=3, seqcount=7)
            stream = b"".join(pkts[:n // 3]) + extra + b"".join(pkts[n // 3:])
            want = [extra] + ([pkts[0] + b"".join(q[6:] for q in pkts[1:])] if gap_at is None else [])
            try:
                with case_alarm(600):
                    got, _ = run_impl(defn, stream, 0)
            except BaseException as e:  # noqa: BLE001
                got = ("raised", type(e).__name__, str(e)[:80])
            t.evals += 1
            t.traces += 1
            t.transitions += n
            t.nontrivial += 1
            ok = not isinstance(got, tuple) and got == want
            t.outcomes["long-group:" + ("ok" if ok else "bad")] += 1
            if not ok:
                t.violation({"kind": "reassembly", "observed": "raised" if isinstance(got, tuple) else "mismatch", "long_group": True},
                            {"long_group": n, "gap_at": gap_at, "base": task["base"]}, expected=[len(w) for w in want],
                            observed=list(got) if isinstance(got, tuple) else [len(g) for g in got],
                            note="a group longer than the counter period: valid groups are combined, a group with a skipped count is dropped")
    return t


def _task_wide_groups(task):
    """Many APIDs with a group open at the same time: a FIRST on each of n APIDs, then (optionally a CONTINUATION on each, then) a LAST on
    each, in the same or in the opposite order.  Every group is complete and is combined; nothing else is yielded."""
    t = Tally()
    defn = header_only_definition()
    n, rev, mid = task["n"], task["reverse"], task["continuation"]
    apids = [(a * 7 + 3) % 2048 for a in range(n)] if n < 2048 else list(range(2048))
    firsts = [framing.mk_packet(bytes([a & 0xFF, 1]), apid=a, seqflags=1, seqcount=(a * 3) % 16384) for a in apids]
    conts = [framing.mk_packet(bytes([a & 0xFF, 2]), apid=a, seqflags=0, seqcount=(a * 3 + 1) % 16384) for a in apids] if mid else []
    order = list(reversed(apids)) if rev else apids
    lasts = [framing.mk_packet(bytes([a & 0xFF, 3]), apid=a, seqflags=2, seqcount=(a * 3 + (2 if mid else 1)) % 16384) for a in order]
    stream = b"".join(firsts) + b"".join(conts) + b"".join(lasts)
    byapid = {a: i for i, a in enumerate(apids)}
    want = [firsts[byapid[a]] + (conts[byapid[a]][6:] if mid else b"") + lasts[i][6:] for i, a in enumerate(order)]
    try:
        with case_alarm(600):
            got, _ = run_impl(defn, stream, 0)
    except BaseException as e:  # noqa: BLE001
        got = ("raised", type(e).__name__, str(e)[:80])
    t.evals += 1
    t.traces += 1
    t.transitions += len(firsts) + len(conts) + len(lasts)
    t.nontrivial += 1
    ok = not isinstance(got, tuple) and got == want
    t.outcomes["wide-groups:" + ("ok" if ok else "bad")] += 1
    if not ok:
        t.violation({"kind": "reassembly", "observed": "raised" if isinstance(got, tuple) else "mismatch", "wide_groups": True},
                    {"wide_groups": n, "reverse": rev, "continuation": mid}, expected=len(want),
                    observed=list(got) if isinstance(got, tuple) else len(got),
                    note="groups open on many APIDs at the same time: each one is combined when its LAST arrives")
    return t


def _check_dataset_front_end(t: Tally, work):
    """Reassembly through the dataset builder: create_dataset(files, definition, combine_segmented_packets=True, secondary_header_bytes=k) over
    one, two and three files, each holding complete groups: every file is reassembled with the same options."""
    import os
    from space_packet_parser import xarr
    from mc.spec import Container, Doc, Cmp, IntEnc, Param, PType, header_entries, header_params, header_ptypes, load_doc
    os.makedirs(work, exist_ok=True)
    doc = Doc(tuple(header_ptypes()) + (PType("SH_T", "Integer", IntEnc(16)), PType("D_T", "Integer", IntEnc(8))),
              tuple(header_params()) + (Param("SH", "SH_T"), Param("D1", "D_T"), Param("D2", "D_T"), Param("D3", "D_T")),
              (Container("CCSDSPacket", tuple(header_entries()) + (("p", "SH"), ("p", "D1"), ("p", "D2"), ("p", "D3"))),))
    defn = load_doc(doc)
    k = 2

    def group(i):
        sh = bytes([0xE0, 0xE1])
        return [framing.mk_packet(sh + bytes([10 * i + 1]), apid=7, seqflags=1, seqcount=3 * i, shflag=1),
                framing.mk_packet(sh + bytes([10 * i + 2]), apid=7, seqflags=0, seqcount=3 * i + 1, shflag=1),
                framing.mk_packet(sh + bytes([10 * i + 3]), apid=7, seqflags=2, seqcount=3 * i + 2, shflag=1)]
    for nfiles in (1, 2, 3):
        paths = []
        for fi in range(nfiles):
            pth = os.path.join(work, f"c12ds_{os.getpid()}_{fi}.bin")
            with open(pth, "wb") as f:
                f.write(b"".join(p for gi in (2 * fi, 2 * fi + 1) for p in group(gi)))
            paths.append(pth)
        want = [[10 * gi + 1, 10 * gi + 2, 10 * gi + 3] for gi in range(2 * nfiles)]
        t.evals += 1
        t.nontrivial += 1
        try:
            with observed_warnings():
                ds = xarr.create_dataset(paths, defn, combine_segmented_packets=True, secondary_header_bytes=k)
            got = [[int(ds[7][nm].values[r]) for nm in ("D1", "D2", "D3")] for r in range(len(ds[7]["D1"].values))] if 7 in ds else []
        except Exception as e:  # noqa: BLE001
            got = f"raised {type(e).__name__}: {str(e)[:100]}"
        if got != want:
            t.violation({"kind": "reassembly", "front_end": "create_dataset", "files": nfiles}, {"dataset_front_end": True, "files": nfiles, "k": k},
                        expected=want, observed=got, note="groups in later files are not reassembled like those in the first")
        for pth in paths:
            os.unlink(pth)


def _check_interleaved_options(t: Tally):
    """Two generators of ONE definition, both reassembling, with different secondary-header lengths (an option of the call, not of the
    definition), advanced alternately in every order of starting: each combines its groups with its own length."""
    defn = header_only_definition()

    def groups(k, apid, base):
        sh = bytes(range(0xE0, 0xE0 + k))
        out, want = [], []
        for gi in range(3):
            segs = [framing.mk_packet(sh + bytes([16 * gi + j]), apid=apid, seqflags=f, seqcount=base + 3 * gi + j, shflag=1 if k else 0)
                    for j, f in enumerate((1, 0, 2))]
            out += segs
            want.append(segs[0] + b"".join(q[6 + k:] for q in segs[1:]))
        return b"".join(out), want
    for ka, kb in ((2, 0), (0, 3), (1, 4)):
        for first in ("a", "b"):
            sa, wa = groups(ka, 0x11, 10)
            sb, wb = groups(kb, 0x22, 500)
            with observed_warnings():
                ga = defn.packet_generator(sa, combine_segmented_packets=True, secondary_header_bytes=ka)
                gb = defn.packet_generator(sb, combine_segmented_packets=True, secondary_header_bytes=kb)
                got = {"a": [], "b": []}
                order = [("a", ga), ("b", gb)] if first == "a" else [("b", gb), ("a", ga)]
                try:
                    for _ in range(3):
                        for nm, g in order:
                            got[nm].append(bytes(next(g).raw_data))
                except Exception as e:  # noqa: BLE001
                    got["a"].append(f"raised {type(e).__name__}".encode())
            t.evals += 1
            t.traces += 1
            t.nontrivial += 1
            if got["a"] != wa or got["b"] != wb:
                t.violation({"kind": "reassembly", "interleaved_generators": True}, {"interleaved_options": True, "secondary_header_bytes": [ka, kb], "first": first},
                            expected=[w.hex() for w in wa + wb], observed=[g.hex() for g in got["a"] + got["b"]],
                            note="two generators of one definition with different secondary-header lengths: a group was combined with the other generator's length")


def run(ctx):
    tasks = []
    max_len = 4 if ctx.quick else 6
    for n in range(1, max_len + 1):
        # APID symmetry: histories starting with APID b are mirror images of those starting with APID a
        firsts = [i for i, (f, a, s) in enumerate(SYMS) if a == 0] if n >= 5 else list(range(16))
        ks = [0, 1, 3] if n <= (3 if ctx.quick else 4) else [0] if n == 6 else [0, 3] if n == 5 else [0, 1]
        bases = [0, 16382] if n <= 5 else [16382]
        if n <= 2:
            tasks.append({"length": n, "firsts": firsts, "bases": bases, "ks": ks})
        else:
            for f in firsts:
                tasks.append({"length": n, "firsts": [f], "bases": bases, "ks": ks})
    tasks.sort(key=lambda x: -x["length"])
    tally = fan_out(_task, tasks, jobs=ctx.jobs, seed=ctx.seed)
    tally.merge(fan_out(_task_long_groups, [{"sizes": [sz], "base": b} for sz in (1023, 1025, 4097, 16383, 16384, 16385, 16386, 32769) for b in (0, 16000)],
                        jobs=ctx.jobs, seed=ctx.seed))
    tally.merge(fan_out(_task_wide_groups, [{"n": n, "reverse": r, "continuation": c} for n in (3, 129, 257, 300, 1025, 2048) for r in (False, True) for c in (False, True)],
                        jobs=ctx.jobs, seed=ctx.seed))
    _check_dataset_front_end(tally, ctx.work)
    _check_interleaved_options(tally)
    # distinct model states: recompute cheaply over all histories of length <= 4 (the model is tiny)
    states = set()
    for n in range(1, 5):
        for hist in itertools.product(range(16), repeat=n):
            _, pkts, meta = build_history(hist, 0, 0)
            model(pkts, meta, 0, states)
    coverage = {
        "states": len(states),
        "transitions": tally.transitions,
        "traces_validated_against_impl": tally.traces,
        "exhaustive": True,
        "bound": (f"EVERY history of length <= {max_len} over 16 symbols ({{F,C,L,U}} x 2 APIDs x sequence step {{+1,+2}})"
                  + ("" if ctx.quick else " (length 5, 6 halved by APID symmetry; length 6 with base 16382 and no secondary header)")
                  + "; histories of length <= 4 also with version/type/secondary-header-flag bits that differ from packet to packet (decoded by the header-only definition and by one that recognises only type-0 packets; and with parse_bad_pkts=False by a definition that only groups of two segments fit), on a second alphabet ({F,C,L,U} on one APID x sequence step {+1,+2,0 (repeated count),-1}), a third one with steps {1, 1025, 4097, 8193}, histories whose later segments carry only their secondary header (or less), groups of 1023 ... 32769 segments (longer than the counter period), valid and with one skipped count, and as raw records (3 or 4 foreign bytes before every packet, skip_header_bytes) with secondary headers of 0..2 bytes; base sequence counts {0, 16382} (wrap-around inside the history); secondary_header_bytes {0,1,3} on the shorter histories; "
                  "every history runs in a fresh generator but all of them on ONE definition object per worker, so group state that outlives a generator "
                  "(or is shared between generators) makes later histories disagree with the model"),
        "rule": ("one evaluation = one history replayed on a fresh generator and on the model; distinct non-trivial = distinct histories containing at "
                 "least one segmented packet; states = distinct (per-APID open group size, in-sequence flag) pairs of the model"),
    }
    return {"level": LEVEL, "tally": tally, "coverage": coverage,
            "assumptions": ["warnings are not compared ('where applicable')",
                            "an UNSEGMENTED packet never joins or closes a group (its sequence step breaks any enclosing group anyway)"]}


def replay(case):
    if case.get("interleaved_options"):
        t = Tally()
        _check_interleaved_options(t)
        return next((v for v in t.violations if v["case"].get("secondary_header_bytes") == case.get("secondary_header_bytes") and v["case"].get("first") == case.get("first")), None)
    if case.get("dataset_front_end"):
        from mc import VERIF_ROOT
        import os
        t = Tally()
        _check_dataset_front_end(t, os.path.join(VERIF_ROOT, ".work"))
        return next((v for v in t.violations if v["case"].get("files") == case.get("files")), None)
    if "long_group" in case:
        t = _task_long_groups({"sizes": [case["long_group"]], "base": case["base"]})
        return next((v for v in t.violations if v["case"]["gap_at"] == case["gap_at"]), None)
    t = Tally()
    check_history(t, header_only_definition(), tuple(case["hist_idx"]), case["base"], case["k"], None, vary=case.get("vary_header_bits", False), skip=case.get("skip_header_bytes", 0), alphabet=case.get("alphabet", "A"), bare=case.get("bare", False), tm_only=case.get("tm_only", False), exact4=case.get("exact4", False))
    return t.violations[0] if t.violations else None


def repro_py(case):
    stream, pkts, meta = build_history(tuple(case["hist_idx"]), case["base"], case["k"])
    from mc.checks.c10 import HEADER_ONLY_XTCE
    return ("import io, warnings\nfrom space_packet_parser.xtce.definitions import XtcePacketDefinition\n"
            f"d = XtcePacketDefinition.from_xtce(io.BytesIO({HEADER_ONLY_XTCE!r}))\n"
            f"stream = bytes.fromhex({stream.hex()!r})  # history {[SYMS[s] for s in case['hist_idx']]}\n"
            "with warnings.catch_warnings():\n    warnings.simplefilter('ignore')\n"
            f"    for p in d.packet_generator(stream, combine_segmented_packets=True, secondary_header_bytes={case['k']}):\n"
            "        print(bytes(p.raw_data).hex())\n")
