"""C13 — Primary-header construction and header accessors are exact inverses.

Kernel E-prod over the stated sub-spaces: all 2^16 values of each 16-bit header word (with boundary
settings of the other word), every data length (quick: a boundary family), the full product of
boundary values of all seven fields, the decode direction for every 16-bit value of each word, and
the rejection cases.  Oracle: a header built by string formatting (no shifts), accessors == inputs,
framer re-frames the packet as that single packet.
"""
from __future__ import annotations

import itertools

from mc import framing
from mc.kernel import Tally, case_alarm, chunked, fan_out
from mc.seams import owned_clock, pull

PROP = "C13"
LEVEL = "exploration"

FIELDS = ("version_number", "type", "secondary_header_flag", "apid", "sequence_flags", "sequence_count")
MAXV = {"version_number": 7, "type": 1, "secondary_header_flag": 1, "apid": 2047, "sequence_flags": 3,
        "sequence_count": 16383}


def _ref_header(v, data_len):
    bits = (format(v["version_number"], "03b") + format(v["type"], "01b") + format(v["secondary_header_flag"], "01b")
            + format(v["apid"], "011b") + format(v["sequence_flags"], "02b") + format(v["sequence_count"], "014b")
            + format(data_len - 1, "016b"))
    return int(bits, 2).to_bytes(6, "big")


def _check_encode(t: Tally, v: dict, data: bytes, reframed=True):
    from space_packet_parser import packets as pk
    t.evals += 1
    case = {"fields": v, "data_len": len(data)}
    try:
        # the data field is "bytes": also an instance of a bytes subclass (a packet being encapsulated, a parsed binary value)
        form = t.evals % 5
        if form == 3:
            data_arg = pk.RawPacketData(data)
        elif form == 4:
            from space_packet_parser.common import BinaryParameter
            data_arg = BinaryParameter(data)
        else:
            data_arg = data
        p = pk.create_ccsds_packet(data_arg, **v)
    except Exception as e:  # noqa: BLE001
        t.violation({"kind": "encode-raised", "exc": type(e).__name__}, case, observed=str(e)[:200])
        return
    want = _ref_header(v, len(data)) + data
    problems = []
    if bytes(p) != want:
        problems.append("layout")
    try:
        acc = {f: getattr(p, f) for f in FIELDS}
        if acc != v or any(type(x) is not int and not isinstance(x, int) for x in acc.values()):
            problems.append("accessors")
        if p.data_length != len(data) - 1:
            problems.append("data_length")
        if tuple(p.header_values) != tuple(v[f] for f in FIELDS) + (len(data) - 1,):
            problems.append("header_values")
    except Exception as e:  # noqa: BLE001
        problems.append(f"accessor-raised:{type(e).__name__}")
        acc = None
    if reframed and not problems:
        import io
        # the constructed packet goes back through the framer as a plain bytes copy, as the object itself, and as a fresh in-memory file
        rot = t.evals % 8
        if rot == 7:
            # the framer object is created on an EMPTY in-memory file, the constructed packet is written afterwards, then the framer is advanced
            mem = io.BytesIO()
            g = pk.ccsds_generator(mem)
            mem.write(bytes(p))
            if (t.evals // 8) % 2:
                mem.seek(0)
                mem.read(6)      # ... and the caller has peeked at the header in between
            items, end = pull(g, horizon=3)
        elif rot == 6:
            # from a socket, with the progress display on (the total length is unknown there)
            import contextlib
            from mc.seams import ScriptedSocket
            sock = ScriptedSocket(bytes(p), lambda n, remaining, key, s_: min(n, remaining, 5 + (t.evals // 8) % 4), inspect=False)
            from mc.seams import WriteOnlyStream
            with contextlib.redirect_stdout((io.StringIO(), WriteOnlyStream(), None)[(t.evals // 16) % 3]):
                items, end = pull(pk.ccsds_generator(sock, show_progress=bool((t.evals // 8) % 2)), horizon=3)
        elif rot < 4:
            src = (bytes(p), p, io.BytesIO(bytes(p)), io.BytesIO(p))[rot]
            items, end = pull(pk.ccsds_generator(src), horizon=3)
        else:
            # as a raw record: 4 foreign bytes in front, read in pieces whose boundary falls near the end of the packet
            rec = bytes([0xF4, 0xF5, 0xF6, 0xF7]) + bytes(p)
            r = max(1, len(rec) - 1 - (t.evals // 8) % 5) if rot == 4 else (7, 8, 11, 4096)[(t.evals // 8) % 4]
            items, end = pull(pk.ccsds_generator(io.BytesIO(rec), skip_header_bytes=4, buffer_read_size_bytes=r), horizon=3)
        if end != "stop" or len(items) != 1 or bytes(items[0]) != want:
            problems.append("reframe" if rot == 0 else f"reframe-via-{('bytes', 'packet-object', 'BytesIO', 'BytesIO-of-object', 'raw-record-read-in-pieces', 'raw-record-read-in-pieces', 'socket', 'framer-created-before-the-write')[rot]}")
        if t.evals % 32 == 5 and not problems:
            # a file-like source that was written to / peeked at before framing: an in-memory file and a real file must be treated alike
            import os
            from mc import VERIF_ROOT
            path = os.path.join(VERIF_ROOT, ".work", f"c13_{os.getpid()}.bin")
            os.makedirs(os.path.dirname(path), exist_ok=True)
            obs = []
            for pos in (6, len(want)):
                mem = io.BytesIO()
                mem.write(want)
                mem.seek(pos)
                a = pull(pk.ccsds_generator(mem), horizon=3)
                with open(path, "w+b") as f:
                    f.write(want)
                    f.flush()
                    f.seek(pos)
                    b = pull(pk.ccsds_generator(f), horizon=3)
                if ([bytes(i) for i in a[0]], a[1]) != ([bytes(i) for i in b[0]], b[1]):
                    problems.append(f"reframe: BytesIO and real file at position {pos} framed differently")
                    break
            os.unlink(path)
        if problems:
            pass
        else:
            q = items[0]
            if tuple(q.header_values) != tuple(v[f] for f in FIELDS) + (len(data) - 1,):
                problems.append("reframed-accessors")
    if problems:
        t.violation({"kind": "encode-mismatch", "what": problems[0]}, case,
                    expected={"header": want[:6].hex()},
                    observed={"header": bytes(p)[:6].hex(), "accessors": acc, "problems": problems})


def _task_word1(task):
    t = Tally()
    with owned_clock(), case_alarm(600):
        for w in task["words"]:
            v = {"version_number": w >> 13, "type": (w >> 12) & 1, "secondary_header_flag": (w >> 11) & 1,
                 "apid": w & 0x7FF}
            for sf, sc in ((0, 0), (3, 16383)):
                _check_encode(t, {**v, "sequence_flags": sf, "sequence_count": sc}, b"\x5a\xa5")
            t.nontrivial += 1
            t.outcomes["word1"] += 1
    return t


def _task_word2(task):
    t = Tally()
    with owned_clock(), case_alarm(600):
        for w in task["words"]:
            v = {"sequence_flags": w >> 14, "sequence_count": w & 0x3FFF}
            for vn, ty, sh, ap in ((0, 0, 0, 0), (7, 1, 1, 2047)):
                _check_encode(t, {**v, "version_number": vn, "type": ty, "secondary_header_flag": sh, "apid": ap},
                              b"\x00")
            t.nontrivial += 1
            t.outcomes["word2"] += 1
    return t


def _task_lengths(task):
    t = Tally()
    with owned_clock(), case_alarm(1200):
        for n in task["lengths"]:
            data = bytes([(n * 7 + 1) & 0xFF]) * n
            for v in ({"version_number": 0, "type": 0, "secondary_header_flag": 0, "apid": 0, "sequence_flags": 0,
                       "sequence_count": 0},
                      {"version_number": 7, "type": 1, "secondary_header_flag": 1, "apid": 2047, "sequence_flags": 3,
                       "sequence_count": 16383}):
                _check_encode(t, v, data)
            t.nontrivial += 1
            t.outcomes["length"] += 1
    return t


def _task_product(task):
    t = Tally()
    with owned_clock(), case_alarm(1200):
        for combo in task["combos"]:
            v = dict(zip(FIELDS, combo[:6]))
            _check_encode(t, v, bytes(combo[6]), reframed=combo[6] < 300)
            t.nontrivial += 1
            t.outcomes["product"] += 1
    return t


def _task_decode(task):
    """raw bytes -> framer -> accessors, for every 16-bit value of each header word."""
    from space_packet_parser import packets as pk
    t = Tally()
    with owned_clock(), case_alarm(600):
        for which, w in task["items"]:
            for other in (0x0000, 0xFFFF, 0xA5A5):
                if which == 1:
                    hdr = w.to_bytes(2, "big") + other.to_bytes(2, "big")
                else:
                    hdr = other.to_bytes(2, "big") + w.to_bytes(2, "big")
                n = 1 + (w & 3)
                raw = hdr + (n - 1).to_bytes(2, "big") + bytes(range(1, n + 1))
                t.evals += 1
                items, end = pull(pk.ccsds_generator(raw), horizon=3)
                want = framing.header_fields(raw)
                ok = end == "stop" and len(items) == 1 and bytes(items[0]) == raw
                got = None
                if ok:
                    q = items[0]
                    got = (q.version_number, q.type, q.secondary_header_flag, q.apid, q.sequence_flags,
                           q.sequence_count, q.data_length)
                    ok = got == want and tuple(q.header_values) == want
                if not ok:
                    t.violation({"kind": "decode-mismatch"}, {"raw": raw.hex()}, expected=want, observed={"got": got, "end": end})
            t.nontrivial += 1
            t.outcomes[f"decode-word{which}"] += 1
    return t


ACCESSORS = FIELDS + ("data_length", "header_values", "__str__")


def _task_access_orders(task):
    """The accessors are cached per object: every ORDER of reading two of them (and three for a smaller family) on a fresh packet
    must give the layout's values - reading one accessor must not disturb another."""
    from space_packet_parser import packets as pk
    import itertools
    t = Tally()
    with owned_clock(), case_alarm(900):
        for combo in task["combos"]:
            v = dict(zip(FIELDS, combo[:6]))
            n = combo[6]
            want = {**v, "data_length": n - 1, "header_values": tuple(v[f] for f in FIELDS) + (n - 1,)}
            raw = _ref_header(v, n) + bytes(n)
            for source in ("create", "framer"):
                orders = list(itertools.permutations(ACCESSORS, 2)) + [("header_values",) + FIELDS, FIELDS + ("header_values",), ("__str__",) + FIELDS]
                if task["triples"]:
                    orders += list(itertools.permutations(("type", "secondary_header_flag", "header_values", "version_number", "sequence_flags"), 3))
                for order in orders:
                    if source == "create":
                        p = pk.create_ccsds_packet(bytes(n), **v)
                    else:
                        items, end = pull(pk.ccsds_generator(raw), horizon=2)
                        if len(items) != 1:
                            t.violation({"kind": "decode-mismatch"}, {"raw": raw[:8].hex()}, observed=end)
                            break
                        p = items[0]
                    t.evals += 1
                    bad = None
                    for a in order:
                        if a == "__str__":
                            sp = str(p)
                            for f in FIELDS:
                                if f"{f}={v[f]}," not in sp.replace("<SequenceFlags.", "").replace(" ", "") and f"{f}={v[f]}" not in sp:
                                    pass  # formatting of str() is not part of the claim; it only must not disturb the accessors
                            continue
                        got = getattr(p, a)
                        if (tuple(got) if a == "header_values" else got) != want[a]:
                            bad = (a, got)
                            break
                    if bad:
                        t.violation({"kind": "accessor-order-dependent", "accessor": bad[0], "source": source},
                                    {"fields": v, "data_len": n, "order": list(order), "source": source}, expected=want[bad[0]], observed=repr(bad[1]),
                                    note="an accessor returns a wrong value after another accessor was read first")
            t.nontrivial += 1
            t.outcomes["access-orders"] += 1
    return t


def _rejections(t: Tally):
    from space_packet_parser import packets as pk
    base = {"version_number": 1, "type": 1, "secondary_header_flag": 1, "apid": 5, "sequence_flags": 2,
            "sequence_count": 9}
    cases = []
    for f in FIELDS:
        # beyond either end of the range: by a whole step, by far, and (numbers that are not integers) by half a step
        for bad in (-1, MAXV[f] + 1, 2 ** 31, -2 ** 31, MAXV[f] + 0.5, -0.5, float(MAXV[f] + 1), float("inf"), float("-inf")):
            cases.append(({**base, f: bad}, b"\x00\x01"))
    for data in (b"", bytes(65537)):
        cases.append((base, data))
        cases.append(({f: 0 for f in FIELDS}, data))
    for v, data in cases:
        t.evals += 1
        try:
            p = pk.create_ccsds_packet(data, **v)
            t.violation({"kind": "rejection-missing"}, {"fields": v, "data_len": len(data)},
                        observed={"constructed": bytes(p)[:8].hex()}, note="out-of-range input was accepted")
        except ValueError:
            t.outcomes["rejected"] += 1
            t.nontrivial += 1
        except Exception as e:  # noqa: BLE001
            t.violation({"kind": "rejection-wrong-exception", "exc": type(e).__name__},
                        {"fields": v, "data_len": len(data)}, observed=str(e)[:200], note="expected ValueError")
    # in-range extremes must be accepted (guards against over-eager validation)
    for v in ({f: 0 for f in FIELDS}, dict(MAXV)):
        for data in (b"\x00", bytes(65536)):
            _check_encode(t, v, data)


def _task_streams_of_constructed(task):
    """Many constructed packets in one stream, delivered piecewise, with the framer's buffer trimmed again and again (the trim literal rewritten
    to a small number): every packet comes back as constructed and its accessors say what was put in."""
    import io
    from mc.checks.c02 import _pkmod_cached
    from mc.seams import ScriptedSocket, pull
    from space_packet_parser import packets as pk
    t = Tally()
    fields = [{"version_number": i % 8, "type": i % 2, "secondary_header_flag": (i // 2) % 2, "apid": (i * 409) % 2048, "sequence_flags": i % 4,
               "sequence_count": (i * 1031) % 16384} for i in range(task["n"])]
    pkts = [pk.create_ccsds_packet(bytes(((i * 7 + j) & 0xFF) for j in range(1 + (i * 5) % 23)), **f) for i, f in enumerate(fields)]
    stream = b"".join(bytes(p) for p in pkts)
    for thr in task["thresholds"]:
        mod = _pkmod_cached(thr)
        if mod is None:
            continue
        for source, r in (("bytesio", 1), ("bytesio", 7), ("bytesio", 64), ("bytesio", None), ("bytes", None), ("socket", 5), ("socket", 64),
                          ("file-half-flushed", None), ("file-half-flushed", 64)):
            t.evals += 1
            t.nontrivial += 1
            fh = None
            if source == "file-half-flushed":
                # a read/write file: the first packets written and flushed, the rest written and still in the file object's buffer
                import os
                from mc import VERIF_ROOT
                os.makedirs(os.path.join(VERIF_ROOT, ".work"), exist_ok=True)
                pth = os.path.join(VERIF_ROOT, ".work", f"c13s_{os.getpid()}.bin")
                fh = open(pth, "w+b")
                half = len(b"".join(bytes(p) for p in pkts[:max(1, len(pkts) // 2)]))
                fh.write(stream[:half])
                fh.flush()
                fh.write(stream[half:])
                src = fh
            else:
                src = stream if source == "bytes" else io.BytesIO(stream) if source == "bytesio" else ScriptedSocket(stream, lambda n, remaining, key, s_: min(n, remaining, 11), inspect=False)
            try:
                items, end = pull(mod.ccsds_generator(src, buffer_read_size_bytes=r), horizon=len(pkts) + 2)
                bad = None
                if [bytes(x) for x in items[:len(pkts)]] != [bytes(p) for p in pkts] or len(items) != len(pkts):
                    bad = f"{len(items)} items, first difference at #{next((i for i, (a, b) in enumerate(zip(items, pkts)) if bytes(a) != bytes(b)), min(len(items), len(pkts)))}"
                else:
                    for x, f in zip(items, fields):
                        if any(getattr(x, k_) != v for k_, v in f.items()) or x.data_length != len(x) - 7:
                            bad = "accessors of a yielded packet differ from the fields it was constructed with"
                            break
            except Exception as e:  # noqa: BLE001
                bad = f"raised {type(e).__name__}: {str(e)[:80]}"
            if fh is not None:
                fh.close()
                os.unlink(pth)
            if bad:
                t.violation({"kind": "reframe-stream", "source": source, "trimmed": thr is not None}, {"stream_of_constructed": True, "n": task["n"], "threshold": thr, "source": source, "r": r},
                            observed=bad, note="a stream of constructed packets is not re-framed into those packets")
    if task["n"] == 5:
        # a message-preserving socket (SOCK_SEQPACKET, a datagram socket): every constructed packet is ONE message, some larger than the default
        # read size; the caller asks for reads large enough for the largest message, so nothing may be cut off
        sizes = (5000, 4090, 12, 65536, 4097, 1)
        big = [pk.create_ccsds_packet(bytes(((i * 11 + j) & 0xFF) for j in range(sz)), apid=100 + i, sequence_count=i) for i, sz in enumerate(sizes)]
        bstream = b"".join(bytes(p) for p in big)
        starts = {}
        off = 0
        for p_ in big:
            starts[off] = len(bytes(p_))
            off += len(bytes(p_))
        for r in (65542, 70000, 1 << 20):
            t.evals += 1
            t.nontrivial += 1
            sock = ScriptedSocket(bstream, lambda n, remaining, key, s_: starts.get(s_.delivered, 0) if remaining else 0, inspect=False, msg_max=65542)
            try:
                items, end = pull(pk.ccsds_generator(sock, buffer_read_size_bytes=r), horizon=len(big) + 2)
                bad = None
                if [bytes(x) for x in items] != [bytes(p_) for p_ in big]:
                    bad = f"{len(items)} items of {len(big)}, {sock.truncated} bytes cut off by reads smaller than the caller asked for"
            except Exception as e:  # noqa: BLE001
                bad = f"raised {type(e).__name__}: {str(e)[:80]}"
            if bad:
                t.violation({"kind": "reframe-stream", "source": "message-socket", "trimmed": False},
                            {"stream_of_constructed": True, "n": 5, "threshold": None, "source": "message-socket", "r": r},
                            observed=bad, note="packets sent one per message over a message-preserving socket are not re-framed into those packets")
    return t


def run(ctx):
    words = list(range(1 << 16))
    tally = fan_out(_task_word1, [{"words": ch} for ch in chunked(words, 32)], jobs=ctx.jobs, seed=ctx.seed)
    tally.merge(fan_out(_task_word2, [{"words": ch} for ch in chunked(words, 32)], jobs=ctx.jobs, seed=ctx.seed))
    if ctx.quick:
        lengths = sorted(set(list(range(1, 520)) + [2 ** i + d for i in range(9, 17) for d in (-2, -1, 0, 1, 2)
                                                     if 1 <= 2 ** i + d <= 65536] + [65535, 65536, 40000, 12345]))
    else:
        lengths = list(range(1, 65537))
    # interleave so that each worker gets a mix of short and long payloads
    lt = [{"lengths": lengths[i::48]} for i in range(48)]
    tally.merge(fan_out(_task_lengths, lt, jobs=ctx.jobs, seed=ctx.seed))

    def bvals(mx):
        return sorted(set([0, 1, mx // 2, mx - 1, mx])) if not ctx.quick else sorted(set([0, mx // 2 + 1, mx]))
    lens = [1, 2, 255, 256, 65536] if not ctx.quick else [1, 256, 65536]
    combos = list(itertools.product(*[bvals(MAXV[f]) for f in FIELDS], lens))
    tally.merge(fan_out(_task_product, [{"combos": ch} for ch in chunked(combos, 64)], jobs=ctx.jobs, seed=ctx.seed))
    items = [(1, w) for w in words] + [(2, w) for w in words]
    tally.merge(fan_out(_task_decode, [{"items": ch} for ch in chunked(items, 32)], jobs=ctx.jobs, seed=ctx.seed))
    # adjacent fields get different values so that a swap or an overlap between neighbours shows
    ocombos = [c for c in itertools.product((0, 5, 7), (0, 1), (0, 1), (0, 1365, 2047), (0, 2, 3), (0, 10922, 16383), (1, 2, 65536))
               if ctx.quick is False or (c[1] != c[2] or c[0] == 5)]
    tally.merge(fan_out(_task_access_orders, [{"combos": ch, "triples": not ctx.quick} for ch in chunked(ocombos, 48)], jobs=ctx.jobs, seed=ctx.seed))
    _rejections(tally)
    tally.merge(fan_out(_task_streams_of_constructed, [{"n": n, "thresholds": [None, 0, 17, 40, 200]} for n in (5, 40, 300)], jobs=3, seed=ctx.seed))
    tally.sample({"fields": {"version_number": 7, "type": 1, "secondary_header_flag": 1, "apid": 2047,
                             "sequence_flags": 3, "sequence_count": 16383}, "data_len": 65536})
    tally.sample({"decode": "a5a5" + "0003" + "0002" + "010203"})
    coverage = {
        "programs": len(combos),
        "exhaustive": True,
        "bound": ("encode: all 2^16 values of header word 1 x 2 settings of word 2; all 2^16 values of word 2 x 2 settings of word 1; "
                  f"{len(lengths)} data lengths ({'every length 1..65536' if not ctx.quick else '1..519, 2^i +-2, 65535, 65536'}) x 2 header settings; "
                  f"product of {'5' if not ctx.quick else '3'} boundary values of the six fields x {len(lens)} lengths = {len(combos)}; "
                  "decode: every 16-bit value of each header word x 3 settings of the other; accessor caching: every ordered pair of the 9 accessors "
                  "(7 fields, header_values, str) read on a fresh object from both create_ccsds_packet and the framer, over a product of field values with "
                  "unequal neighbours; rejection: each field at -1, max+1, +-2^31, max+0.5, -0.5, float(max+1), +-inf, "
                  "data of 0 and 65537 bytes; streams of 5, 40 and 300 constructed packets through bytes, in-memory files, a half-flushed file and sockets at several read sizes "
                  "and buffer-trim thresholds; six constructed packets of 1..65536 data bytes sent one per message over a message-preserving socket, read sizes 65542, 70000, 2^20"),
        "rule": ("one evaluation = one construction (with accessor read-back and re-framing) or one decode; distinct non-trivial = "
                 "distinct header-word values / lengths / boundary combinations / rejection cases"),
    }
    return {"level": LEVEL, "tally": tally, "coverage": coverage,
            "assumptions": ["CCSDS 133.0-B primary header layout 3/1/1/11/2/14/16"]}


def _in_range(v, n):
    return all(0 <= v[f] <= MAXV[f] for f in FIELDS) and 1 <= n <= 65536


def replay(case):
    if case.get("stream_of_constructed"):
        t = _task_streams_of_constructed({"n": case["n"], "thresholds": [case["threshold"]]})
        return next((v for v in t.violations if v["case"].get("source") == case.get("source") and v["case"].get("r") == case.get("r")), None)
    from space_packet_parser import packets as pk
    t = Tally()
    with owned_clock():
        if "raw" in case:
            raw = bytes.fromhex(case["raw"])
            items, end = pull(pk.ccsds_generator(raw), horizon=3)
            want = framing.header_fields(raw)
            if end == "stop" and len(items) == 1 and bytes(items[0]) == raw and tuple(items[0].header_values) == want:
                return None
            return {"sig": {"kind": "decode-mismatch"}, "case": case, "expected": want}
        v, n = case["fields"], case["data_len"]
        if "order" in case:
            t2 = _task_access_orders({"combos": [tuple(v[f] for f in FIELDS) + (n,)], "triples": True})
            for viol in t2.violations:
                if viol["case"]["order"] == case["order"] and viol["case"]["source"] == case["source"]:
                    return viol
            return None
        if _in_range(v, n):
            for pre in list(range(8)) + [8 * j + 3 for j in range(1, 6)] + [8 * j + 4 for j in range(1, 6)] + [8 * j + 5 for j in range(1, 4)] + [8 * j + 6 for j in range(1, 3)] + [4, 36, 68]:  # every source rotation of the re-framing step, and the positioned-file differential (evals % 32 == 5)
                t = Tally()
                t.evals = pre
                _check_encode(t, v, bytes(n))
                if t.violations:
                    return t.violations[0]
            return None
        try:
            pk.create_ccsds_packet(bytes(n), **v)
            return {"sig": {"kind": "rejection-missing"}, "case": case}
        except ValueError:
            return None
        except Exception as e:  # noqa: BLE001
            return {"sig": {"kind": "rejection-wrong-exception", "exc": type(e).__name__}, "case": case}


def repro_py(case):
    return f"""from space_packet_parser.packets import create_ccsds_packet
case = {case!r}
p = create_ccsds_packet(bytes(case.get('data_len', 1)), **case.get('fields', {{}}))
print(bytes(p)[:6].hex(), p.header_values)
"""
