"""C02 — Stream framing is exact and independent of source kind and chunking.

Kernel E-env.  For every packet sequence of the palette (<= 3 packets quick, <= 4 thorough), every
prefix length, and every source kind: bytes; file objects (BytesIO and a real file) with every
read size; a scripted socket with a set of read sizes and, for each, *every* fragmentation of the
stream into recv() answers (explicit-state exploration with frame-state hashing, cross-checked by
stateless exploration on short streams).  The 20 MB trim branch is covered (i) for real with a 21 MB
stream and (ii) exhaustively with the literal rewritten to {0, 5, 17} by an AST transform of the
repository's current packets.py.
"""
from __future__ import annotations

import os

from mc import framing
from mc.envexplore import EnvExplorer
from mc.kernel import Tally, case_alarm, fan_out, CaseTimeout
from mc.seams import CountingBytesIO, Livelock, ScriptedSocket, owned_clock, pull

PROP = "C02"
LEVEL = "model_checking"


def _pkmod(threshold):
    import space_packet_parser.packets as real
    if threshold is None:
        return real
    mod, n = framing.load_packets_module_with_threshold(threshold)
    return mod if n else None


_PKMODS = {}


def _pkmod_cached(threshold):
    if threshold not in _PKMODS:
        _PKMODS[threshold] = _pkmod(threshold)
    return _PKMODS[threshold]


def _make_gen(entry, pkmod, src, r, k):
    if entry == "ccsds":
        return pkmod.ccsds_generator(src, buffer_read_size_bytes=r, skip_header_bytes=k)
    from space_packet_parser.xtce.definitions import XtcePacketDefinition
    return XtcePacketDefinition().packet_generator(src, ccsds_headers_only=True, buffer_read_size_bytes=r,
                                                   skip_header_bytes=k)


class _ShortRaw(__import__("io").RawIOBase):
    """A seekable raw stream whose readinto() never delivers more than 3 bytes at a time."""
    def __init__(self, data):
        self._d, self._o = data, 0

    def readable(self):
        return True

    def seekable(self):
        return True

    def seek(self, off, whence=0):
        self._o = off if whence == 0 else self._o + off if whence == 1 else len(self._d) + off
        return self._o

    def tell(self):
        return self._o

    def readinto(self, b):
        n = min(3, len(b), len(self._d) - self._o)
        b[:n] = self._d[self._o:self._o + n]
        self._o += n
        return n


class _DeviceRaw(__import__("io").RawIOBase):
    """A character-device-like raw stream: it says it is seekable, every seek() answers 0 and moves nothing (so the size measured by
    seek(0, SEEK_END) is 0), and reads deliver the data in order."""
    def __init__(self, data):
        self._d, self._o = data, 0

    def readable(self):
        return True

    def seekable(self):
        return True

    def seek(self, off, whence=0):
        return 0

    def tell(self):
        return 0

    def readinto(self, b):
        n = min(len(b), len(self._d) - self._o)
        b[:n] = self._d[self._o:self._o + n]
        self._o += n
        return n


def _file_family(kind, stream):
    import gzip
    import io
    if kind == "device-reporting-length-0":
        return io.BufferedReader(_DeviceRaw(stream), buffer_size=16)
    if kind == "gzip":
        buf = io.BytesIO()
        with gzip.GzipFile(fileobj=buf, mode="wb", mtime=0) as g:
            g.write(stream)
        return gzip.GzipFile(fileobj=io.BytesIO(buf.getvalue()), mode="rb")
    return io.BufferedReader(_ShortRaw(stream), buffer_size=4)


def _sized_run(entry, pkmod, src, r, k, expected):
    """Bytes / file sources: everything, then StopIteration."""
    g = _make_gen(entry, pkmod, src, r, k)
    items, end = pull(g, horizon=len(expected) + 2)
    got = [bytes(i) for i in items]
    if got == list(expected) and end == "stop":
        return None
    return {"got": [x.hex() for x in got[:6]], "n_got": len(got), "end": end}


def _sized_run_touched(entry, pkmod, src, r, k, expected, touch):
    """File sources: take exactly the packets the stream holds, then the caller closes or rewinds its file object, then asks once more: the
    framer knows the length of a file source and has handed out all of it, so it stops - it yields nothing after the last packet."""
    g = _make_gen(entry, pkmod, src, r, k)
    got = []
    try:
        for _ in expected:
            got.append(bytes(next(g)))
    except StopIteration:
        return {"got": [x.hex() for x in got[:6]], "n_got": len(got), "end": "stopped early"}
    except Exception as e:  # noqa: BLE001
        return {"got": [x.hex() for x in got[:6]], "n_got": len(got), "end": f"raised {type(e).__name__}"}
    if got != list(expected):
        return {"got": [x.hex() for x in got[:6]], "n_got": len(got), "end": "wrong packets"}
    if touch == "close":
        src.close()
    else:
        src.seek(0)
    try:
        extra = next(g)
    except StopIteration:
        return None
    except Exception as e:  # noqa: BLE001
        return {"n_got": len(got), "end": f"after the last packet: raised {type(e).__name__}: {str(e)[:80]}"}
    return {"n_got": len(got) + 1, "end": "after the last packet: yielded " + bytes(extra).hex()[:40]}


def _sized_run_regrown(entry, pkmod, r, k, expected, grow_by, mode):
    """ONE file object framed, then given more content by the caller (appended, or emptied and refilled with a longer stream), then framed
    again from the start: the second generator yields the packets the object holds THEN.  -> None or a description."""
    import io
    first = list(expected[:len(expected) - grow_by])
    s1 = framing.build_stream(first, k)
    s2 = framing.build_stream(list(expected), k)
    f = io.BytesIO(s1)
    items, end = pull(_make_gen(entry, pkmod, f, r, k), horizon=len(first) + 2)
    if [bytes(i) for i in items] != first or end != "stop":
        return {"run": 1, "n_got": len(items), "end": end}
    if mode == "append":
        f.seek(0, 2)
        f.write(s2[len(s1):])
    else:
        f.seek(0)
        f.truncate()
        f.write(s2)
    f.seek(0)
    items, end = pull(_make_gen(entry, pkmod, f, r, k), horizon=len(expected) + 2)
    got = [bytes(i) for i in items]
    if got != list(expected) or end != "stop":
        return {"run": 2, "got": [x.hex() for x in got[:6]], "n_got": len(got), "end": end}
    return None


def _socket_drive(entry, pkmod, r, k, n_expected):
    def drive(sock, on_item):
        g = _make_gen(entry, pkmod, sock, r, k)
        items = []
        for _ in range(n_expected):
            try:
                it = next(g)
            except StopIteration:
                return (tuple(items), "stopped-early")
            except Livelock as e:
                return (tuple(items), "livelock")
            except Exception as e:  # noqa: BLE001 - the observation
                return (tuple(items), f"raised:{type(e).__name__}")
            b = bytes(it)
            on_item(b)
            items.append(b)
        return (tuple(items), "ok")
    return drive


def _explore_socket(t: Tally, stream, expected, entry, pkmod, r, k, case, stateful=True, max_execs=300_000):
    want = (tuple(expected), "ok")
    def waiting(delivered, n_items):
        # a record (prefix + packet) lies completely in the bytes delivered so far and has not been yielded: asking the socket for more now
        # would hold that packet back for as long as the peer pauses
        return len(framing.ref_frame(stream[:delivered], k)[0]) > n_items

    ex = EnvExplorer(stream, _socket_drive(entry, pkmod, r, k, len(expected)), stateful=stateful,
                     max_execs=max_execs, waiting=waiting)

    def check(e):
        if e.obs == want and e.starved is not None:
            return (e.obs[0], f"recv() call #{e.starved[0]} was made with {e.starved[1]} bytes delivered and only {e.starved[2]} packet(s) yielded")
        return None if e.obs == want else e.obs

    vs = ex.explore(check)
    t.evals += ex.executions
    t.traces += ex.executions
    t.states += len(ex.seen) if stateful else 0
    t.transitions += ex.transitions
    t.extra["socket_explorations"] += 1
    t.extra["socket_executions"] += ex.executions
    if ex.capped:
        t.caps.append(f"socket exploration capped at {max_execs} executions ({case})")
    if ex.uninspectable:
        t.notes.append("implementation frame not inspectable at some choice point: no state merging there")
    for sched, obs in vs:
        if obs[0] == want[0] and isinstance(obs[1], str) and obs[1].startswith("recv() call"):
            t.violation({"kind": "packet-held-back", "source": "socket"}, {**case, "source": "socket", "schedule": sched, "held_back": True},
                        observed=obs[1], note="the framer asked the socket for more although a complete record was already delivered and not yet yielded: "
                                              "with a peer that pauses, that packet is held back")
            continue
        t.violation({"kind": "framing-mismatch", "source": "socket"},
                    {**case, "source": "socket", "schedule": sched},
                    expected={"packets": [p.hex() for p in expected]},
                    observed={"packets": [p.hex() for p in obs[0]][:6], "end": obs[1]},
                    note="socket fragmentation yields different packets")
    return ex


def _task(task):
    t = Tally()
    pal = framing.palette_packets()
    seq, k, tier = task["seq"], task["k"], task["tier"]
    expected = [pal[i] for i in seq]
    stream = framing.build_stream(expected, k)
    L = len(stream)
    thresholds = task["thresholds"]
    with owned_clock():
        for thr in thresholds:
            pkmod = _pkmod(thr)
            if pkmod is None:
                t.notes.append("no integer literal 20000000 in packets.py: shrunken-threshold exploration skipped")
                continue
            entries = ["ccsds", "pg"] if thr is None else ["ccsds"]
            for entry in entries:
                base = {"seq": list(seq), "k": k, "entry": entry, "threshold": thr}
                # (a) bytes
                with case_alarm(20):
                    bad = _sized_run(entry, pkmod, stream, None, k, expected)
                t.evals += 1
                t.traces += 1
                t.outcomes["sized:" + ("ok" if bad is None else "mismatch")] += 1
                if bad:
                    t.violation({"kind": "framing-mismatch", "source": "bytes"}, {**base, "source": "bytes"},
                                expected=[p.hex() for p in expected], observed=bad)
                # (b) files: BytesIO and a real file, every read size
                for r in [None] + list(range(1, L + 2)):
                    for kind in ("bytesio", "file"):
                        if kind == "file" and entry == "pg" and r not in (None, 1, 7):
                            continue
                        try:
                            with case_alarm(20):
                                if kind == "bytesio":
                                    src = CountingBytesIO(stream)
                                    bad = _sized_run(entry, pkmod, src, r, k, expected)
                                else:
                                    path = os.path.join(task["work"], f"c02_{os.getpid()}.bin")
                                    with open(path, "wb") as f:
                                        f.write(stream)
                                    with open(path, "rb") as src:
                                        bad = _sized_run(entry, pkmod, src, r, k, expected)
                                    os.unlink(path)
                        except CaseTimeout:
                            bad = {"end": "timeout"}
                        t.evals += 1
                        t.traces += 1
                        t.outcomes["sized:" + ("ok" if bad is None else "mismatch")] += 1
                        if bad:
                            t.violation({"kind": "framing-mismatch", "source": kind},
                                        {**base, "source": kind, "r": r},
                                        expected=[p.hex() for p in expected], observed=bad)
                # (b") the caller takes exactly the packets of the file, closes (or rewinds) its file object, and asks once more
                if expected:
                    for r in (None, 1, 7, L + 1):
                        for kind in ("bytesio", "file"):
                            for touch in ("close", "rewind"):
                                try:
                                    with case_alarm(20):
                                        if kind == "bytesio":
                                            bad = _sized_run_touched(entry, pkmod, CountingBytesIO(stream), r, k, expected, touch)
                                        else:
                                            path = os.path.join(task["work"], f"c02_{os.getpid()}.bin")
                                            with open(path, "wb") as f:
                                                f.write(stream)
                                            src = open(path, "rb")
                                            try:
                                                bad = _sized_run_touched(entry, pkmod, src, r, k, expected, touch)
                                            finally:
                                                src.close()
                                                os.unlink(path)
                                except CaseTimeout:
                                    bad = {"end": "timeout"}
                                t.evals += 1
                                t.traces += 1
                                t.outcomes["sized:" + ("ok" if bad is None else "mismatch")] += 1
                                if bad:
                                    t.violation({"kind": "touches-source-after-last-packet", "source": kind, "touch": touch},
                                                {**base, "source": kind, "r": r, "touch": touch},
                                                expected=[p.hex() for p in expected] + ["then StopIteration"], observed=bad)
                # (b"') one file object framed, grown by the caller, framed again
                if len(expected) >= 2:
                    for r in (None, 1, 7):
                        for grow_by in range(1, len(expected)):
                            for mode in ("append", "refill"):
                                try:
                                    with case_alarm(20):
                                        bad = _sized_run_regrown(entry, pkmod, r, k, expected, grow_by, mode)
                                except CaseTimeout:
                                    bad = {"end": "timeout"}
                                t.evals += 1
                                t.traces += 1
                                t.outcomes["sized:" + ("ok" if bad is None else "mismatch")] += 1
                                if bad:
                                    t.violation({"kind": "framing-mismatch", "source": "bytesio-reused-after-growing", "mode": mode},
                                                {**base, "source": "bytesio-reused-after-growing", "r": r, "grow_by": grow_by, "mode": mode},
                                                expected=[p.hex() for p in expected], observed=bad)
                # (b') other members of the file family: a gzip file object and a BufferedReader over a raw stream that answers every raw
                # read with at most 3 bytes (both are io.BufferedIOBase, which is what the framer asks for)
                if thr is None:
                    for kind in ("gzip", "buffered-over-short-raw", "device-reporting-length-0"):
                        for r in (None, 1, 7, L + 1):
                            try:
                                with case_alarm(20):
                                    bad = _sized_run(entry, pkmod, _file_family(kind, stream), r, k, expected)
                            except CaseTimeout:
                                bad = {"end": "timeout"}
                            t.evals += 1
                            t.traces += 1
                            t.outcomes["sized:" + ("ok" if bad is None else "mismatch")] += 1
                            if bad:
                                t.violation({"kind": "framing-mismatch", "source": kind}, {**base, "source": kind, "r": r},
                                            expected=[p.hex() for p in expected], observed=bad)
                # (c) scripted socket, every fragmentation
                if not expected:
                    continue
                if thr is None:
                    rs = [None, 1, 2, 3, 5, 6, 7, 8, L] if entry == "ccsds" else [None, 3, 7]
                else:
                    rs = [None, 1, 3, 6, 7]
                if tier == "quick" and len(seq) >= 3:
                    rs = [x for x in rs if x is not None and x != L] + ([None] if k == 0 and entry == "ccsds" else [])
                for r in rs:
                    case = {**base, "r": r}
                    try:
                        with case_alarm(240):
                            ex = _explore_socket(t, stream, expected, entry, pkmod, r, k, case)
                        t.outcomes["socket:distinct_outcomes=%d" % len(ex.outcomes)] += 1
                    except CaseTimeout:
                        t.violation({"kind": "timeout", "source": "socket"}, {**case, "source": "socket"},
                                    note="exploration exceeded its budget (implementation not terminating?)")
                    # cross-check of state merging on short streams: stateless exploration must agree
                    if L <= task["stateless_max"] and r in (None, 3) and entry == "ccsds" and thr is None:
                        try:
                            with case_alarm(240):
                                t2 = Tally()
                                ex2 = _explore_socket(t2, stream, expected, entry, pkmod, r, k, case, stateful=False,
                                                      max_execs=600_000)
                            t.evals += ex2.executions
                            t.traces += ex2.executions
                            t.extra["stateless_crosscheck_executions"] += ex2.executions
                            t.extra["stateless_crosschecks"] += 1
                            if ex2.capped:
                                t.caps.append("stateless cross-check capped")
                            elif ex2.outcomes != ex.outcomes:
                                t.violation({"kind": "merge-unsound"}, case,
                                            expected=sorted(ex2.outcomes)[:4], observed=sorted(ex.outcomes)[:4],
                                            note="stateful and stateless explorations disagree on the outcome set")
                        except CaseTimeout:
                            t.caps.append("stateless cross-check timed out")
            if thr is None and len(seq) >= 2:
                t.nontrivial += 1
    t.programs += 1
    if len(seq) == 2 and k == 1:
        t.sample({"packets": [p.hex() for p in expected], "prefix_bytes": k, "stream": stream.hex(),
                  "sources": "bytes, BytesIO+file with r in None,1..L+1, socket with every fragmentation"})
    return t


def _long_sized_task(task):
    """Longer streams for the sized sources only (no schedule to explore, so they are cheap): every sequence of 4 palette packets and
    homogeneous / alternating sequences of up to 12 packets, with more prefix lengths.  Byte accounting that only goes wrong when
    some running total coincides with the source length needs several packets to line up."""
    import space_packet_parser.packets as real
    t = Tally()
    pal = framing.palette_packets()
    with owned_clock():
        for seq in task["seqs"]:
            expected = [pal[i] for i in seq]
            for k in task["ks"]:
                stream = framing.build_stream(expected, k)
                for entry, thr in (("ccsds", None), ("pg", None), ("ccsds", 0), ("ccsds", 5), ("ccsds", 17), ("ccsds", 40)):
                    # with the buffer-trim literal rewritten (0, 5, 17, 40 bytes) these streams cross the threshold many times over
                    if thr is not None and k not in (0, 3):
                        continue
                    pkmod = _pkmod_cached(thr)
                    if pkmod is None:
                        continue
                    for kind, r in (("bytes", None), ("bytesio", None), ("bytesio", 1), ("bytesio", 5), ("bytesio", 64), ("bytesio", len(stream))):
                        if entry == "pg" and r not in (None, 5):
                            continue
                        if thr is not None and r in (64, len(stream)):
                            continue
                        try:
                            with case_alarm(20):
                                bad = _sized_run(entry, pkmod, stream if kind == "bytes" else CountingBytesIO(stream), r, k, expected)
                        except CaseTimeout:
                            bad = {"end": "timeout"}
                        t.evals += 1
                        t.traces += 1
                        t.outcomes["long-sized:" + ("ok" if bad is None else "mismatch")] += 1
                        if bad:
                            t.violation({"kind": "framing-mismatch", "source": kind, "long": True, "threshold": thr},
                                        {"seq": list(seq), "k": k, "entry": entry, "threshold": thr, "source": kind, "r": r},
                                        expected=len(expected), observed=bad, note="a longer stream is framed differently from a sized source")
                # compressed files on disk (gzip.open / bz2.open / lzma.open objects are io.BufferedIOBase; their file descriptor and on-disk size
                # belong to the COMPRESSED file, the stream the framer must frame is the decompressed one)
                if len(seq) >= 8 and k in (0, 4):
                    import bz2
                    import gzip
                    import lzma
                    for cname, opener in (("gzip-file", gzip.open), ("bz2-file", bz2.open), ("lzma-file", lzma.open)):
                        cpath = os.path.join(task["work"], f"c02z_{os.getpid()}.{cname}")
                        with opener(cpath, "wb") as f:
                            f.write(stream)
                        for r in (None, 5):
                            try:
                                with case_alarm(20), opener(cpath, "rb") as src:
                                    bad = _sized_run("ccsds", real, src, r, k, expected)
                            except CaseTimeout:
                                bad = {"end": "timeout"}
                            t.evals += 1
                            t.traces += 1
                            t.outcomes["long-sized:" + ("ok" if bad is None else "mismatch")] += 1
                            if bad:
                                t.violation({"kind": "framing-mismatch", "source": cname, "long": True},
                                            {"seq": list(seq), "k": k, "entry": "ccsds", "threshold": None, "source": cname, "r": r,
                                             "compressed_size": os.path.getsize(cpath), "stream_size": len(stream)},
                                            expected=len(expected), observed=bad, note="a compressed file on disk is framed differently from its decompressed content")
                        os.unlink(cpath)
                # file-like sources handed over at a non-zero position: an in-memory file and a real file are the same kind of
                # source, so whatever the framer does with the position it must do for both (differential oracle only)
                if len(seq) <= 4:
                    import io
                    path = os.path.join(task["work"], f"c02p_{os.getpid()}.bin")
                    with open(path, "wb") as f:
                        f.write(stream)
                    for pos in sorted({1, 6, k + 7, len(stream)} if stream else ()):
                        if pos > len(stream):
                            continue
                        for r in (None, 5):
                            obs = []
                            for kind in ("bytesio", "file"):
                                try:
                                    with case_alarm(20):
                                        if kind == "bytesio":
                                            src = io.BytesIO(stream)
                                            src.seek(pos)
                                            items, end = pull(_make_gen("ccsds", real, src, r, k), horizon=len(expected) + 3)
                                        else:
                                            with open(path, "rb") as src:
                                                src.seek(pos)
                                                items, end = pull(_make_gen("ccsds", real, src, r, k), horizon=len(expected) + 3)
                                    obs.append(([bytes(i).hex() for i in items], end))
                                except CaseTimeout:
                                    obs.append(([], "timeout"))
                            t.evals += 2
                            t.traces += 2
                            t.outcomes["positioned:" + ("same" if obs[0] == obs[1] else "differ")] += 1
                            if obs[0] != obs[1]:
                                t.violation({"kind": "source-kinds-disagree", "history": "file-like source handed over at a non-zero position"},
                                            {"seq": list(seq), "k": k, "entry": "ccsds", "threshold": None, "source": "positioned", "r": r, "pos": pos},
                                            expected={"file": obs[1]}, observed={"bytesio": obs[0]},
                                            note="io.BytesIO and a real file at the same position are framed differently")
                    os.unlink(path)
            t.nontrivial += 1
    return t


def _big_task(task):
    """The literal 20 MB threshold reached for real, and a maximum-size packet."""
    import space_packet_parser.packets as real
    t = Tally()
    kind = task["kind"]
    k = task["k"]
    with owned_clock():
        if kind == "maxsize":
            pkts = [framing.mk_packet(bytes((i * 7 + 3) & 0xFF for i in range(65536)), apid=5, seqcount=9),
                    framing.mk_packet(b"\x01", apid=6)]
        elif kind == "many":
            # the NUMBER of packets in one run: 100 050 and 262 200 small packets (past every round count a periodic action could hang on)
            pkts = [framing.mk_packet(bytes([i & 0xFF, (i >> 8) & 0xFF])[:1 + i % 2], apid=i % 2048, seqcount=i % 16384) for i in range(task["n"])]
        else:
            body = bytes((i * 13 + 1) & 0xFF for i in range(65536))
            pkts = [framing.mk_packet(body[:-2] + i.to_bytes(2, "big"), apid=i % 2048, seqcount=i) for i in range(330)]
        stream = framing.build_stream(pkts, k)
        base = {"big": kind, "k": k, "n": task.get("n")}
        runs = [("bytes", None), ("bytesio", None), ("bytesio", 65536), ("bytesio", 1_000_003)]
        if kind == "many":
            runs = [("bytes", None), ("bytesio", 4096)]
        for src_kind, r in runs:
            src = stream if src_kind == "bytes" else CountingBytesIO(stream)
            with case_alarm(300):
                bad = _sized_run("ccsds", real, src, r, k, pkts)
            t.evals += 1
            t.traces += 1
            t.outcomes["big:" + ("ok" if bad is None else "mismatch")] += 1
            if bad:
                bad["got"] = [g[:40] for g in bad.get("got", [])]
                t.violation({"kind": "framing-mismatch", "source": src_kind, "big": kind}, {**base, "source": src_kind, "r": r},
                            observed=bad)
        # socket: deviation-bounded (default answer: deliver the full n; deviations: short deliveries)
        r = 1 << 20
        L = len(stream)
        devs = [()]  # zero deviations
        if task["tier"] == "thorough" or kind == "maxsize":
            # one deviation: at recv call #j deliver c bytes, c from boundary-relevant cuts
            ncalls = L // r + 2
            calls = sorted(set([0, 1, 2, ncalls - 2, ncalls - 1] + ([19, 20, 21] if kind != "maxsize" else [])))
            for j in calls:
                for c in (1, 5, 6, 7, k + 6, r - 1):
                    if c >= 1:
                        devs.append(((j, c),))
        for dev in devs:
            devd = dict(dev)
            state = {"i": 0}

            def decide(n, remaining, key, sock):
                i = state["i"]
                state["i"] += 1
                if remaining == 0:
                    return 0
                full = min(n, remaining)
                return min(devd.get(i, full), full)

            sock = ScriptedSocket(stream, decide, inspect=False)
            g = real.ccsds_generator(sock, buffer_read_size_bytes=r, skip_header_bytes=k)
            got_ok = True
            n = 0
            try:
                with case_alarm(300):
                    for want in pkts:
                        it = next(g)
                        if bytes(it) != want:
                            got_ok = False
                            break
                        n += 1
            except (Exception, Livelock, CaseTimeout) as e:  # noqa: BLE001
                got_ok = False
            t.evals += 1
            t.traces += 1
            t.outcomes["big-socket:" + ("ok" if got_ok else "mismatch")] += 1
            if not got_ok:
                t.violation({"kind": "framing-mismatch", "source": "socket", "big": kind},
                            {**base, "source": "socket", "r": r, "deviations": list(dev)},
                            observed={"packets_ok_before_failure": n})
    t.nontrivial += 1
    t.programs += 1
    return t


def _late_patched_socket_class(t: Tally):
    """A process that replaces socket.socket AFTER the library was imported by a class of its own that wraps the system's sockets (the green
    socket of a cooperative scheduler): its sockets are sockets (isinstance(s, socket.socket) holds in that process) and are framed as such."""
    import socket as _socket
    import space_packet_parser.packets as real
    pal = framing.palette_packets()
    orig = _socket.socket

    class GreenSocket:
        def __init__(self, data, step):
            self._d, self._o, self._step = data, 0, step

        def recv(self, n, flags=0):
            k = min(n, self._step, len(self._d) - self._o)
            out = self._d[self._o:self._o + k]
            self._o += k
            return out
    for seq in ((0,), (1, 2), (2, 0, 1)):
        for k in (0, 3):
            expected = [pal[i] for i in seq]
            stream = framing.build_stream(expected, k)
            for r, step in ((None, 4096), (5, 3), (7, 1)):
                t.evals += 1
                t.traces += 1
                _socket.socket = GreenSocket
                try:
                    g = real.ccsds_generator(GreenSocket(stream, step), buffer_read_size_bytes=r, skip_header_bytes=k)
                    got = []
                    for _ in expected:
                        got.append(bytes(next(g)))
                    bad = None if got == expected else {"got": [x.hex() for x in got]}
                except Exception as e:  # noqa: BLE001
                    bad = {"end": f"raised {type(e).__name__}: {str(e)[:80]}"}
                finally:
                    _socket.socket = orig
                if bad:
                    t.violation({"kind": "framing-mismatch", "source": "socket-of-a-class-installed-after-import"},
                                {"seq": list(seq), "k": k, "r": r, "source": "late-patched-socket", "step": step}, expected=[p.hex() for p in expected], observed=bad)


def plan(tier, work):
    pal = framing.palette_packets()
    max_len = 3 if tier == "quick" else 4
    ks = [0, 1, 4] if tier == "quick" else [0, 1, 2, 3, 4, 5, 6, 7]
    tasks = []
    for seq in framing.all_sequences(pal, max_len):
        for k in ks:
            if tier == "thorough" and len(seq) == 4 and k not in (0, 1, 4):
                continue
            thresholds = [None, 0, 5, 17] if len(seq) <= 3 else [None, 5]
            if tier == "quick" and len(seq) == 3:
                thresholds = [None, 5] if k == 0 else [None]
            tasks.append({"seq": seq, "k": k, "tier": tier, "thresholds": thresholds, "work": work,
                          "stateless_max": 15 if tier == "quick" else 19})
    return tasks


def run(ctx):
    tasks = plan(ctx.tier, ctx.work)
    # heavy first for load balance
    tasks.sort(key=lambda t: -(len(t["seq"]) * 10 + t["k"]))
    tally = fan_out(_task, tasks, jobs=ctx.jobs, seed=ctx.seed)
    big = [{"kind": "maxsize", "k": 0, "tier": ctx.tier}, {"kind": "maxsize", "k": 4, "tier": ctx.tier},
           {"kind": "trim21mb", "k": 0, "tier": ctx.tier}]
    big.append({"kind": "many", "k": 0, "tier": ctx.tier, "n": 100_050})
    if not ctx.quick:
        big.append({"kind": "trim21mb", "k": 4, "tier": ctx.tier})
        big.append({"kind": "many", "k": 3, "tier": ctx.tier, "n": 262_200})
    tally.merge(fan_out(_big_task, big, jobs=min(4, ctx.jobs or 4), mem_gib=None))
    import itertools
    long_seqs = [tuple(sq) for sq in itertools.product(range(3), repeat=4)]
    for n in range(5, 13):
        long_seqs += [(j,) * n for j in range(3)] + [tuple((j + i) % 3 for i in range(n)) for j in range(3)] + [tuple((0, 2)[i % 2] for i in range(n))]
    from mc.kernel import chunked
    tally.merge(fan_out(_long_sized_task, [{"seqs": ch, "ks": [0, 1, 2, 3, 4, 7], "work": ctx.work} for ch in chunked(long_seqs, 32)], jobs=ctx.jobs, seed=ctx.seed))
    max_len = 3 if ctx.quick else 4
    _late_patched_socket_class(tally)
    coverage = {
        "states": tally.states,
        "transitions": tally.transitions,
        "traces_validated_against_impl": tally.traces,
        "programs": tally.programs,
        "exhaustive": True,
        "bound": (f"all sequences of <= {max_len} packets over a 3-packet palette (data lengths 1, 2, 5), prefix lengths "
                  f"{'0,1,4' if ctx.quick else '0..7'}; bytes; BytesIO and real file with every read size None,1..L+1; a gzip file object, a BufferedReader over a raw stream "
                  "delivering <= 3 bytes per raw read and one over a device-like raw stream whose seek() always answers 0, read sizes None,1,7,L+1; BytesIO and real file that the caller closes / rewinds after taking exactly the packets they hold, then one more request (read sizes None,1,7,L+1, every trim literal); one BytesIO framed, then appended to / emptied and refilled with a longer stream, then framed again (every split of the sequence); "
                  "scripted socket with read sizes {None,1,2,3,5,6,7,8,L} x EVERY fragmentation (state-hashed DFS; also: no recv() while a complete record is delivered and unyielded); "
                  "both entry points; trim literal rewritten to {0,5,17} and reached for real with a 21 MB stream; "
                  "max-size packet; 100 050 small packets in one run (bytes, BytesIO, socket); stateless cross-check of the state merging on short streams; sized sources (bytes, BytesIO with 5 read sizes) additionally on "
                  "every 4-packet sequence and on homogeneous/alternating sequences of 5..12 packets with prefix lengths 0,1,2,3,4,7, also with the trim literal rewritten to {0,5,17,40} so that the buffer is trimmed many times in one stream; "
                  "io.BytesIO vs real file handed over at positions {1, 6, k+7, L} (4-packet sequences, differential); gzip / bz2 / lzma files on disk for the "
                  "sequences of >= 8 packets (compressed size smaller than the stream)"),
        "rule": ("a case is one (packet sequence, prefix length) pair explored under every source configuration; "
                 "non-trivial = sequences with >= 2 packets (a packet boundary exists inside the stream) plus the big-stream runs"),
    }
    return {"level": LEVEL, "tally": tally, "coverage": coverage,
            "assumptions": ["CPython generator state = frame locals + instruction pointer (cross-checked statelessly)",
                            "real sockets are represented by a socket.socket subclass with scripted recv()",
                            "clock owned (module time reference stubbed)"]}


def replay(case):
    import space_packet_parser.packets as real
    pal = framing.palette_packets()
    with owned_clock():
        if "big" in case:
            t = _big_task({"kind": case["big"], "k": case["k"], "tier": "thorough", "n": case.get("n", 100_050)})
            return t.violations[0] if t.violations else None
        expected = [pal[i] for i in case["seq"]]
        k = case["k"]
        stream = framing.build_stream(expected, k)
        pkmod = _pkmod(case.get("threshold"))
        if pkmod is None:
            return None
        entry = case["entry"]
        src_kind = case["source"]
        if src_kind in ("gzip-file", "bz2-file", "lzma-file"):
            import bz2, gzip, lzma, tempfile
            opener = {"gzip-file": gzip.open, "bz2-file": bz2.open, "lzma-file": lzma.open}[src_kind]
            with tempfile.TemporaryDirectory() as d:
                cpath = os.path.join(d, "stream.z")
                with opener(cpath, "wb") as f:
                    f.write(stream)
                with opener(cpath, "rb") as src:
                    bad = _sized_run(entry, pkmod, src, case.get("r"), k, expected)
            if bad:
                return {"sig": {"kind": "framing-mismatch", "source": src_kind, "long": True}, "case": case, "observed": bad}
            return None
        if src_kind == "positioned":
            import io, tempfile
            a = io.BytesIO(stream)
            a.seek(case["pos"])
            oa = pull(_make_gen("ccsds", pkmod, a, case.get("r"), k), horizon=len(expected) + 3)
            with tempfile.TemporaryFile() as f:
                f.write(stream)
                f.flush()
                f.seek(case["pos"])
                ob = pull(_make_gen("ccsds", pkmod, f, case.get("r"), k), horizon=len(expected) + 3)
            oa, ob = ([bytes(i).hex() for i in oa[0]], oa[1]), ([bytes(i).hex() for i in ob[0]], ob[1])
            if oa != ob:
                return {"sig": {"kind": "source-kinds-disagree", "history": "file-like source handed over at a non-zero position"},
                        "case": case, "observed": {"bytesio": oa, "file": ob}}
            return None
        if src_kind == "bytesio-reused-after-growing":
            bad = _sized_run_regrown(entry, pkmod, case.get("r"), k, expected, case["grow_by"], case["mode"])
            return {"sig": {"kind": "framing-mismatch", "source": src_kind, "mode": case["mode"]}, "case": case, "observed": bad} if bad else None
        if case.get("touch"):
            bad = _sized_run_touched(entry, pkmod, CountingBytesIO(stream), case.get("r"), k, expected, case["touch"])
            if bad:
                return {"sig": {"kind": "touches-source-after-last-packet", "source": src_kind, "touch": case["touch"]}, "case": case, "observed": bad}
            return None
        if src_kind in ("bytes", "bytesio", "file", "gzip", "buffered-over-short-raw", "device-reporting-length-0"):
            src = stream if src_kind == "bytes" else _file_family(src_kind, stream) if src_kind in ("gzip", "buffered-over-short-raw", "device-reporting-length-0") else CountingBytesIO(stream)
            bad = _sized_run(entry, pkmod, src, case.get("r"), k, expected)
            if bad:
                return {"sig": {"kind": "framing-mismatch", "source": src_kind}, "case": case, "observed": bad}
            return None
        sched = list(case["schedule"])

        def decide(n, remaining, key, sock):
            if remaining == 0:
                return 0
            full = min(n, remaining)
            return min(sched.pop(0), full) if sched else full
        yielded = [0]
        starved = []

        def decide_w(n, remaining, key, s_):
            if len(framing.ref_frame(stream[:s_.delivered], k)[0]) > yielded[0]:
                starved.append((s_.delivered, yielded[0]))
            return decide(n, remaining, key, s_)
        sock = ScriptedSocket(stream, decide_w, inspect=False)
        obs = _socket_drive(entry, pkmod, case.get("r"), k, len(expected))(sock, lambda b: yielded.__setitem__(0, yielded[0] + 1))
        if case.get("held_back"):
            if starved:
                return {"sig": {"kind": "packet-held-back", "source": "socket"}, "case": case,
                        "observed": f"recv() with {starved[0][0]} bytes delivered and only {starved[0][1]} packet(s) yielded"}
            return None
        if obs != (tuple(expected), "ok"):
            return {"sig": {"kind": "framing-mismatch", "source": "socket"}, "case": case,
                    "observed": {"packets": [p.hex() for p in obs[0]], "end": obs[1]}}
        return None


def repro_py(case):
    return f"""# stand-alone reproduction (public API only)
import io, socket
from space_packet_parser.packets import ccsds_generator
case = {case!r}
# build the stream exactly as mc.framing does
from mc import framing
pal = framing.palette_packets()
pkts = [pal[i] for i in case.get('seq', [])]
stream = framing.build_stream(pkts, case['k'])
class S(socket.socket):
    def __init__(self, data, sched): self.d, self.o, self.s = data, 0, list(sched)
    def recv(self, n, flags=0):
        c = min(self.s.pop(0) if self.s else n, n, len(self.d) - self.o)
        out = self.d[self.o:self.o + c]; self.o += c; return out
src = {{'bytes': stream, 'bytesio': io.BytesIO(stream), 'file': io.BytesIO(stream)}}.get(case['source']) or S(stream, case.get('schedule', []))
g = ccsds_generator(src, buffer_read_size_bytes=case.get('r'), skip_header_bytes=case['k'])
got = [bytes(next(g)) for _ in pkts]
assert got == pkts, (got, pkts)
"""
