"""C05 — Container inheritance selects the unique matching structure, in order.

E-prod.  All container trees up to a size bound (parent vectors) x every assignment of a criterion
from a 7-element alphabet to each child edge x abstract flag per node x nesting variant x document
order x header naming; packets = the full product APID 0..3 x SEL 0..3, which steers into every
branch, dead end and ambiguity the tree admits.  Both parse_ccsds_packet and the generator.
"""
from __future__ import annotations

import itertools

from mc import docs
from mc.kernel import Tally, case_alarm, chunked, fan_out, observed_warnings
from mc.observe import compare_items, compare_outcome, exc_names, items_of, parse_one
from mc.ref.interp import decode_packet
from mc.spec import (And, BoolExpr, Cmp, Cond, Container, CtxCal, Doc, Fixed, IntEnc, StrEnc, Or, Param, Poly, PType, HEADER_NAMES, header_entries, header_params,
                     header_ptypes, load_doc, build_objects)

PROP = "C05"
LEVEL = "exploration"

OTHER_NAMES = ("CCSDS_VER", "CCSDS_TYPE", "CCSDS_SHF", "APP_ID", "GRP_FLAGS", "SSC", "LENGTH")
N_CRIT = 12


def criterion(k, apid):
    return [
        (Cmp(apid, "==", "1"),),
        (Cmp(apid, "==", "02"),),                      # a leading zero: still the number 2
        (Cmp(apid, "!=", " +1 "),),                    # sign and blanks: still 1; overlaps with ==2 => ambiguity
        (Cmp("SEL", "<", "2"),),                        # on a user-data field of the root
        (Cmp(apid, "==", "1"), Cmp("SEL", "==", "00")),  # comparison list
        (BoolExpr(Or((Cond("SEL", "==", right_value="1", right_cal=False), Cond(apid, "==", right_value="2", right_cal=False)))),),
        None,                                           # BaseContainer without RestrictionCriteria
        # two-parameter condition whose selectors differ; CSEL is calibrated (2x), so raw and calibrated disagree
        (BoolExpr(Cond("SEL", "==", right_param="CSEL", left_cal=False, right_cal=True)),),
        # nested groups: (APID != 3) AND (SEL == 1 OR SEL == 0 OR (APID == 2 AND SEL == 3)) AND (SEL != 0 OR APID == 1); true for most packets, so that it also sits above
        # ambiguous and dead-end children (the error paths print the container and its criteria)
        (BoolExpr(And((Cond(apid, "!=", right_value="3", right_cal=False),),
                      (Or((Cond("SEL", "==", right_value="1", right_cal=False), Cond("SEL", "==", right_value="0", right_cal=False)),
                          (And((Cond(apid, "==", right_value="2", right_cal=False), Cond("SEL", "==", right_value="3", right_cal=False))),)),
                       # ... AND a second OR group next to the first: (SEL != 0 OR APID == 1)
                       Or((Cond("SEL", "!=", right_value="0", right_cal=False), Cond(apid, "==", right_value="1", right_cal=False)))))),),
        # a text discriminator whose trailing blank is significant: TAG is 'HK', 'H ', ' K' or '  ' (by APID)
        (BoolExpr(Cond("TAG", "==", right_value="H ", right_cal=False)),),
        # a discriminator whose Python type varies from packet to packet: XSEL (raw 2) is a float 2.0 in APID-0 packets, which come first (a context calibrator
        # applies) and a plain int 2 otherwise; it never equals 3
        (Cmp("XSEL", "==", "3"),),
        # a boolean discriminator (one bit) against the text "0": the flag is clear
        (Cmp("BF", "==", "0"),),
    ][k]


def parent_vectors(n):
    if n == 1:
        return [()]
    return list(itertools.product(*[range(i) for i in range(1, n)]))


def make_doc(n, parents, crits, abstract_bits, nest, children_first, other_names, root_name="CCSDSPacket"):
    names = OTHER_NAMES if other_names else HEADER_NAMES
    apid = names[3]
    pts = list(header_ptypes()) + [PType("SEL_T", "Integer", IntEnc(2)), PType("P6_T", "Integer", IntEnc(6)), PType("M_T", "Integer", IntEnc(8)),
                                   PType("CSEL_T", "Integer", IntEnc(2, default_cal=Poly(((2.0, 1),)))), PType("P4_T", "Integer", IntEnc(1)), PType("BF_T", "Boolean", IntEnc(1)),
                                   PType("XSEL_T", "Integer", IntEnc(2, ctx_cals=(CtxCal((Cmp(apid, "==", "0"),), Poly(((1.0, 1),))),))),
                                   PType("TAG_T", "String", StrEnc(Fixed(16), "US-ASCII"))]
    prs = list(header_params(names)) + [Param("SEL", "SEL_T"), Param("CSEL", "CSEL_T"), Param("XSEL", "XSEL_T"), Param("BF", "BF_T"), Param("P6", "P4_T"), Param("TAG", "TAG_T")] + [Param(f"M{i}", "M_T") for i in range(1, n)] + [Param("NM", "M_T"), Param("TAILM", "M_T"), Param("LM", "M_T"), Param("RM", "M_T")]
    cnames = [root_name] + [f"C{i}" for i in range(1, n)]
    if other_names and n >= 2:
        # the last container (a leaf: nothing is based on it) carries a name that is falsy or looks like a constant when taken for one
        cnames[n - 1] = ("", "0", "None", " ", "False")[(3 * n + nest + sum(parents) + (1 if children_first else 0)) % 5]
    conts = []
    for i in range(n):
        if i == 0:
            entries = list(header_entries(names)) + [("p", "SEL"), ("p", "CSEL"), ("p", "XSEL"), ("p", "BF"), ("p", "P6"), ("p", "TAG")]
        else:
            entries = [("p", f"M{i}")]
        if nest == 1:
            # one shared nested container referenced from two nodes: start of node 1, end of the last node
            if n >= 2 and i == 1:
                entries = [("c", "NEST")] + entries
            if n >= 3 and i == n - 1 and i != 1:
                entries = entries + [("c", "NEST")]
        elif nest == 3:
            # the same nested container referenced twice within ONE entry list (its parameters are decoded twice: their values are
            # not judged, but every other parameter and the cursor are)
            if n >= 2 and i == 1:
                entries = [("c", "NEST")] + entries + [("c", "NEST"), ("p", "TAILM")]
        elif nest == 4:
            # diamond: node 1 nests LEFT and RIGHT, which both nest NEST
            if n >= 2 and i == 1:
                entries = [("c", "LEFT")] + entries + [("c", "RIGHT"), ("p", "TAILM")]
        elif nest == 2:
            # nested container inside the root, between header and SEL
            if i == 0:
                entries = list(header_entries(names)) + [("c", "NEST"), ("p", "SEL"), ("p", "CSEL"), ("p", "XSEL"), ("p", "BF"), ("p", "P6"), ("p", "TAG")]
        base = None if i == 0 else cnames[parents[i - 1]]
        crit = None if i == 0 else criterion(crits[i - 1], apid)
        conts.append(Container(cnames[i], tuple(entries), base=base, criteria=crit, abstract=bool(abstract_bits >> i & 1),
                               short=f"node {i}" if i == 1 else None, force_list=(i == 2 and crit is not None and len(crit) == 1
                                                                                  and isinstance(crit[0], Cmp))))
    if nest and nest != 5:
        conts.append(Container("NEST", (("p", "NM"),)))
    if nest == 4:
        conts.append(Container("LEFT", (("c", "NEST"), ("p", "LM"))))
        conts.append(Container("RIGHT", (("c", "NEST"), ("p", "RM"))))
    if children_first:
        conts = list(reversed(conts))
    if nest == 5:
        # a stand-alone container, listed FIRST, that embeds the root container (which is also the base of the packet containers)
        conts.insert(0, Container("DUMP", (("c", root_name), ("p", "TAILM"))))
    return Doc(tuple(pts), tuple(prs), tuple(conts), root=root_name)


def packets():
    out = []
    for apid in range(4):
        for sel in range(4):
            payload = format(sel, "02b") + format((sel + apid) % 4, "02b") + "10" + str((sel ^ apid) & 1) + "0" + "".join(format(ord(ch), "08b") for ch in ("HK", "H ", " K", "  ")[apid]) + "".join(format(0x10 * (k + 1) + sel, "08b") for k in range(9))
            out.append(docs.packet_for(apid, payload, seqcount=apid * 4 + sel))
    return out


PKTS = None


def gen_observe(defn, pkt, yield_errors):
    from space_packet_parser.exceptions import UnrecognizedPacketTypeError
    with observed_warnings():
        try:
            out = list(defn.packet_generator(pkt, yield_unrecognized_packet_errors=yield_errors))
        except Exception as e:  # noqa: BLE001
            return ("raised", exc_names(e), str(e)[:160])
    if not out:
        return ("nothing",)
    if len(out) > 1:
        return ("many", len(out))
    p = out[0]
    if isinstance(p, UnrecognizedPacketTypeError):
        pd = getattr(p, "partial_data", None)
        return ("error-object", items_of(pd) if pd is not None else None)
    if isinstance(p, Exception):
        return ("other-exception-object", type(p).__name__)
    hdr = list(p.header.keys())
    ud = list(p.user_data.keys())
    return ("packet", items_of(p), hdr, ud)


def check_doc(t: Tally, spec, doc, defn, via):
    global PKTS
    if PKTS is None:
        PKTS = packets()
    classes = set()
    # one definition object decodes all 16 packets: ascending for half of the documents, descending for the other half (a value that is a
    # float in the APID-0 packets and an int elsewhere is met float-first in one order and int-first in the other)
    for pkt in (PKTS if (sum(spec["crits"]) + spec["abstract_bits"]) % 2 == 0 else PKTS[::-1]):
        want = decode_packet(doc, pkt)
        obs = parse_one(defn, pkt, root=doc.root if doc.root != "CCSDSPacket" else None)
        t.evals += 1
        klass = want.kind if want.kind != "unrecognized" else ("ambiguous" if "more than one" in want.why else "abstract-dead-end")
        if want.kind == "parsed":
            klass = f"parsed@depth{len(want.path)}"
        classes.add(klass)
        t.outcomes[klass] += 1
        why = compare_outcome(want, obs)
        where = "parse_ccsds_packet"
        if why is None and want.kind != "unspecified" and want.kind != "raised":
            g = gen_observe(defn, pkt, True)
            t.evals += 1
            where = "packet_generator(yield_unrecognized_packet_errors=True)"
            if want.kind == "parsed":
                if g[0] != "packet":
                    why = f"generator yielded {g[0]} {g[1:] if g[0] == 'raised' else ''} for a defined packet"
                else:
                    why = compare_items(want.items, g[1])
                    names = [x.name for x in want.items]
                    if why is None and (g[2] != names[:7] or g[3] != names[7:]):
                        why = f"header/user_data views {g[2]} / {g[3]} != first seven / rest of {names}"
            else:
                if g[0] != "error-object":
                    why = f"generator yielded {g[0]} {g[1:] if g[0] == 'raised' else ''} for an unrecognized packet"
                else:
                    why = compare_items(want.items, g[1])
            if why is None:
                g2 = gen_observe(defn, pkt, False)
                t.evals += 1
                where = "packet_generator()"
                if want.kind == "parsed" and g2[0] != "packet":
                    why = f"generator yielded {g2[0]} for a defined packet"
                elif want.kind == "unrecognized" and g2[0] != "nothing":
                    why = f"generator yielded {g2[0]} for an unrecognized packet that must be skipped"
        if why:
            obs_k = obs[0] if obs[0] != "raised" else "raised:" + obs[1][0]
            t.violation({"kind": "inheritance", "class": klass.split("@")[0], "observed": obs_k, "where": where.split("(")[0],
                         "other_names": spec["other_names"]},
                        {"spec": spec, "packet": pkt.hex(), "via": via}, expected=(want.kind, want.why, [i.name for i in want.items]),
                        observed=obs[:3] if obs[0] == "raised" else (obs[0], [x[0] for x in obs[1]] if obs[1] else None), note=why)
    return classes


def _task(task):
    t = Tally()
    for spec in task["specs"]:
        doc = make_doc(**spec)
        try:
            with case_alarm(60):
                defn = load_doc(doc) if task["via"] == "xml" else build_objects(doc)
                # "nested container references expanded in place": what a container nests IS the container the definition holds under that
                # name (an edit made through the definition reaches every place the container is used)
                for cname_, cont_ in defn.containers.items():
                    for e_ in cont_.entry_list:
                        if hasattr(e_, "entry_list") and defn.containers.get(e_.name) is not e_:
                            t.violation({"kind": "nested-container-is-a-private-copy"}, {"spec": spec, "via": task["via"], "container": cname_, "nested": e_.name},
                                        note="the container nested here is not the object registered under its name")
        except BaseException as e:  # noqa: BLE001
            t.violation({"kind": "load-failed", "exc": type(e).__name__, "via": task["via"]}, {"spec": spec, "via": task["via"]},
                        observed=str(e)[:300])
            continue
        try:
            with case_alarm(60):
                classes = check_doc(t, spec, doc, defn, task["via"])
        except BaseException as e:  # noqa: BLE001
            t.violation({"kind": "check-aborted", "exc": type(e).__name__}, {"spec": spec}, observed=str(e)[:300])
            continue
        t.programs += 1
        if len(classes) >= 2:
            t.nontrivial += 1
        # a definition is what its public attributes say: after the containers of this (used) definition take over the abstract flags and the
        # restriction criteria of ANOTHER document with the same containers, it selects structures as that other document prescribes
        if task["via"] == "xml" and spec["n"] >= 2 and (spec["abstract_bits"] + sum(spec["crits"]) + spec["nest"]) % 5 == 0 and "root_name" not in spec:
            spec2 = dict(spec, abstract_bits=spec["abstract_bits"] ^ (1 << (spec["n"] - 1)) ^ 1,
                         crits=tuple((c + 3) % N_CRIT for c in spec["crits"]))
            try:
                with case_alarm(60):
                    doc2 = make_doc(**spec2)
                    donor = load_doc(doc2)
                    for name, cont in defn.containers.items():
                        cont.abstract = donor.containers[name].abstract
                        cont.restriction_criteria = donor.containers[name].restriction_criteria
                    check_doc(t, {**spec2, "edited_from": {"abstract_bits": spec["abstract_bits"], "crits": list(spec["crits"])}}, doc2, defn, "xml+edited")
            except BaseException as e:  # noqa: BLE001
                t.violation({"kind": "check-aborted", "exc": type(e).__name__, "part": "edited"}, {"spec": spec2}, observed=str(e)[:300])
        # ... and after its SET of containers is changed through the public attributes: a further child registered under the root (its object
        # put into `containers`, its name appended to the root's inheritors), or the last child taken out again
        if task["via"] == "xml" and spec["n"] in (2, 3) and not spec["other_names"] and spec["nest"] == 0 and "root_name" not in spec \
                and (spec["abstract_bits"] + sum(spec["crits"])) % 7 == 0:
            n = spec["n"]
            grow = dict(spec, n=n + 1, parents=tuple(spec["parents"]) + (0,), crits=tuple(spec["crits"]) + ((sum(spec["crits"]) + 1) % N_CRIT,))
            try:
                with case_alarm(60):
                    used = load_doc(make_doc(**spec))
                    for pkt in packets()[:6]:
                        parse_one(used, pkt)                      # the definition has decoded packets of every APID by now
                    doc_g = make_doc(**grow)
                    donor = load_doc(doc_g)
                    new_name = f"C{n}"
                    used.containers[new_name] = donor.containers[new_name]
                    used.containers[doc_g.root].inheritors.append(new_name)
                    check_doc(t, {**grow, "edited_from": {"n": n, "change": "child added"}}, doc_g, used, "xml+child-added")
                    # and out again
                    del used.containers[new_name]
                    used.containers[doc_g.root].inheritors.remove(new_name)
                    check_doc(t, {**spec, "edited_from": {"n": n + 1, "change": "child removed"}}, make_doc(**spec), used, "xml+child-removed")
            except BaseException as e:  # noqa: BLE001
                t.violation({"kind": "check-aborted", "exc": type(e).__name__, "part": "children-edited"}, {"spec": grow}, observed=str(e)[:300])
    if task["specs"]:
        t.sample(task["specs"][len(task["specs"]) // 2])
    return t


def all_specs(tier):
    specs = []
    max_n = 3 if tier == "quick" else 4
    for n in range(1, max_n + 1):
        for parents in parent_vectors(n):
            for crits in itertools.product(range(N_CRIT), repeat=n - 1):
                for ab in range(1 << n):
                    for nest in (0, 1, 2, 3, 4, 5):
                        if nest in (1, 3, 4, 5) and n < 2:
                            continue
                        if nest == 5 and (n == 4 or ab not in (0, 1, 3)):
                            continue
                        if nest in (3, 4) and (n == 4 or ab not in (0, 1, (1 << n) - 1)):
                            continue  # the double-reference variants on a reduced set of abstract-flag assignments
                        for cf in (False, True):
                            for other in (False, True):
                                if n == 4 and (other or (cf and nest)):
                                    continue  # bound for the largest trees
                                specs.append({"n": n, "parents": parents, "crits": crits, "abstract_bits": ab, "nest": nest,
                                              "children_first": cf, "other_names": other})
    if tier == "quick":
        # the four-container shapes that put two siblings under a mid-level container (ambiguity and dead ends below a container that was itself
        # selected by criteria): every criterion for every edge (every other triple); the full four-container space is in the thorough tier
        for parents in ((0, 1, 1), (0, 0, 1)):
            for crits in itertools.product(range(N_CRIT), repeat=3):
                if (sum(crits) + crits[0]) % 2:
                    continue   # quick tier: every other criteria triple for the four-container shapes
                for ab in (0, 2, 3):
                    specs.append({"n": 4, "parents": parents, "crits": crits, "abstract_bits": ab, "nest": 0, "children_first": bool(sum(crits) % 2),
                                  "other_names": False})
    # a differently named root passed as root_container_name
    for ab in range(4):
        specs.append({"n": 2, "parents": (0,), "crits": (0,), "abstract_bits": ab, "nest": 0, "children_first": False,
                      "other_names": False, "root_name": "MyRoot"})
    return specs


def run(ctx):
    specs = all_specs(ctx.tier)
    tasks = [{"specs": ch, "via": "xml"} for ch in chunked(specs, 64 if ctx.quick else 256)]
    obj_specs = specs[::11]
    tasks += [{"specs": ch, "via": "objects"} for ch in chunked(obj_specs, 16)]
    tally = fan_out(_task, tasks, jobs=ctx.jobs, seed=ctx.seed)
    coverage = {
        "programs": tally.programs,
        "exhaustive": True,
        "bound": (f"all parent vectors with <= {3 if ctx.quick else 4} containers x 12 criteria per child edge (a boolean flag against the text '0', APID==1, APID==2, APID!=1, SEL<2, two-comparison list, "
                  "boolean expression, no RestrictionCriteria, two-parameter condition with mixed raw/calibrated selectors, nested AND/OR groups, a text discriminator with a significant trailing blank, a discriminator that is a float in some packets and an int in others) x abstract flag per node x nesting {none, shared nested container referenced from two nodes, nested "
                  "inside the root, double reference, diamond, a stand-alone container listed first that embeds the root} x document order {parents first, children first} x header naming {conventional, other}; packets APID 0..3 x SEL 0..3; "
                  "parse_ccsds_packet and the generator with and without error reporting; every 11th document also built from objects; "
                  "about every fifth loaded definition is then edited in place (abstract flags and restriction criteria taken from another document) and checked against that document"),
        "rule": "one evaluation = one packet through one API; distinct non-trivial = documents whose 16 packets reached >= 2 outcome classes",
    }
    return {"level": LEVEL, "tally": tally, "coverage": coverage,
            "assumptions": ["the same parameter decoded twice on one path is unspecified (not judged)"]}


def replay(case):
    spec = dict(case["spec"])
    spec["parents"] = tuple(spec["parents"])
    spec["crits"] = tuple(spec["crits"])
    if "edited_from" in spec:
        # the violation was observed on a definition edited in place: rebuild the original specification and let the task edit it again
        ef = spec.pop("edited_from")
        spec = dict(spec, abstract_bits=ef["abstract_bits"], crits=tuple(ef["crits"]))
        t = _task({"specs": [spec], "via": "xml"})
        return next((v for v in t.violations if v["case"].get("packet") == case.get("packet") and v["case"].get("via") == "xml+edited"), None)
    t = _task({"specs": [spec], "via": case.get("via", "xml")})
    for v in t.violations:
        if v["case"].get("packet") == case.get("packet"):
            return v
    return None


def repro_py(case):
    from mc.spec import doc_xml as render_xml
    spec = dict(case["spec"])
    spec["parents"] = tuple(spec["parents"])
    spec["crits"] = tuple(spec["crits"])
    spec.pop("edited_from", None)
    doc = make_doc(**spec)
    return ("import io\nfrom space_packet_parser.xtce.definitions import XtcePacketDefinition\n"
            f"xml = {render_xml(doc)!r}\nd = XtcePacketDefinition.from_xtce(io.BytesIO(xml), root_container_name={doc.root!r})\n"
            f"print(list(d.packet_generator(bytes.fromhex({case.get('packet', '')!r}), yield_unrecognized_packet_errors=True)))\n")
