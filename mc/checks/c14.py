"""C14 — Bit consumption is accounted for; over-reads are never delivered as clean data.

E-prod through packet_generator.  Fixed and length-dependent layouts x every data length from 1 to
required+3 bytes x every LEN 0..5 x fills x parse_bad_pkts.  Oracle: reference bit accounting
(sum of widths, or ill-formed).  A packet is clean (yielded, no warning of any category, cursor ==
8*len == sum of widths) iff it is well formed and consumes exactly its bits; otherwise it must be
flagged (parse_bad_pkts=True), withheld (False) or fail with an exception.
"""
from __future__ import annotations

from mc import docs, framing
from mc.kernel import Tally, case_alarm, fan_out, observed_warnings
from mc.observe import compare_items, exc_names, items_of
from mc.ref.interp import decode_packet
from mc.spec import (BinEnc, Cmp, Dyn, Fixed, FloatEnc, IntEnc, Lookup, Param, Poly, PType, StrEnc, build_objects, load_doc)

PROP = "C14"
LEVEL = "exploration"


def U(n):
    return PType(f"U{n}_T", "Integer", IntEnc(n))


def layouts(tier="quick"):
    """-> list of (name, ptypes, params, entries, prefix(LEN)->bits, uses_len)."""
    out = []
    deep = tier == "thorough"

    def add(name, fields, prefix=None, uses_len=False):
        pts, prs, ents = [], [], []
        for fname, pt in fields:
            pts.append(pt)
            if fname not in ("LEN", "LENC"):
                fname = f"L{len(out)}_{fname}"  # parameter names are global in a document
            prs.append(Param(fname, pt.name))
            ents.append(("p", fname))
        out.append((name, pts, prs, ents, prefix or (lambda ln: ""), uses_len))

    add("u8,u16", [("A", U(8)), ("B", U(16))])
    add("u3,u13", [("A", U(3)), ("B", U(13))])
    add("f32", [("F", PType("F32_T", "Float", FloatEnc(32)))])
    add("str16", [("S", PType("S16_T", "String", StrEnc(Fixed(16), "US-ASCII")))])
    add("bin12,u4", [("B", PType("B12_T", "Binary", BinEnc(Fixed(12)))), ("N", U(4))])
    # strings whose buffer is not a whole number of bytes, starting on a byte boundary: last field (unread bits follow) and followed by fields
    add("str12", [("S", PType("S12_T", "String", StrEnc(Fixed(12), "US-ASCII")))])
    add("str12,u4", [("S", PType("S12_T", "String", StrEnc(Fixed(12), "US-ASCII"))), ("N", U(4))])
    add("str29,u3,u8", [("S", PType("S29_T", "String", StrEnc(Fixed(29), "ISO-8859-1"))), ("N", U(3)), ("M", U(8))])
    add("u8,str20term", [("A", U(8)), ("S", PType("S20_T", "String", StrEnc(Fixed(20), "UTF-8", None, "00")))])
    add("s64", [("Q", PType("S64_T", "Integer", IntEnc(64, "signed")))])
    add("u16le,u8", [("A", PType("U16LE_T", "Integer", IntEnc(16, "unsigned", True))), ("B", U(8))])
    # a little-endian integer whose width is not a whole number of bytes, starting on a byte boundary: it takes its 12 bits, no more
    add("u12le,u4", [("A", PType("U12LE_T", "Integer", IntEnc(12, "unsigned", True))), ("B", U(4))])
    add("u8,s20le,u4", [("P", U(8)), ("A", PType("S20LE_T", "Integer", IntEnc(20, "twosComplement", True))), ("B", U(4))])
    for b in (0, 8, -8):
        add(f"LEN,BLOB(8LEN{b:+d})", [("LEN", U(8)), ("BLOB", PType(f"BL{b}_T", "Binary", BinEnc(Dyn("LEN", False, 8, b))))],
            prefix=lambda ln: format(ln, "08b"), uses_len=True)
    for c in (8, 16, 64):
        add(f"REST(8PKT_LEN-{c}),TAIL16", [("REST", PType(f"RS{c}_T", "Binary", BinEnc(Dyn("PKT_LEN", True, 8, -c)))), ("TAIL", U(16))])
    add("LEN,STR(8LEN)", [("LEN", U(8)), ("STR", PType("SD_T", "String", StrEnc(Dyn("LEN", True, 8, 0), "ISO-8859-1")))],
        prefix=lambda ln: format(ln, "08b"), uses_len=True)
    add("u3,LEN,BLOB(8LEN),u5", [("P3", U(3)), ("LEN", U(8)), ("BLOB", PType("BL0_T", "Binary", BinEnc(Dyn("LEN", False, 8, 0)))), ("P5", U(5))],
        prefix=lambda ln: "101" + format(ln, "08b"), uses_len=True)
    add("u4,REST(8PKT_LEN-8),u4,TAIL8", [("P4", U(4)), ("REST", PType("RS8_T", "Binary", BinEnc(Dyn("PKT_LEN", True, 8, -8)))),
                                          ("Q4", U(4)), ("TAIL", U(8))])
    add("LEN,BLOB(8LEN),f32", [("LEN", U(8)), ("BLOB", PType("BL0_T", "Binary", BinEnc(Dyn("LEN", False, 8, 0)))),
                                ("F", PType("F32_T", "Float", FloatEnc(32)))], prefix=lambda ln: format(ln, "08b"), uses_len=True)
    add("LENC(cal 8x),BLOB(LENC)", [("LENC", PType("LENC_T", "Integer", IntEnc(8, default_cal=Poly(((8.0, 1),))))),
                                    ("BLOB", PType("BLC_T", "Binary", BinEnc(Dyn("LENC", True))))],
        prefix=lambda ln: format(ln, "08b"), uses_len=True)
    # the length field is calibrated (3x + 1) but the string asks for its RAW value: 8 x raw bits
    add("LENR(cal 3x+1),STR(8 x raw LENR),u8", [("LENR", PType("LENC3_T", "Integer", IntEnc(8, default_cal=Poly(((1.0, 0), (3.0, 1)))))),
                                                ("STR", PType("SDR_T", "String", StrEnc(Dyn(f"L{len(out)}_LENR", False, 8, 0), "ISO-8859-1"))), ("Z", U(8))],
        prefix=lambda ln: format(ln, "08b"), uses_len=True)
    add("LENR(cal 3x+1),BLOB(8 x raw LENR + 8),u8", [("LENR", PType("LENC3_T", "Integer", IntEnc(8, default_cal=Poly(((1.0, 0), (3.0, 1)))))),
                                                     ("BLOB", PType("BDR_T", "Binary", BinEnc(Dyn(f"L{len(out)}_LENR", False, 8, 8)))), ("Z", U(8))],
        prefix=lambda ln: format(ln, "08b"), uses_len=True)
    # bit-granular adjustments: computed lengths of -8, -4 (LEN 0), -7, -3 (LEN 1) ... bits, then positive and not whole bytes
    add("LEN,STR(4LEN-4),u4", [("LEN", U(8)), ("STR", PType("SD4_T", "String", StrEnc(Dyn("LEN", True, 4, -4), "ISO-8859-1"))), ("N", U(4))],
        prefix=lambda ln: format(ln, "08b"), uses_len=True)
    add("LEN,STR(4LEN-7),u7", [("LEN", U(8)), ("STR", PType("SD7_T", "String", StrEnc(Dyn("LEN", True, 4, -7), "ISO-8859-1"))), ("N", U(7))],
        prefix=lambda ln: format(ln, "08b"), uses_len=True)
    add("LEN,BLOB(4LEN-4),u4", [("LEN", U(8)), ("BLOB", PType("BD4_T", "Binary", BinEnc(Dyn("LEN", False, 4, -4)))), ("N", U(4))],
        prefix=lambda ln: format(ln, "08b"), uses_len=True)
    add("LEN,STR(lookup: LEN==1 -> 0 bits, else 16),u8", [("LEN", U(8)), ("STR", PType("SLZ_T", "String", StrEnc(
        Lookup((((Cmp("LEN", "==", "1"),), 0.0), ((Cmp("LEN", ">=", "0"),), 16.0))), "US-ASCII"))), ("Z", U(8))],
        prefix=lambda ln: format(ln, "08b"), uses_len=True)
    add("LEN,BIN(lookup: LEN==1 -> 0 bits, else 12),u4", [("LEN", U(8)), ("BIN", PType("BLZ_T", "Binary", BinEnc(
        Lookup((((Cmp("LEN", "==", "1"),), 0.0), ((Cmp("LEN", ">=", "0"),), 12.0)))))), ("N", U(4))],
        prefix=lambda ln: format(ln, "08b"), uses_len=True)
    add("LEN,BITS(LEN bits),u3", [("LEN", U(8)), ("BITS", PType("BB_T", "Binary", BinEnc(Dyn("LEN", False)))), ("P3", U(3))],
        prefix=lambda ln: format(ln, "08b"), uses_len=True)
    if deep:
        # the same ideas at other alignments and with other field kinds after the computed-length field
        for pad in (1, 4, 7):
            add(f"u{pad},LEN,BLOB(8LEN),u{8 - pad}", [("PA", U(pad)), ("LEN", U(8)), ("BLOB", PType("BL0_T", "Binary", BinEnc(Dyn("LEN", False, 8, 0)))), ("PB", U(8 - pad))],
                prefix=lambda ln, pad=pad: "1" * pad + format(ln, "08b"), uses_len=True)
            add(f"u{pad},LEN,STR(8LEN),u{8 - pad}", [("PA", U(pad)), ("LEN", U(8)), ("STR", PType("SD_T", "String", StrEnc(Dyn("LEN", True, 8, 0), "ISO-8859-1"))), ("PB", U(8 - pad))],
                prefix=lambda ln, pad=pad: "0" * pad + format(ln, "08b"), uses_len=True)
        for c in (24, 32):
            add(f"REST(8PKT_LEN-{c}),TAIL32", [("REST", PType(f"RS{c}_T", "Binary", BinEnc(Dyn("PKT_LEN", True, 8, -c)))), ("TAIL", U(32))])
        add("LEN,STR(8LEN)term,u8", [("LEN", U(8)), ("STR", PType("ST_T", "String", StrEnc(Dyn("LEN", True, 8, 0), "US-ASCII", None, "00"))), ("Z", U(8))],
            prefix=lambda ln: format(ln, "08b"), uses_len=True)
        add("LEN,STR(8LEN+8)lead8,s16", [("LEN", U(8)), ("STR", PType("SL_T", "String", StrEnc(Dyn("LEN", True, 8, 8), "US-ASCII", None, None, 8))),
                                         ("Z", PType("S16S_T", "Integer", IntEnc(16, "signed")))], prefix=lambda ln: format(ln, "08b") + format(8 * ln, "08b"), uses_len=True)
        add("LEN,BLOB(8LEN),f64", [("LEN", U(8)), ("BLOB", PType("BL0_T", "Binary", BinEnc(Dyn("LEN", False, 8, 0)))), ("D", PType("F64_T", "Float", FloatEnc(64)))],
            prefix=lambda ln: format(ln, "08b"), uses_len=True)
        add("LEN,BLOB(8LEN),m1750", [("LEN", U(8)), ("BLOB", PType("BL0_T", "Binary", BinEnc(Dyn("LEN", False, 8, 0)))), ("M", PType("M17_T", "Float", FloatEnc(32, "MILSTD_1750A")))],
            prefix=lambda ln: format(ln, "08b"), uses_len=True)
        add("u12,s20,f16", [("A", U(12)), ("B", PType("I20_T", "Integer", IntEnc(20, "twosComplement"))), ("C", PType("F16_T", "Float", FloatEnc(16)))])
    return out


def build_doc(via, tier="quick"):
    ls = layouts(tier)
    doc = docs.selector_doc([(pts, prs, ents) for _, pts, prs, ents, _, _ in ls], root_abstract=True)
    return doc, (load_doc(doc) if via == "xml" else build_objects(doc))


def _flag(value, pkt):
    """The boolean option as callers have it: a bool, or (by the packet's content) the int / numpy scalar that a configuration file, an argparse
    switch or an array element gives."""
    import numpy as np
    import zlib
    k = zlib.crc32(pkt) % 4
    return (value, int(value), np.bool_(value), np.int64(int(value)))[k]


def observe_stream(defn, pkt, parse_bad):
    with observed_warnings() as w:
        try:
            out = list(defn.packet_generator(pkt, parse_bad_pkts=_flag(parse_bad, pkt)))
        except Exception as e:  # noqa: BLE001
            return ("raised", exc_names(e)[0], str(e)[:120], len(w))
    if not out:
        return ("withheld", None, None, len(w))
    if len(out) != 1:
        return ("many", len(out), None, len(w))
    p = out[0]
    if isinstance(p, Exception):
        return ("error-object", type(p).__name__, None, len(w))
    return ("flagged" if w else "clean", items_of(p), p.raw_data.pos, len(w))


def judge_packet(t: Tally, doc, defn, pkt, case, name):
    """One packet through the generator under both parse_bad_pkts settings, against the reference bit accounting."""
    want = decode_packet(doc, pkt)
    is_clean = want.kind == "parsed" and want.consumed == 8 * len(pkt)
    klass = ("clean" if is_clean else "longer" if want.kind == "parsed" else
             "overrun" if want.overrun else want.kind + ":" + want.why[:24])
    for pb in (True, False):
        obs = observe_stream(defn, pkt, pb)
        t.evals += 1
        t.outcomes[f"{klass} -> {obs[0]}"] += 1
        why = None
        if want.kind == "unspecified":
            continue
        if is_clean:
            if obs[0] != "clean":
                why = f"well-formed exactly-consumed packet was {obs[0]} ({obs[1] if obs[0] == 'raised' else ''} {obs[2] if obs[0] == 'raised' else ''})"
            else:
                why = compare_items(want.items, obs[1])
                if why is None and obs[2] != 8 * len(pkt):
                    why = f"cursor {obs[2]} != {8 * len(pkt)}"
        else:
            allowed = ("flagged", "raised") if pb else ("withheld", "raised")
            if want.kind == "unrecognized":
                allowed = ("withheld", "raised")  # a packet the document does not define is skipped, whatever parse_bad_pkts says
            if obs[0] not in allowed:
                why = f"packet that does not consume exactly its bits ({klass}) was {obs[0]} with parse_bad_pkts={pb}"
            elif obs[0] == "flagged" and want.kind == "parsed":
                why = compare_items(want.items, obs[1])
                if why is None and obs[2] != want.consumed:
                    why = f"cursor {obs[2]} != sum of decoded widths {want.consumed}"
        if why:
            t.violation({"kind": "accounting", "class": klass.split(":")[0], "observed": obs[0], "parse_bad_pkts": pb,
                         "layout": name if not is_clean else "*"},
                        {**case, "packet": pkt.hex(), "parse_bad_pkts": pb}, expected=klass, observed=obs[:3] if obs[0] != "clean" else obs[0], note=why)


def _task(task):
    t = Tally()
    via = task["via"]
    try:
        with case_alarm(120):
            doc, defn = build_doc(via, task.get("tier", "quick"))
    except BaseException as e:  # noqa: BLE001
        t.violation({"kind": "load-failed", "exc": type(e).__name__}, {"via": via}, observed=str(e)[:300])
        return t
    ls = layouts(task.get("tier", "quick"))
    deep = task.get("tier") == "thorough"
    for i in task["layouts"]:
        name, pts, prs, ents, prefix, uses_len = ls[i]
        lens = range(10 if deep else 6) if uses_len else (0,)
        with case_alarm(600):
            for ln in lens:
                pre = prefix(ln)
                # required size for this LEN (bytes), from the reference run on a generously long packet
                probe = docs.packet_for(i, (pre + "0" * 400)[:400])
                o = decode_packet(doc, probe)
                req_bits = o.consumed - 48 if o.kind == "parsed" else 64
                max_n = max(1, (req_bits + 7) // 8) + (6 if deep else 3)
                for n in range(1, min(max_n, 40) + 1):
                    for fill in (("00000000", "11111111", "01000001", "00100001") if deep else ("00000000", "11111111", "01000001")):
                        bits = (pre + fill * n)[:8 * n]
                        if len(bits) < 8 * n:
                            bits = bits + "0" * (8 * n - len(bits))
                        pkt = docs.packet_for(i, bits)
                        judge_packet(t, doc, defn, pkt, {"layout": i, "layout_name": name, "LEN": ln, "n": n, "via": via, "tier": task.get("tier", "quick")}, name)
                t.nontrivial += 1
            # re-parse: a raw packet object from the framer, wrapped and parsed twice
            from space_packet_parser.packets import CCSDSPacket, ccsds_generator
            for ln in lens:
                pre = prefix(ln)
                probe = docs.packet_for(i, (pre + "01" * 200)[:400])
                o = decode_packet(doc, probe)
                if o.kind != "parsed" or (o.consumed - 48) % 8:
                    continue
                pkt = docs.packet_for(i, (pre + "01" * 200)[:o.consumed - 48])
                want = decode_packet(doc, pkt)
                if want.kind != "parsed" or want.consumed != 8 * len(pkt):
                    continue
                raw_obj = next(ccsds_generator(pkt))
                for attempt_no in (1, 2, 3):
                    t.evals += 1
                    try:
                        with observed_warnings():
                            out = defn.parse_ccsds_packet(CCSDSPacket(raw_data=raw_obj))
                        why = compare_items(want.items, items_of(out))
                        if why is None and out.raw_data.pos != want.consumed:
                            why = f"cursor {out.raw_data.pos} != sum of decoded widths {want.consumed}"
                    except Exception as e:  # noqa: BLE001
                        why = f"raised {type(e).__name__}: {str(e)[:80]}"
                    if why:
                        t.violation({"kind": "reparse-accounting", "attempt": attempt_no}, {"layout": i, "layout_name": name, "LEN": ln, "packet": pkt.hex(), "via": via,
                                                                                           "tier": task.get("tier", "quick"), "reparse": attempt_no},
                                    note=f"parse #{attempt_no} of the same raw packet object: {why}")
                        break
            # streams: the verdict belongs to each packet on its own (a clean packet after a bad one is clean, and the other way round)
            import itertools
            fam = []  # (label, packet, reference outcome)
            pre = prefix(2 if uses_len else 0)
            probe = docs.packet_for(i, (pre + "0110" * 100)[:400])
            o = decode_packet(doc, probe)
            if o.kind == "parsed" and (o.consumed - 48) % 8 == 0 and o.consumed > 48:
                nbytes = (o.consumed - 48) // 8
                for lab, nb in (("exact", nbytes), ("longer", nbytes + 2), ("shorter", max(1, nbytes - 1))):
                    pk = docs.packet_for(i, (pre + "0110" * 100)[:8 * nb], seqcount=len(fam))
                    w_ = decode_packet(doc, pk)
                    if w_.kind != "unspecified":
                        fam.append((lab, pk, w_))
            for n in (2, 3):
                for seq in itertools.product(range(len(fam)), repeat=n):
                    if len(set(seq)) < 2:
                        continue
                    stream = b"".join(fam[j][1] for j in seq)
                    for pb in (True, False):
                        got = []
                        g = defn.packet_generator(stream, parse_bad_pkts=_flag(pb, stream))
                        while True:
                            with observed_warnings() as w:
                                try:
                                    p_ = next(g)
                                except StopIteration:
                                    break
                                except Exception as e:  # noqa: BLE001
                                    got.append(("raised", type(e).__name__, 0))
                                    break
                            got.append(("item", bytes(p_.raw_data), len(w)))
                            if len(got) > 6:
                                break
                        t.evals += 1
                        why = None
                        k = 0
                        for j in seq:
                            lab, pk, w_ = fam[j]
                            clean = w_.kind == "parsed" and w_.consumed == 8 * len(pk)
                            if k < len(got) and got[k][0] == "raised":
                                if clean:
                                    why = f"packet #{k} ({lab}) is well formed and exactly consumed but the generator raised {got[k][1]}"
                                break
                            if not clean and not pb:
                                continue  # withheld: nothing to see
                            if k >= len(got):
                                why = f"packet ({lab}) missing from the output"
                                break
                            if got[k][1] != pk:
                                why = f"output item #{k} is not the {lab} packet"
                                break
                            if pb and clean and got[k][2]:
                                why = f"clean packet at position {k} was delivered with a warning (stream {[fam[x][0] for x in seq]})"
                                break
                            if pb and not clean and not got[k][2]:
                                why = f"{lab} packet at position {k} was delivered without a warning (stream {[fam[x][0] for x in seq]})"
                                break
                            k += 1
                        else:
                            if k < len(got):
                                why = f"{len(got) - k} extra item(s)"
                        t.outcomes["stream:" + ("ok" if not why else "bad")] += 1
                        if why:
                            t.violation({"kind": "stream-accounting", "parse_bad_pkts": pb}, {"layout": i, "layout_name": name, "stream": [fam[x][0] for x in seq],
                                                                                              "packet": stream.hex(), "parse_bad_pkts": pb, "via": via,
                                                                                              "tier": task.get("tier", "quick"), "streamcase": True}, note=why)
        t.programs += 1
    if 0 in task["layouts"]:
        t.sample({"layout": ls[11][0], "LEN": "0..5", "data_lengths": "1..required+3", "fills": ["00", "FF", "41"], "parse_bad_pkts": [True, False]})
    return t


def chain_docs():
    """Layouts whose fields are spread over several containers: the base container holds more than the CCSDS header, inheritance is two
    levels deep, a nested container sits between fields.  A packet may end exactly on a container boundary."""
    from mc.spec import Cmp, Container, Doc, header_entries, header_params, header_ptypes
    u8, u16, u4 = PType("C8_T", "Integer", IntEnc(8)), PType("C16_T", "Integer", IntEnc(16)), PType("C4_T", "Integer", IntEnc(4))
    pts = header_ptypes() + (u8, u16, u4)

    def P(*names):
        return tuple(Param(n, {"8": "C8_T", "6": "C16_T", "4": "C4_T"}[n[-1]]) for n in names)
    out = []
    # 1: root = header + one byte of secondary header; the child (by APID) adds fields
    out.append(("root(header,SH8)>child(A8,B16)", Doc(pts, header_params() + P("SH8", "A8", "B16"), (
        Container("CCSDSPacket", header_entries() + (("p", "SH8"),), abstract=True),
        Container("CH", (("p", "A8"), ("p", "B16")), base="CCSDSPacket", criteria=(Cmp("PKT_APID", "==", "1"),))))))
    # 2: three levels, the middle one selected by APID, the leaf by a decoded value
    out.append(("root(header)>mid(M8)>leaf(L16,T4,U4)", Doc(pts, header_params() + P("M8", "L16", "T4", "U4"), (
        Container("CCSDSPacket", header_entries(), abstract=True),
        Container("MID", (("p", "M8"),), base="CCSDSPacket", criteria=(Cmp("PKT_APID", "==", "1"),), abstract=True),
        Container("LEAF", (("p", "L16"), ("p", "T4"), ("p", "U4")), base="MID", criteria=(Cmp("M8", ">=", "0"),))))))
    # 3: concrete middle level (a packet that ends after it is a complete MID packet only if no leaf matches; here a leaf always matches)
    out.append(("root(header,SH8)>mid(M8) concrete>leaf(L8)", Doc(pts, header_params() + P("SH8", "M8", "L8"), (
        Container("CCSDSPacket", header_entries() + (("p", "SH8"),), abstract=True),
        Container("MID", (("p", "M8"),), base="CCSDSPacket", criteria=(Cmp("PKT_APID", "==", "1"),)),
        Container("LEAF", (("p", "L8"),), base="MID", criteria=(Cmp("SH8", ">=", "0"),))))))
    # 4: a nested container between two fields of the child
    out.append(("root(header)>child(A8,[N8,O8],B8)", Doc(pts, header_params() + P("A8", "N8", "O8", "B8"), (
        Container("CCSDSPacket", header_entries(), abstract=True),
        Container("CH", (("p", "A8"), ("c", "NESTC"), ("p", "B8")), base="CCSDSPacket", criteria=(Cmp("PKT_APID", "==", "1"),)),
        Container("NESTC", (("p", "N8"), ("p", "O8")))))))
    # 5: the leaf is chosen by a value; for other values the concrete middle level is the whole packet
    out.append(("root(header)>mid(M8) concrete>leaf(L8) if M8==1", Doc(pts, header_params() + P("M8", "L8"), (
        Container("CCSDSPacket", header_entries(), abstract=True),
        Container("MID", (("p", "M8"),), base="CCSDSPacket", criteria=(Cmp("PKT_APID", "==", "1"),)),
        Container("LEAF", (("p", "L8"),), base="MID", criteria=(Cmp("M8", "==", "1"),))))))
    # 6: a record container {RLEN, RDATA(8 * RLEN bits)} referenced twice: the second RDATA is sized by the SECOND RLEN (the values of the
    # repeated parameters themselves are not judged, the bit accounting is)
    rd = PType("RD_T", "Binary", BinEnc(Dyn("RLEN8", False, 8, 0)))
    out.append(("record-twice: child([RLEN8,RDATA],[RLEN8,RDATA],T8)", Doc(pts + (rd,), header_params() + P("RLEN8", "T8") + (Param("RDATA", "RD_T"),), (
        Container("CCSDSPacket", header_entries(), abstract=True),
        Container("CH", (("c", "REC"), ("c", "REC"), ("p", "T8")), base="CCSDSPacket", criteria=(Cmp("PKT_APID", "==", "1"),)),
        Container("REC", (("p", "RLEN8"), ("p", "RDATA")))))))
    return out


def _task_chains(task):
    t = Tally()
    for ci, (name, doc) in enumerate(chain_docs()):
        try:
            with case_alarm(300):
                defn = load_doc(doc) if task["via"] == "xml" else build_objects(doc)
                if name.startswith("record-twice"):
                    import itertools
                    for n in range(1, 8):
                        for bs in itertools.product((0, 1, 2), repeat=n):
                            pkt = framing.mk_packet(bytes(bs), apid=1)
                            judge_packet(t, doc, defn, pkt, {"chain": ci, "layout_name": name, "n": n, "via": task["via"]}, name)
                        t.nontrivial += 1
                    t.programs += 1
                    continue
                for n in range(1, 9):
                    for fill in ("00000000", "11111111", "00000001", "01000001"):
                        for first in ("", "00000001"):
                            bits = (first + fill * n)[:8 * n]
                            pkt = docs.packet_for(1, bits)
                            judge_packet(t, doc, defn, pkt, {"chain": ci, "layout_name": name, "n": n, "via": task["via"]}, name)
                    t.nontrivial += 1
            t.programs += 1
        except BaseException as e:  # noqa: BLE001
            t.violation({"kind": "check-aborted", "exc": type(e).__name__}, {"chain": ci, "layout_name": name}, observed=repr(e)[:300])
    return t


def _check_dataset_front_end(t: Tally):
    """The same promise through the dataset builder: create_dataset(..., parse_bad_pkts=False) holds no row of a packet that is longer or
    shorter than its definition says; with True (explicit or by default) it holds what the generator yields."""
    import os
    from mc import VERIF_ROOT
    from mc.kernel import observed_warnings
    from space_packet_parser import xarr
    doc = docs.selector_doc([([PType("DU8_T", "Integer", IntEnc(8)), PType("DU16_T", "Integer", IntEnc(16))], [Param("DA", "DU8_T"), Param("DB", "DU16_T")],
                              [("p", "DA"), ("p", "DB")])], root_abstract=True)
    defn = load_doc(doc)
    good = lambda a: docs.packet_for(0, format(a, "08b") + format(a * 257, "016b"), seqcount=a)          # noqa: E731
    long_ = lambda a: docs.packet_for(0, format(a, "08b") + format(a * 257, "016b") + "11111111", seqcount=a)   # noqa: E731
    short = lambda a: docs.packet_for(0, format(a, "08b") + "00000001", seqcount=a)                      # noqa: E731
    streams = {"good,long,short,good": ([good(1), long_(2), short(3), good(4)], [1, 4]), "long first": ([long_(5), good(6)], [6]),
               "short last": ([good(7), good(8), short(9)], [7, 8]), "only bad": ([long_(10), short(11)], [])}
    path = os.path.join(VERIF_ROOT, ".work", f"c14_ds_{os.getpid()}.bin")
    os.makedirs(os.path.dirname(path), exist_ok=True)
    for name, (pkts, good_values) in streams.items():
        with open(path, "wb") as f:
            f.write(b"".join(pkts))
        for kwargs in ({"parse_bad_pkts": False}, {"parse_bad_pkts": True}, {}):
            t.evals += 1
            t.nontrivial += 1
            case = {"dataset_front_end": True, "stream": name, "kwargs": kwargs}
            try:
                with observed_warnings():
                    with open(path, "rb") as fh:
                        want = [int(p["DA"]) for p in defn.packet_generator(fh, **kwargs) if "DA" in p]
                    ds = xarr.create_dataset(path, defn, **kwargs)
                got = [int(x) for x in ds[0]["DA"].values] if 0 in ds else []
            except Exception as e:  # noqa: BLE001
                t.violation({"kind": "create-dataset-raised", "exc": type(e).__name__}, case, observed=str(e)[:200])
                continue
            if kwargs.get("parse_bad_pkts") is False and got != good_values:
                t.violation({"kind": "bad-packet-in-dataset"}, case, expected=good_values, observed=got,
                            note="with parse_bad_pkts=False the dataset holds a row of a packet whose length differs from its definition")
            elif got != want:
                t.violation({"kind": "dataset-differs-from-generator"}, case, expected=want, observed=got)
    try:
        os.unlink(path)
    except OSError:
        pass


def _check_edited_entry_list(t: Tally):
    """A container of a USED definition gets one more entry (appended in place to its entry list): from then on the packets of the old size are
    the short ones (flagged, withheld when bad packets are excluded) and the packets one byte longer are the clean ones."""
    from mc.kernel import observed_warnings
    from space_packet_parser.xtce import encodings, parameter_types, parameters
    doc = docs.selector_doc([([PType("EU8_T", "Integer", IntEnc(8)), PType("EU16_T", "Integer", IntEnc(16))], [Param("EA", "EU8_T"), Param("EB", "EU16_T")],
                              [("p", "EA"), ("p", "EB")])], root_abstract=True)
    old_pkt = docs.packet_for(0, format(5, "08b") + format(1285, "016b"))
    new_pkt = docs.packet_for(0, format(5, "08b") + format(1285, "016b") + "10100101", seqcount=1)
    for nested in (False, True):
        defn = load_doc(doc)
        cname = next(n for n, c in defn.containers.items() if any(getattr(e, "name", None) == "EA" for e in c.entry_list))
        with observed_warnings():
            list(defn.packet_generator(old_pkt))       # used
        defn.containers[cname].entry_list.append(parameters.Parameter("EXTRA", parameter_types.IntegerParameterType("EXTRA_T", encodings.IntegerDataEncoding(8, "unsigned"))))
        for label, pkt, clean in (("old size", old_pkt, False), ("one byte longer", new_pkt, True)):
            for pb in (True, False):
                t.evals += 1
                t.nontrivial += 1
                with observed_warnings() as w:
                    try:
                        out = list(defn.packet_generator(pkt, parse_bad_pkts=pb))
                        res = ("yielded" if out else "withheld", len(w))
                    except Exception as e:  # noqa: BLE001
                        res = ("raised " + type(e).__name__, len(w))
                ok = (res == ("yielded", 0)) if clean else (res[0].startswith("raised") or (res[0] == "yielded" and res[1] > 0 and pb) or (res[0] == "withheld" and not pb))
                if ok and clean and "EXTRA" not in out[0]:
                    ok = False
                if not ok:
                    t.violation({"kind": "accounting", "class": "clean" if clean else "short", "after": "entry list extended in place", "parse_bad_pkts": pb},
                                {"edited_entry_list": True, "packet": label, "parse_bad_pkts": pb}, observed=list(res),
                                note="after an entry was appended to a used container, a packet is not judged by the definition as it is now")
        if nested:
            break


def run(ctx):
    n = len(layouts(ctx.tier))
    tasks = [{"layouts": [i], "via": "xml", "tier": ctx.tier} for i in range(n)] + [{"layouts": list(range(n)), "via": "objects", "tier": ctx.tier}]
    tally = fan_out(_task, tasks, jobs=ctx.jobs, seed=ctx.seed)
    tally.merge(fan_out(_task_chains, [{"via": "xml"}, {"via": "objects"}], jobs=2, seed=ctx.seed))
    _check_dataset_front_end(tally)
    _check_edited_entry_list(tally)
    coverage = {
        "programs": tally.programs,
        "exhaustive": True,
        "bound": (f"{n} layouts ({'with the thorough-only alignment/field-kind variants; ' if not ctx.quick else ''}fixed: u8,u16 / u3,u13 / f32 / str16 / bin12,u4 / str12 / str12,u4 / str29,u3,u8 / u8,str20 / s64 / u16le,u8; length dependent: LEN+BLOB 8*LEN+{{0,8,-8}}, "
                  "rest-of-packet 8*PKT_LEN-{8,16,64}+TAIL, dynamic string, unaligned variants, float after dynamic blob, calibrated length, bit-granular length) "
                  f"x LEN 0..{5 if ctx.quick else 9} x every data length 1..required+{3 if ctx.quick else 6} bytes x {3 if ctx.quick else 4} fills x parse_bad_pkts {{T,F}} (handed over as bool, int or numpy scalar in rotation), from XML and from objects; "
                  "6 multi-container layouts (a record container with a length and a payload sized by it referenced twice, over every byte string of <= 7 bytes from {0,1,2}; base container with a field after the header, two-level inheritance with abstract and concrete middle levels, a nested "
                  "container between fields, a value-selected leaf) x every data length 1..8 bytes (so that packets end on every container boundary) x 4 fills x 2 leading bytes; "
                  "the dataset builder as a front end (4 streams of good / too long / too short packets x parse_bad_pkts False, True, default); per layout every stream of 2..3 packets over {exactly consumed, 2 bytes longer, 1 byte shorter} with warnings attributed per next() call"),
        "rule": "one evaluation = one single-packet generator run; distinct non-trivial = distinct (layout, LEN) pairs swept over all lengths",
    }
    return {"level": LEVEL, "tally": tally, "coverage": coverage,
            "assumptions": ["'flagged' = at least one warning of any category while the generator processes the packet",
                            "with parse_bad_pkts=True a bad packet must be yielded with a warning or raise; with False be withheld or raise"]}


def replay(case):
    if case.get("edited_entry_list"):
        t = Tally()
        _check_edited_entry_list(t)
        return next((v for v in t.violations if v["case"].get("packet") == case.get("packet") and v["case"].get("parse_bad_pkts") == case.get("parse_bad_pkts")), None)
    if case.get("dataset_front_end"):
        t = Tally()
        _check_dataset_front_end(t)
        return next((v for v in t.violations if v["case"].get("stream") == case.get("stream") and v["case"].get("kwargs") == case.get("kwargs")), None)
    if "chain" in case:
        t = _task_chains({"via": case.get("via", "xml")})
        return next((v for v in t.violations if v["case"].get("chain") == case["chain"] and v["case"]["packet"] == case["packet"]
                     and v["case"]["parse_bad_pkts"] == case["parse_bad_pkts"]), None)
    t = _task({"layouts": [case["layout"]], "via": case.get("via", "xml"), "tier": case.get("tier", "quick")})
    if case.get("streamcase"):
        return next((v for v in t.violations if v["case"].get("streamcase") and v["case"]["packet"] == case["packet"] and v["case"]["parse_bad_pkts"] == case["parse_bad_pkts"]), None)
    if "reparse" in case:
        return next((v for v in t.violations if v["case"].get("reparse") and v["case"]["packet"] == case["packet"]), None)
    for v in t.violations:
        if v["case"]["packet"] == case["packet"] and v["case"]["parse_bad_pkts"] == case["parse_bad_pkts"]:
            return v
    return None


def repro_py(case):
    from mc.spec import render_xml
    doc = docs.selector_doc([(pts, prs, ents) for _, pts, prs, ents, _, _ in layouts(case.get("tier", "quick"))], root_abstract=True)
    if "chain" in case:
        doc = chain_docs()[case["chain"]][1]
    return ("import io, warnings\nfrom space_packet_parser.xtce.definitions import XtcePacketDefinition\n"
            f"xml = {render_xml(doc)!r}\n"
            f"d = XtcePacketDefinition.from_xtce(io.BytesIO(xml))\nwith warnings.catch_warnings(record=True) as w:\n"
            f"    warnings.simplefilter('always')\n    out = list(d.packet_generator(bytes.fromhex({case['packet']!r}), parse_bad_pkts={case['parse_bad_pkts']}))\n"
            "print(out, [str(x.message) for x in w])\n")
