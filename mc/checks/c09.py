"""C09 — Writing a definition to XTCE XML and loading it back preserves its meaning.

E-prod over documents built both ways (XML text -> from_xtce, and public constructors):
the attribute-coverage palette alone and in ordered pairs, the C05 container-tree family, and the
bundled documents.  D' = load(write(D)).  Oracles: (i) canon(D') == canon(D) with an independent
structural walk that probes callable length adjustments; (ii) canon(load(xml(spec))) ==
canon(objects(spec)); (iii) every packet of the document's family decodes identically under D and D'.
"""
from __future__ import annotations

import io
import os

from mc import REPO_ROOT
from mc.canon import canon_definition, diff_canon
from mc.checks import c01, c05
from mc.kernel import Tally, case_alarm, chunked, fan_out
from mc.observe import parse_one
from mc.spec import build_objects, load_doc, ns_prefix_arg

PROP = "C09"
LEVEL = "exploration"

BUNDLED = [
    ("tests/test_data/test_xtce.xml", "xtce", "CCSDSPacket", None, 0),
    ("tests/test_data/test_xtce_default_namespace.xml", None, "CCSDSPacket", None, 0),
    ("tests/test_data/test_xtce_no_namespace.xml", None, "CCSDSPacket", None, 0),
    ("tests/test_data/jpss/jpss1_geolocation_xtce_v1.xml", "xtce", "CCSDSPacket", "tests/test_data/jpss/J01_G011_LZ_2021-04-09T00-00-00Z_V01.DAT1", 0),
    ("tests/test_data/jpss/contrived_inheritance_structure.xml", "xtce", "CCSDSPacket", "tests/test_data/jpss/J01_G011_LZ_2021-04-09T00-00-00Z_V01.DAT1", 0),
    ("tests/test_data/suda/suda_combined_science_definition.xml", "xtce", "CCSDSPacket", "tests/test_data/suda/sciData_2022_130_17_41_53.spl", 4),
    ("tests/test_data/idex/idex_combined_science_definition.xml", "xtce", "CCSDSPacket", "tests/test_data/idex/sciData_2023_052_14_45_05", 0),
    ("tests/test_data/ctim/ctim_xtce_v1.xml", "xtce", "CCSDSTelemetryPacket", "tests/test_data/ctim/ccsds_2021_155_14_39_51", 0),
]


def write_bytes(defn, via_file=False) -> bytes:
    import lxml.etree as ET
    if via_file:
        # the documented way to put a definition into a file; what the file holds is what gets loaded
        from mc import VERIF_ROOT
        path = os.path.join(VERIF_ROOT, ".work", f"c09_{os.getpid()}.xml")
        os.makedirs(os.path.dirname(path), exist_ok=True)
        try:
            defn.write_xml(path)
            with open(path, "rb") as f:
                return f.read()
        finally:
            if os.path.exists(path):
                os.unlink(path)
    return ET.tostring(defn.to_xml_tree(), xml_declaration=True, encoding="utf-8")


def reload(defn, xml: bytes):
    from space_packet_parser.xtce.definitions import XtcePacketDefinition
    return XtcePacketDefinition.from_xtce(io.BytesIO(xml), xtce_ns_prefix=defn.xtce_ns_prefix,
                                          root_container_name=defn.root_container_name)


def obs_key(obs):
    # the text of an error message is not part of the result (it may print the definition's numbers as the caller handed them over)
    if obs and obs[0] == "raised":
        return repr((obs[0], obs[1]) + tuple(obs[3:]))
    return repr(obs)


def roundtrip_check(t: Tally, label, defn, packets, case, root=None):
    """(i) and (iii) for one definition object.  Returns canon(defn) or None."""
    try:
        c0 = canon_definition(defn)
        import zlib
        xml = write_bytes(defn, via_file=zlib.crc32(repr(sorted(case.items(), key=str)).encode()) % 3 == 0)
    except Exception as e:  # noqa: BLE001
        t.violation({"kind": "cannot-write", "exc": type(e).__name__, "built": label}, case, observed=str(e)[:300],
                    note="to_xml_tree() raised for a definition that loads and decodes")
        return None
    try:
        d2 = reload(defn, xml)
    except Exception as e:  # noqa: BLE001
        t.violation({"kind": "cannot-reload", "exc": type(e).__name__, "built": label}, case, observed=str(e)[:300],
                    note="the written document cannot be loaded")
        return c0
    c2 = canon_definition(d2)
    t.evals += 1
    if c2 != c0:
        diffs = diff_canon(c0, c2)
        t.violation({"kind": "roundtrip-changed", "built": label, "where": diffs[0].split(":")[0].split("/")[-1] if diffs else "?"},
                    case, observed=diffs, note="canon(load(write(D))) != canon(D)")
    if canon_definition(defn) != c0:
        t.violation({"kind": "writing-modified-definition", "built": label}, case, note="writing changed the definition")
    for pkt in packets:
        a = parse_one(defn, pkt, root=root)
        b = parse_one(d2, pkt, root=root)
        t.evals += 1
        if obs_key(a) != obs_key(b):
            t.violation({"kind": "decode-differs-after-roundtrip", "built": label}, {**case, "packet": pkt.hex()},
                        expected=a[:2] if a[0] != "parsed" else a[1][7:], observed=b[:2] if b[0] != "parsed" else b[1][7:],
                        note="a packet decodes differently under load(write(D)) than under D")
    return c0


NS_ROTATION = ("xtce", "none", "default", "q")


def check_spec(t: Tally, doc, packets, case):
    # the namespace convention the definition is loaded / built in (and therefore written in and re-read in) rotates with the case
    import zlib
    style = case.get("ns_style") or NS_ROTATION[zlib.crc32(repr(sorted(case.items(), key=str)).encode()) % 4]
    case = {**case, "ns_style": style}
    try:
        A = load_doc(doc, style)
    except Exception as e:  # noqa: BLE001
        t.violation({"kind": "load-failed", "exc": type(e).__name__}, case, observed=str(e)[:300])
        return
    try:
        B = build_objects(doc, style)
    except Exception as e:  # noqa: BLE001
        t.violation({"kind": "objects-failed", "exc": type(e).__name__}, case, observed=str(e)[:300])
        B = None
    ca = roundtrip_check(t, "xml", A, packets, case, root=doc.root if doc.root != "CCSDSPacket" else None)
    if B is not None:
        cb = roundtrip_check(t, "objects", B, packets, case, root=doc.root if doc.root != "CCSDSPacket" else None)
        t.evals += 1
        if ca is not None and cb is not None and ca != cb:
            diffs = diff_canon(ca, cb)
            t.violation({"kind": "xml-vs-objects", "where": diffs[0].split(":")[0].split("/")[-1] if diffs else "?"}, case, observed=diffs,
                        note="the same specification loaded from XML and built from objects gives different definitions")
    t.programs += 1
    t.nontrivial += 1


def _task_palette(task):
    t = Tally()
    for kidx, shape in task["docs"]:
        case = {"family": "palette", "kinds": list(kidx), "kind_names": [c01.pal()[k].name for k in kidx], "shape": shape}
        try:
            with case_alarm(120):
                doc = c01.compose(tuple(kidx), shape)
                pats = c01.base_patterns()
                pkts = []
                for apid in ([1] if shape == 1 else [1, 2, 3]):
                    for pn in (("index", "ones", "a5", "zeros") if apid == 1 else ("index",)):
                        pkt, o = c01.fit(doc, apid, pats[pn])
                        pkts.append(pkt)
                check_spec(t, doc, pkts, case)
        except BaseException as e:  # noqa: BLE001
            t.violation({"kind": "check-aborted", "exc": type(e).__name__}, case, observed=repr(e)[:300])
        t.outcomes["palette"] += 1
    if task["docs"]:
        t.sample({"family": "palette", "kinds": [c01.pal()[k].name for k in task["docs"][0][0]], "shape": task["docs"][0][1]})
    return t


def _task_trees(task):
    t = Tally()
    pkts = c05.packets()
    for spec in task["specs"]:
        case = {"family": "trees", "spec": spec}
        try:
            with case_alarm(120):
                check_spec(t, c05.make_doc(**spec), pkts, case)
        except BaseException as e:  # noqa: BLE001
            t.violation({"kind": "check-aborted", "exc": type(e).__name__}, case, observed=repr(e)[:300])
        t.outcomes["trees"] += 1
    return t


def _task_bundled(task):
    from space_packet_parser.packets import ccsds_generator
    from space_packet_parser.xtce.definitions import XtcePacketDefinition
    t = Tally()
    path, prefix, root, data, skip = task["item"]
    case = {"family": "bundled", "path": path}
    try:
        with case_alarm(1200):
            defn = XtcePacketDefinition.from_xtce(os.path.join(REPO_ROOT, path), xtce_ns_prefix=prefix, root_container_name=root)
            pkts = []
            if data:
                with open(os.path.join(REPO_ROOT, data), "rb") as f:
                    for i, p in enumerate(ccsds_generator(f, skip_header_bytes=skip)):
                        if i >= task["npkts"]:
                            break
                        pkts.append(bytes(p))
            roundtrip_check(t, "xml", defn, pkts, case, root=root if root != "CCSDSPacket" else None)
            t.programs += 1
            t.nontrivial += 1
            t.outcomes["bundled"] += 1
    except BaseException as e:  # noqa: BLE001
        t.violation({"kind": "check-aborted", "exc": type(e).__name__}, case, observed=repr(e)[:300])
    t.sample(case)
    return t


def extra_items(tier):
    """Attribute-coverage families borrowed from other checks: every criteria form and selector combination (C06),
    every string/binary encoding configuration (C07), every calibrator / enumeration / time configuration (C08),
    plus a product of optional attributes of time types, parameters and containers."""
    from mc.checks import c06, c07, c08
    items = []
    crits = c06.consumer_criteria(tier)
    for i in range(0, len(crits), 24):
        items.append(("c06", (tier, i, min(i + 24, len(crits)))))
    for ci in range(len(c07.CHARSETS)):
        items.append(("c07", ("string", ci, tier)))
    items.append(("c07", ("binary", 0, tier)))
    nv = len(c08.variants(tier))
    step = 24
    stride = 1 if tier != "quick" else 3
    for i in range(0, nv, step * stride):
        items.append(("c08", (tier, i, min(i + step, nv))))
    items.append(("attrs", 0))
    for v in range(12):
        items.append(("collide", v))
    items.append(("shared-tables", 0))
    # number tables: n distinct numbers between a -0.0 and a 0.0 (both orders), as a spline table and as polynomial coefficients
    for n in (20, 130, 200):
        for mirrored in (False, True):
            for kind in ("spline", "poly"):
                items.append(("numbers", (n, mirrored, kind)))
    return items


def extra_doc(item):
    from mc.checks import c06, c07, c08
    fam, x = item
    if fam == "c06":
        crits = c06.consumer_criteria(x[0])[x[1]:x[2]]
        return c06.consumer_doc(crits), [docs_mod().packet_for(0, b) for b in c06.consumer_packets()[:6]]
    if fam == "c07":
        if x[0] == "string":
            cs, bo = c07.CHARSETS[x[1]]
            return c07.mk_doc(c07.string_variants(cs, bo, "quick"), 0, "String"), []
        return c07.mk_doc(c07.binary_variants("quick"), 3, "Binary"), []
    if fam == "c08":
        return c08.doc_for(list(range(x[1], x[2])), x[0]), []
    if fam == "shared-tables":
        mk = docs_mod().packet_for
        return shared_tables_doc(), [mk(0, "".join(format(b, "08b") for b in bs)) for bs in ((0, 100, 150, 5, 7), (255, 1, 200, 10, 0), (50, 250, 0, 255, 128))]
    if fam == "numbers":
        return numbers_doc(*x), [docs_mod().packet_for(0, "0000000000000001"), docs_mod().packet_for(0, "0000000000000000")]
    if fam == "collide":
        # one name shared by a parameter type, a parameter and a container
        from mc.checks.c17 import collide_doc
        mk = docs_mod().packet_for
        return collide_doc(x), [mk(1, "10100101" + "1100" + "0011" + "01011010"), mk(2, "0110" + "1001" + "11110000")]
    return attrs_doc(), []


def shared_tables_doc():
    """Several parameters calibrated by EQUAL tables (the same thermistor curve on three channels: as default calibrator of two types and as a
    context calibrator of a third), a table whose unused rows repeat its first row nine times, and a polynomial used twice."""
    from mc.spec import Cmp, CtxCal, IntEnc, Param, Poly, PType, Spline
    curve = Spline(((0.0, -40.0), (100.0, 0.0), (200.0, 85.5), (255.0, 150.0)), 1, False)
    padded = Spline(((0.0, 1.0),) * 9 + ((10.0, 2.0), (20.0, 4.0)) + ((255.0, 9.0),) * 8, 0, True)
    poly = Poly(((1.5, 0), (0.25, 1)))
    pts = [PType("TA_T", "Integer", IntEnc(8, default_cal=curve)), PType("TB_T", "Integer", IntEnc(8, default_cal=curve)),
           PType("TC_T", "Integer", IntEnc(8, default_cal=poly, ctx_cals=(CtxCal((Cmp("TA", ">=", "0"),), curve),))),
           PType("TD_T", "Integer", IntEnc(8, default_cal=padded)), PType("TE_T", "Integer", IntEnc(8, default_cal=poly))]
    prs = [Param(n, n + "_T") for n in ("TA", "TB", "TC", "TD", "TE")]
    return docs_mod().selector_doc([(pts, prs, [("p", p.name) for p in prs])])


def numbers_doc(n, mirrored, kind):
    """One 16-bit field calibrated by a table of n numbers whose first calibrated value is -0.0 and whose last is 0.0 (mirrored: the other way
    round); everything in between is distinct."""
    from mc.spec import IntEnc, Param, Poly, PType, Spline
    first, last = (0.0, -0.0) if mirrored else (-0.0, 0.0)
    mids = [1.5 * k for k in range(1, n - 1)]
    if kind == "spline":
        cal = Spline(tuple((float(i + 1), c) for i, c in enumerate([first] + mids + [last])), 0, True)
    else:
        cal = Poly(tuple((c, i) for i, c in enumerate([first] + [m / 1e6 for m in mids[:40]] + [last])))
    pt = PType("NT", "Float", IntEnc(16, default_cal=cal))
    return docs_mod().selector_doc([([pt], [Param("NP", "NT")], [("p", "NP")])])


def docs_mod():
    from mc import docs
    return docs


def attrs_doc():
    """Optional attributes in every presence/absence combination: time types (units, scale, offset, epoch, offsetFrom),
    parameters (short/long description), containers (abstract, short/long description, with/without criteria)."""
    import itertools
    from mc.spec import (Cmp, Container, CtxCal, Doc, IntEnc, FloatEnc, Param, Poly, PType, header_entries, header_params, header_ptypes)
    pts = list(header_ptypes())
    prs = list(header_params())
    conts = [Container("CCSDSPacket", header_entries(), abstract=True)]
    n = 0
    for kind in ("AbsoluteTime", "RelativeTime"):
        for unit, scale, offset, epoch, ofrom in itertools.product((None, "\u00b5s"), (None, 0.25), (None, -3.5), (None, "TAI"), (None, "SRC_SEQ_CTR")):
            n += 1
            # every third time type also has context calibrators on its encoding (next to whatever scale / offset say)
            cc = (CtxCal((Cmp("PKT_APID", "==", "7"),), Poly(((5.0, 0), (2.0, 1)))), CtxCal((Cmp("TYPE", "==", "1"),), Poly(((1.0, 2),)))) if n % 3 == 0 else ()
            pts.append(PType(f"TT{n}", kind, IntEnc(16, ctx_cals=cc) if n % 2 else FloatEnc(32, ctx_cals=cc), unit=unit, scale=scale, offset=offset, epoch=epoch, offset_from=ofrom))
            prs.append(Param(f"TP{n}", f"TT{n}", short=("short %d" % n) if n % 2 else None, long=("long %d" % n) if n % 3 == 0 else None))
    k = 0
    for abstract, short, long_, crit in itertools.product((False, True), (None, "a short one: 20 \u00b0C"), (None, "a long\none \u2014 temp\u00e9rature"),
                                                          (None, (Cmp("PKT_APID", "==", "7"),), (Cmp("PKT_APID", "==", "8"), Cmp("TYPE", "!=", "1", False)))):
        k += 1
        conts.append(Container(f"K{k}", (("p", f"TP{k}"), ("p", f"TP{k + 30}")), base="CCSDSPacket", criteria=crit, abstract=abstract,
                               short=short, long=long_))
    return Doc(tuple(pts), tuple(prs), tuple(conts))


def _task_extra(task):
    t = Tally()
    for item in task["items"]:
        case = {"family": "extra", "item": item}
        try:
            with case_alarm(300):
                doc, pkts = extra_doc(item)
                check_spec(t, doc, pkts, case)
        except BaseException as e:  # noqa: BLE001
            t.violation({"kind": "check-aborted", "exc": type(e).__name__}, case, observed=repr(e)[:300])
        t.outcomes["extra:" + item[0]] += 1
    return t


def plan_palette(tier):
    n = len(c01.pal())
    docs_ = [((a,), s) for a in range(n) for s in (1, 2)]
    for a in range(n):
        for b in range(n):
            if tier == "quick":
                docs_.append(((a, b), (a + b) % 3 + 1))
            else:
                docs_ += [((a, b), s) for s in (1, 2, 3)]
    return docs_


def run(ctx):
    docs_ = plan_palette(ctx.tier)
    tasks = [{"docs": ch} for ch in chunked(docs_, 128)]
    tally = fan_out(_task_palette, tasks, jobs=ctx.jobs, seed=ctx.seed)
    specs = c05.all_specs("quick")
    if ctx.quick:
        specs = specs[::3]
    tally.merge(fan_out(_task_trees, [{"specs": ch} for ch in chunked(specs, 96)], jobs=ctx.jobs, seed=ctx.seed))
    extra = extra_items(ctx.tier)
    tally.merge(fan_out(_task_extra, [{"items": [it]} for it in extra], jobs=ctx.jobs, seed=ctx.seed))
    tally.merge(fan_out(_task_bundled, [{"item": it, "npkts": 40 if ctx.quick else 400} for it in BUNDLED], jobs=ctx.jobs, mem_gib=None))
    coverage = {
        "programs": tally.programs,
        "exhaustive": True,
        "bound": (f"{len(docs_)} palette documents (each of {len(c01.pal())} field kinds alone in 2 shapes; every ordered pair in "
                  f"{'one rotating shape' if ctx.quick else 'all 3 shapes'}), {len(specs)} container-tree documents (<= 3 containers, C05 family), "
                  f"{len(extra)} attribute-coverage documents (every criteria form and selector combination, every string/binary encoding configuration, every "
                  f"calibrator/enumeration/time configuration, optional-attribute products), {len(BUNDLED)} bundled documents; each built from XML and from objects (bundled: XML only); packets: pattern family per document / "
                  "APID x SEL product / first recorded packets of the mission files"),
        "rule": ("one evaluation = one canonical comparison or one packet decoded under D and under load(write(D)); distinct non-trivial = distinct documents"),
    }
    return {"level": LEVEL, "tally": tally, "coverage": coverage,
            "assumptions": ["'' and absent are the same for descriptions and units; numbers compare as rationals (10 == 10.0)",
                            "header meta data (validationStatus, version) is not part of the meaning"]}


def replay(case):
    t = Tally()
    if case.get("family") == "palette":
        t = _task_palette({"docs": [(tuple(case["kinds"]), case["shape"])]})
    elif case.get("family") == "trees":
        spec = dict(case["spec"])
        spec["parents"] = tuple(spec["parents"])
        spec["crits"] = tuple(spec["crits"])
        t = _task_trees({"specs": [spec]})
    elif case.get("family") == "extra":
        item = case["item"]
        item = (item[0], tuple(item[1]) if isinstance(item[1], list) else item[1])
        t = _task_extra({"items": [item]})
    elif case.get("family") == "bundled":
        item = next(b for b in BUNDLED if b[0] == case["path"])
        t = _task_bundled({"item": item, "npkts": 400})
    return t.violations[0] if t.violations else None


def repro_py(case):
    return f"# {case!r}\n# ./check C09 --replay <this file> rebuilds the document and repeats write -> load -> compare\n"
