"""C11 — Packets are parsed independently; generators and definitions do not interfere.

Kernel E-hist + interleavings.  (i) every stream of <= 4 packets (quick tier: every other stream of 4) over a 13-packet palette (two
recognised APIDs with different layouts, an unrecognised APID, a too-long and a too-short packet)
under all 8 option combinations equals the concatenation of the per-packet solo results; (ii) every
lattice-path interleaving of next() calls over 2 (and 3) generators sharing one definition gives
each generator its sequential output; (iii) the definition (independent canonical form and written
XML) is unchanged by all of it; (iv) no package-level state changed.
"""
from __future__ import annotations

import itertools

from mc import framing
from mc.canon import canon_definition, footprint_changes, package_footprint
from mc.kernel import Tally, case_alarm, chunked, fan_out, observed_warnings
from mc.observe import exc_names, items_of
from mc.seams import ScriptedSocket, owned_clock
from mc.spec import (BinEnc, Cmp, Container, CtxCal, Doc, Dyn, Fixed, FloatEnc, IntEnc, Param, Poly, PType, StrEnc, header_entries,
                     header_params, header_ptypes, load_doc, build_objects)

PROP = "C11"
LEVEL = "model_checking"


def the_doc():
    pts = header_ptypes() + (
        PType("U3", "Integer", IntEnc(3)), PType("U5", "Integer", IntEnc(5)),
        PType("BLOB_T", "Binary", BinEnc(Dyn("A_LEN", False, 8, 0))),
        # two context calibrators whose criteria overlap (the first that matches wins, whatever was decoded before) and a default
        PType("CAL_T", "Integer", IntEnc(8, default_cal=Poly(((1.5, 0), (0.5, 1))), ctx_cals=(
            CtxCal((Cmp("A_LEN", "==", "2"), Cmp("A_PAD", "==", "21")), Poly(((1000.0, 0), (1.0, 1)))),
            CtxCal((Cmp("A_LEN", ">=", "1"),), Poly(((2000.0, 0), (1.0, 1)))),
            CtxCal((Cmp("A_PAD", ">=", "0"),), Poly(((3000.0, 0), (1.0, 1))))))),
        PType("STR_T", "String", StrEnc(Fixed(16), "ISO-8859-1")),
        PType("F32_T", "Float", FloatEnc(32)),
        PType("E_T", "Enumerated", IntEnc(2), enum=((0, "OFF"), (1, "ON"), (2, "SAFE"), (3, "FAULT"))),
        PType("U6", "Integer", IntEnc(6)), PType("S16_T", "Integer", IntEnc(16, "signed")),
        PType("U8", "Integer", IntEnc(8)),
        # a float-encoded enumeration: the raw values +0.0 and -0.0 carry the same label and are different raw values
        PType("EF_T", "Enumerated", FloatEnc(32), enum=((0.0, "ZERO"), (1.0, "ONE"))),
    )
    prs = header_params() + (
        Param("A_LEN", "U3"), Param("A_PAD", "U5"), Param("A_BLOB", "BLOB_T"), Param("A_CAL", "CAL_T"), Param("A_STR", "STR_T"),
        Param("B_F", "F32_T"), Param("B_E", "E_T"), Param("B_P", "U6"), Param("B_S", "S16_T"), Param("S_BYTE", "U8"), Param("Z_E", "EF_T"), Param("Q_B", "U8"),
    )
    conts = (
        Container("CCSDSPacket", header_entries(), abstract=True),
        Container("A", (("p", "A_LEN"), ("p", "A_PAD"), ("p", "A_BLOB"), ("p", "A_CAL"), ("p", "A_STR")), base="CCSDSPacket",
                  criteria=(Cmp("PKT_APID", "==", "1"), Cmp("TYPE", "==", "0"))),
        Container("B", (("p", "B_F"), ("p", "B_E"), ("p", "B_P"), ("p", "B_S")), base="CCSDSPacket", criteria=(Cmp("PKT_APID", "==", "2"),)),
        Container("S", (("p", "S_BYTE"),), base="CCSDSPacket", criteria=(Cmp("PKT_APID", "==", "4"),)),
        Container("Z", (("p", "Z_E"),), base="CCSDSPacket", criteria=(Cmp("PKT_APID", "==", "5"),)),
        # a packet type whose definition ends inside a byte (3 bits of the one data byte): 5 bits are left over, which is a length mismatch
        Container("N", (("p", "A_LEN"),), base="CCSDSPacket", criteria=(Cmp("PKT_APID", "==", "7"),)),
        # a CONCRETE container with two children whose criteria overlap at Q_B == 2: that packet fits both and is not recognised
        Container("Q", (("p", "Q_B"),), base="CCSDSPacket", criteria=(Cmp("PKT_APID", "==", "6"),)),
        Container("QA", (), base="Q", criteria=(Cmp("Q_B", ">=", "1"),)),
        Container("QB", (), base="Q", criteria=(Cmp("Q_B", "==", "2"),)),
        # stand-alone container: reachable only when a call names it as its root (root_container_name=...)
        Container("RAWDUMP", (("p", "S_BYTE"), ("p", "A_CAL"))),
        # an abstract container without entries and without children: as a per-call root, every packet is unrecognised before any field is read
        Container("NOTHING", (), abstract=True),
    )
    return Doc(pts, prs, conts)


def palette_packets():
    a_clean = framing.mk_packet(bytes([0x40 | 0x15, 0xDE, 0xAD, 0x07, 0x41, 0x42]), apid=1, seqcount=10)       # LEN=2
    b_clean = framing.mk_packet(bytes.fromhex("40490fdb") + bytes([0x80 | 0x2A, 0xFF, 0xFE]), apid=2, seqcount=20)
    unrec = framing.mk_packet(b"\x01\x02\x03", apid=3, seqcount=30)
    a_long = framing.mk_packet(bytes([0x20 | 0x0A, 0x99, 0x10, 0x43, 0x44, 0xEE, 0xEF]), apid=1, seqcount=11)  # LEN=1, 2 extra bytes
    a_short = framing.mk_packet(bytes([0x40 | 0x01, 0x11, 0x22, 0x33, 0x45]), apid=1, seqcount=12)              # LEN=2, string cut short
    # unrecognised although it carries a recognised APID (recognition depends on more than the APID)
    unrec_same_apid = framing.mk_packet(bytes([0x40 | 0x15, 0xDE, 0xAD, 0x07, 0x41, 0x42]), apid=1, type_=1, seqcount=13)
    # decoding raises inside the container walk (binary field runs off the end of the packet): ends its own generator,
    # must not affect anything else that uses the definition afterwards
    a_raising = framing.mk_packet(bytes([0xE0 | 0x03, 0x77]), apid=1, seqcount=14)  # LEN=7, only one byte follows
    # segments of a group (APID 4, the one-byte S layout): ordinary packets unless combine_segmented_packets is set
    seg_first = framing.mk_packet(b"\x71", apid=4, seqflags=1, seqcount=40)
    seg_last = framing.mk_packet(b"\x72", apid=4, seqflags=2, seqcount=41)
    z_pos = framing.mk_packet(bytes.fromhex("00000000"), apid=5, seqcount=50)
    z_neg = framing.mk_packet(bytes.fromhex("80000000"), apid=5, seqcount=51)
    q_amb = framing.mk_packet(b"\x02", apid=6, seqcount=60)     # fits QA and QB
    n_bits = framing.mk_packet(b"\xa0", apid=7, seqcount=70)      # 3 of its 8 data bits are described
    return [a_clean, b_clean, unrec, a_long, a_short, unrec_same_apid, a_raising, seg_first, seg_last, z_pos, z_neg, q_amb, n_bits]


AMBIGUOUS_INDEX = 11
SUBBYTE_INDEX = 12


def obs_item(p):
    from space_packet_parser.exceptions import UnrecognizedPacketTypeError
    if isinstance(p, UnrecognizedPacketTypeError):
        pd = getattr(p, "partial_data", None)
        # the partial data is the packet object itself (its items so far, its bytes, its cursor), also when no item was decoded yet
        rd = getattr(pd, "raw_data", None)
        from space_packet_parser.packets import CCSDSPacket as _P
        return ("error" if isinstance(pd, _P) else "error-whose-partial-data-is-not-the-packet", tuple(map(tuple, items_of(pd))) if pd is not None else None,
                (type(pd).__name__, bytes(rd), rd.pos) if rd is not None else (type(pd).__name__, "no raw_data"))
    if isinstance(p, bytes):
        return ("raw", bytes(p))
    if isinstance(p, Exception):
        return ("exception-object", type(p).__name__)
    return ("packet", tuple(map(tuple, items_of(p))), bytes(p.raw_data), p.raw_data.pos)


def run_stream(defn, stream, opts):
    with observed_warnings() as w:
        out = []
        g = defn.packet_generator(stream, **opts)
        while True:
            try:
                p = next(g)
            except StopIteration:
                break
            except Exception as e:  # noqa: BLE001
                out.append(("raised", exc_names(e)[0], str(e)[:100]))
                break
            out.append(obs_item(p))
            if len(out) > 12:
                out.append(("horizon",))
                break
    return out, len(w)


OPTS = [{"parse_bad_pkts": a, "yield_unrecognized_packet_errors": b, "ccsds_headers_only": c}
        for a in (True, False) for b in (False, True) for c in (False, True)]
# a root container named for one call only: the choice belongs to that call, not to the definition
OPTS[3:3] = [{"parse_bad_pkts": True, "yield_unrecognized_packet_errors": True, "ccsds_headers_only": False, "root_container_name": "RAWDUMP"}]
OPTS.append({"parse_bad_pkts": False, "yield_unrecognized_packet_errors": False, "ccsds_headers_only": False, "root_container_name": "RAWDUMP"})
OPTS.append({"parse_bad_pkts": True, "yield_unrecognized_packet_errors": True, "ccsds_headers_only": False, "root_container_name": "NOTHING"})
# headers only: one raw packet per packet of the stream, whatever else is asked for (segment reassembly, a raw-record prefix of 0 bytes)
OPTS.append({"parse_bad_pkts": True, "yield_unrecognized_packet_errors": False, "ccsds_headers_only": True, "combine_segmented_packets": True})
OPTS.append({"parse_bad_pkts": False, "yield_unrecognized_packet_errors": True, "ccsds_headers_only": True, "combine_segmented_packets": True, "secondary_header_bytes": 1})


def _task_streams(task):
    t = Tally()
    doc = the_doc()
    with owned_clock():
        defn = load_doc(doc) if task["via"] == "xml" else build_objects(doc)
        before = canon_definition(defn)
        import lxml.etree as ET
        xml_before = ET.tostring(defn.to_xml_tree())
        fp_before = package_footprint()
        pal = palette_packets()
        solo = {}
        for oi, opts in enumerate(OPTS):
            for pi, p in enumerate(pal):
                # "on its own": a fresh definition object per packet, so that nothing an earlier packet left behind can leak in
                fresh = load_doc(doc) if task["via"] == "xml" else build_objects(doc)
                solo[(oi, pi)] = run_stream(fresh, p, opts)[0]
                if pi == SUBBYTE_INDEX and not opts["ccsds_headers_only"] and "root_container_name" not in opts:
                    # absolute: a packet with undescribed bits left in its last byte is a bad packet - withheld when those are excluded
                    kinds = [x[0] for x in solo[(oi, pi)]]
                    want_kinds = ["packet"] if opts["parse_bad_pkts"] else []
                    t.evals += 1
                    if kinds != want_kinds:
                        t.violation({"kind": "sub-byte-leftover-not-a-mismatch", "opts": oi}, {"seq": [pi], "opts": opts, "via": task["via"], "subbyte": True},
                                    expected=want_kinds, observed=kinds, note="a packet whose definition ends inside its last byte is length-mismatched")
                if pi == AMBIGUOUS_INDEX and not opts["ccsds_headers_only"] and "root_container_name" not in opts:
                    # an absolute expectation (the comparison with the stream is relative): a packet that fits two children is reported
                    # as an error object when asked for, and not at all otherwise
                    kinds = [x[0] for x in solo[(oi, pi)]]
                    want_kinds = ["error"] if opts["yield_unrecognized_packet_errors"] else []
                    t.evals += 1
                    if kinds != want_kinds:
                        t.violation({"kind": "ambiguous-packet-not-reported", "opts": oi}, {"seq": [pi], "opts": opts, "via": task["via"], "ambiguous": True},
                                    expected=want_kinds, observed=kinds, note="a packet that satisfies two children of a concrete container is unrecognised")
        with case_alarm(900):
            for seq in task["seqs"]:
                stream = b"".join(pal[i] for i in seq)
                for oi, opts in enumerate(OPTS):
                    got, _ = run_stream(defn, stream, opts)
                    want = []
                    for i in seq:
                        want += solo[(oi, i)]
                        if want and want[-1][0] == "raised":
                            break  # an exception ends the generator: nothing after it can be yielded
                    t.evals += 1
                    t.transitions += len(seq)
                    t.traces += 1
                    t.outcomes[f"yielded={min(len(want), 4)}"] += 1
                    if any(g[0] == "error-whose-partial-data-is-not-the-packet" for g in got):
                        t.violation({"kind": "error-object-without-partial-data", "opts": oi}, {"seq": list(seq), "opts": opts, "via": task["via"]},
                                    observed=[g[0] for g in got], note="an unrecognised packet is reported by an error object whose partial_data is not the packet object")
                    if got != want:
                        first = next((j for j, (a, b) in enumerate(zip(got, want)) if a != b), min(len(got), len(want)))
                        t.violation({"kind": "stream-not-concatenation", "opts": oi, "headers_only": opts["ccsds_headers_only"]},
                                    {"seq": list(seq), "opts": opts, "via": task["via"]},
                                    expected=[w[0] for w in want], observed=[g[0] for g in got],
                                    note=f"first difference at item #{first}: got {str(got[first] if first < len(got) else None)[:200]} "
                                         f"want {str(want[first] if first < len(want) else None)[:200]}")
                t.nontrivial += len(set(seq)) >= 2
        # segment reassembly switched on: a LAST packet joins the open group of its APID only when its count follows on (modulo 16384); a
        # packet that is skipped (a LAST without its FIRST, a LAST after a gap of 1024 / 4096 / 16384 + 1024 packets) changes nothing else
        mk = framing.mk_packet
        segs = [mk(b"\x71", apid=4, seqflags=1, seqcount=40), mk(b"\x72", apid=4, seqflags=2, seqcount=41), mk(b"\x73", apid=4, seqflags=2, seqcount=40 + 1025),
                mk(b"\x74", apid=4, seqflags=2, seqcount=(40 + 4097) % 16384), mk(b"\x75", apid=4, seqflags=1, seqcount=16383), mk(b"\x76", apid=4, seqflags=2, seqcount=0),
                pal[1]]
        for n in (1, 2, 3):
            for seq in itertools.product(range(len(segs)), repeat=n):
                stream = b"".join(segs[i] for i in seq)
                open_ = None
                want = []
                for i in seq:
                    p_ = segs[i]
                    fl, cnt = (p_[2] >> 6) & 3, ((p_[2] & 0x3F) << 8) | p_[3]
                    if fl == 3:
                        want.append(p_)
                    elif fl == 1:
                        open_ = [(p_, cnt)]
                    elif open_ is not None and fl == 2:
                        if (cnt - open_[-1][1]) % 16384 == 1:
                            want.append(open_[0][0] + p_[6:])
                        open_ = None
                with observed_warnings():
                    try:
                        got = [bytes(x.raw_data) for x in defn.packet_generator(stream, combine_segmented_packets=True)]
                    except Exception as e:  # noqa: BLE001
                        got = [f"raised:{type(e).__name__}".encode()]
                t.evals += 1
                t.traces += 1
                if got != want:
                    t.violation({"kind": "segment-group-wrong", "n": n}, {"segments": list(seq), "via": task["via"], "combine": True},
                                expected=[w.hex() for w in want], observed=[g.hex() if isinstance(g, bytes) else g for g in got],
                                note="with combine_segmented_packets the yielded packets differ from the groups whose counts follow on")
        # groups of different sizes one after the other in ONE generator (a long group, then a short one, and the other way round; two APIDs):
        # each combined packet is its own segments and nothing else
        long_g = [mk(b"\x81\x82\x83", apid=4, seqflags=1, seqcount=100), mk(b"\x84\x85\x86\x87", apid=4, seqflags=0, seqcount=101), mk(b"\x88\x89", apid=4, seqflags=2, seqcount=102)]
        # (only the FIRST segment of the short group says it has a secondary header, and its last one is a type-1 packet: the group is its APID's)
        short_g = [mk(b"\x91", apid=4, seqflags=1, seqcount=200, shflag=1), mk(b"\x92", apid=4, seqflags=2, seqcount=201, type_=1)]
        other_g = [mk(b"\xa1", apid=6, seqflags=1, seqcount=300), mk(b"\xa2", apid=6, seqflags=2, seqcount=301)]
        for order in itertools.permutations((long_g, short_g, other_g)):
            for reps in (1, 2):
                groups = list(order) * reps
                stream = b"".join(p_ for g_ in groups for p_ in g_)
                want = [g_[0] + b"".join(q[6:] for q in g_[1:]) for g_ in groups]
                with observed_warnings():
                    try:
                        got = [bytes(x.raw_data) for x in defn.packet_generator(stream, combine_segmented_packets=True)]
                    except Exception as e:  # noqa: BLE001
                        got = [f"raised:{type(e).__name__}".encode()]
                t.evals += 1
                t.traces += 1
                if got != want:
                    t.violation({"kind": "segment-group-wrong", "sizes": True}, {"group_sizes": [len(g_) for g_ in groups], "via": task["via"], "combine": True},
                                expected=[w.hex() for w in want], observed=[g.hex() if isinstance(g, bytes) else g for g in got],
                                note="groups of different sizes in one generator: a combined packet is not exactly its own segments")
        # a raw packet object from the framer wrapped and parsed several times (header triage first, another definition object, ...)
        from space_packet_parser.packets import CCSDSPacket, ccsds_generator
        for pi, pb in enumerate(pal):
            raw_obj = next(ccsds_generator(pb))
            first = None
            for attempt_no, (d, root) in enumerate(((defn, None), (defn, None), (load_doc(doc), None), (defn, None))):
                with observed_warnings():
                    try:
                        out = d.parse_ccsds_packet(CCSDSPacket(raw_data=raw_obj))
                        r = ("packet", tuple(map(tuple, items_of(out))), out.raw_data.pos)
                    except Exception as e:  # noqa: BLE001
                        pd = getattr(e, "partial_data", None)
                        r = ("raised", exc_names(e)[0], tuple(map(tuple, items_of(pd))) if pd is not None else None)
                t.evals += 1
                if first is None:
                    first = r
                elif r != first:
                    t.violation({"kind": "reparse-differs", "attempt": attempt_no}, {"packet_index": pi, "via": task["via"]}, expected=first[:2], observed=r[:2],
                                note="parsing the same raw packet object again gives a different result")
                    break
            if raw_obj.pos != 0:
                t.violation({"kind": "parse-moved-callers-cursor"}, {"packet_index": pi, "via": task["via"]}, observed=raw_obj.pos,
                            note="parsing a packet built from a raw packet object moved that object's own cursor")
        after = canon_definition(defn)
        if after != before or ET.tostring(defn.to_xml_tree()) != xml_before:
            t.violation({"kind": "definition-modified"}, {"via": task["via"], "seqs": len(task["seqs"])},
                        note="canonical form or written XML of the definition changed after parsing")
        ch = footprint_changes(fp_before, package_footprint())
        if ch:
            t.notes.append("package-level state changed while the check ran (not a violation by itself): " + ", ".join(ch[:6]))
    if task["seqs"]:
        t.sample({"stream": list(task["seqs"][-1]), "palette": ["A-clean", "B-clean", "unrecognised", "A-too-long", "A-too-short", "unrecognised-with-a-recognised-APID", "raising (binary field beyond the end)", "FIRST segment", "LAST segment"], "options": "all 8 combinations + 2 with a per-call root container"})
    return t


# ----------------------------------------------------------------------------- interleavings
def seg_packets():
    """Two segmented streams (combine_segmented_packets=True), both using the S layout (APID 4) and APID 1."""
    mk = framing.mk_packet
    s3 = [mk(b"\x51", apid=4, seqflags=1, seqcount=5), mk(b"\x52", apid=4, seqflags=0, seqcount=6), mk(b"\x53", apid=4, seqflags=2, seqcount=7),
          mk(b"\x54", apid=4, seqflags=3, seqcount=8)]
    s4 = [mk(b"\x61", apid=4, seqflags=1, seqcount=16383), mk(bytes([0x40 | 0x15, 0xDE, 0xAD, 0x07, 0x41, 0x42]), apid=1, seqflags=3, seqcount=1),
          mk(b"\x62", apid=4, seqflags=2, seqcount=0), mk(b"\x63", apid=4, seqflags=0, seqcount=1), mk(b"\x64", apid=4, seqflags=1, seqcount=9),
          mk(b"\x65", apid=4, seqflags=2, seqcount=11)]
    return b"".join(s3), b"".join(s4)


def stream_specs():
    pal = palette_packets()
    s3, s4 = seg_packets()
    return [
        ("S1", b"".join(pal[i] for i in (0, 1, 2, 3)), {"yield_unrecognized_packet_errors": True}, "bytes"),
        ("S6", b"".join(pal[i] for i in (5, 0, 5, 3)), {"yield_unrecognized_packet_errors": True}, "bytes"),
        ("S2", b"".join(pal[i] for i in (1, 4, 0)), {"parse_bad_pkts": False}, "bytes"),
        ("S3", s3, {"combine_segmented_packets": True}, "bytes"),
        ("S4", s4, {"combine_segmented_packets": True, "yield_unrecognized_packet_errors": True}, "bytes"),
        ("S5", b"".join(pal[i] for i in (3, 2, 1)), {"yield_unrecognized_packet_errors": True, "buffer_read_size_bytes": 5}, "socket"),
        ("S7", b"".join(pal[i] for i in (0, 2, 1)), {"yield_unrecognized_packet_errors": True, "root_container_name": "RAWDUMP"}, "bytes"),
        ("S8", s3 + s3, {"combine_segmented_packets": True, "secondary_header_bytes": 1}, "bytes"),
    ]


def make_gen(defn, spec):
    name, data, opts, kind = spec
    if kind == "socket":
        src = ScriptedSocket(data, lambda n, remaining, key, sock: min(n, remaining, 3 if sock.calls % 2 else n), inspect=False)
    else:
        src = data
    return defn.packet_generator(src, **opts)


def step(g):
    try:
        return obs_item(next(g))
    except StopIteration:
        return ("stop",)
    except Exception as e:  # noqa: BLE001
        return ("raised", exc_names(e)[0], str(e)[:100])


class caller_filters:
    """The caller's warnings configuration for one run: every warning recorded ('always') or every warning an error ('error').  leaked is set
    when the filter list the caller installed is not the one in force when the run is over (generators all finished or abandoned)."""
    def __init__(self, mode):
        self.mode, self.leaked = mode, None

    def __enter__(self):
        import warnings
        self._cm = warnings.catch_warnings(record=self.mode == "always")
        self._cm.__enter__()
        warnings.simplefilter(self.mode)
        self._snap = list(warnings.filters)
        return self

    def __exit__(self, *exc):
        import warnings
        if self._snap is not None and list(warnings.filters) != self._snap:
            self.leaked = [f for f in warnings.filters if f not in self._snap][:3] or "entries removed"
        return self._cm.__exit__(*exc)


def sequential(defn, spec, mode="always"):
    with caller_filters(mode):
        g = make_gen(defn, spec)
        out = []
        while True:
            r = step(g)
            out.append(r)
            if r[0] in ("stop", "raised") or len(out) > 12:
                return out


def lattice_paths(counts):
    """All interleavings: sequences over generator indices where index i occurs counts[i] times."""
    def rec(rem, prefix):
        if not any(rem):
            yield tuple(prefix)
            return
        for i, r in enumerate(rem):
            if r:
                rem[i] -= 1
                prefix.append(i)
                yield from rec(rem, prefix)
                prefix.pop()
                rem[i] += 1
    yield from rec(list(counts), [])


def _task_interleave(task):
    t = Tally()
    doc = the_doc()
    with owned_clock():
        defn = load_doc(doc)
        before = canon_definition(defn)
        fp_before = package_footprint()
        specs = stream_specs()
        seqs_by_mode = {mode: {s[0]: sequential(defn, s, mode) for s in specs} for mode in ("always", "error")}
        states = set()
        with case_alarm(1800):
            for combo in task["combos"]:
                # the caller's warnings configuration: record everything, or (every other combination) turn every warning into an error
                mode = "error" if sum(combo) % 2 else "always"
                seqs = seqs_by_mode[mode]
                chosen = [specs[i] for i in combo]
                counts = [min(len(seqs[s[0]]), task["max_items"]) for s in chosen]
                for path in lattice_paths(counts):
                    with caller_filters(mode) as cf:
                        gens = [make_gen(defn, s) for s in chosen]
                        outs = [[] for _ in chosen]
                        posv = [0] * len(chosen)
                        for gi in path:
                            outs[gi].append(step(gens[gi]))
                            posv[gi] += 1
                            states.add((combo, tuple(posv)))
                            t.transitions += 1
                        if all(c == len(seqs[s[0]]) for c, s in zip(counts, chosen)):
                            for g in gens:
                                g.close()   # all ran to their end (or are closed now): nothing of theirs may stay behind
                        else:
                            cf._snap = None
                    if cf._snap is not None and cf.leaked:
                        t.violation({"kind": "warnings-filters-left-changed", "k": len(chosen)},
                                    {"combo": list(combo), "streams": [s[0] for s in chosen], "path": list(path), "max_items": task["max_items"], "warnings": mode},
                                    observed=str(cf.leaked)[:300], note="after all generators have finished, the process-wide warnings filter list is not the caller's any more")
                    t.evals += 1
                    t.traces += 1
                    bad = [i for i, s in enumerate(chosen) if outs[i] != seqs[s[0]][:counts[i]]]
                    t.outcomes[f"k={len(chosen)}"] += 1
                    if bad:
                        i = bad[0]
                        t.violation({"kind": "interleaving-interference", "k": len(chosen)},
                                    {"combo": list(combo), "streams": [s[0] for s in chosen], "path": list(path), "max_items": task["max_items"], "warnings": mode},
                                    expected=[x[0] for x in seqs[chosen[i][0]][:counts[i]]], observed=[x[0] for x in outs[i]],
                                    note=f"generator #{i} ({chosen[i][0]}) yields differently under this interleaving than sequentially")
                # a generator that is abandoned part-way (closed explicitly, or dropped and garbage collected) leaves the others alone
                if len(chosen) == 2:
                    import gc
                    for ka in range(counts[0] + 1):
                        for how in ("close", "drop"):
                            with caller_filters(mode):
                                ga, gb = make_gen(defn, chosen[0]), make_gen(defn, chosen[1])
                                first_b = [step(gb)] if counts[1] else []
                                for _ in range(ka):
                                    step(ga)
                                if how == "close":
                                    ga.close()
                                else:
                                    del ga
                                    gc.collect()
                                outb = first_b + [step(gb) for _ in range(max(0, counts[1] - 1))]
                            t.evals += 1
                            t.traces += 1
                            if outb != seqs[chosen[1][0]][:counts[1]]:
                                t.violation({"kind": "interleaving-interference", "k": 2, "abandoned": how},
                                            {"combo": list(combo), "streams": [s[0] for s in chosen], "abandon_after": ka, "how": how, "max_items": task["max_items"]},
                                            expected=[x[0] for x in seqs[chosen[1][0]][:counts[1]]], observed=[x[0] for x in outb],
                                            note=f"generator {chosen[1][0]} yields differently after generator {chosen[0][0]} was abandoned ({how}) after {ka} items")
                t.nontrivial += 1
        t.states = len(states)
        if canon_definition(defn) != before:
            t.violation({"kind": "definition-modified"}, {"where": "interleavings"}, note="definition changed")
        ch = footprint_changes(fp_before, package_footprint())
        if ch:
            t.notes.append("package-level state changed while the check ran (not a violation by itself): " + ", ".join(ch[:6]))
    if task["combos"]:
        t.sample({"generators": [specs[i][0] for i in task["combos"][0]], "interleavings": "all lattice paths of next() calls"})
    return t


def _task_threads(task):
    """Kernel E-thread: ONE definition decoding two packets on two real threads at the same time, under every interleaving of their packet
    accesses with at most `bound` preemptions: each decode gives what it gives alone, and the definition is unchanged."""
    from mc.threadexplore import explore, yielding_packet_class
    YP = yielding_packet_class()
    t = Tally()
    doc = the_doc()
    defn = load_doc(doc)
    before = canon_definition(defn)
    pal = palette_packets()

    def decode(pb, point=None):
        pkt = YP(raw_data=pb)
        if point is not None:
            pkt.__dict__["_pt"] = point
        with observed_warnings():
            try:
                out = defn.parse_ccsds_packet(pkt)
                return ("packet", tuple(map(tuple, items_of(out))), out.raw_data.pos)
            except Exception as e:  # noqa: BLE001
                pd = getattr(e, "partial_data", None)
                return ("raised", exc_names(e)[0], tuple(map(tuple, items_of(pd))) if pd is not None else None)
    solo = [decode(pb) for pb in pal]
    with case_alarm(1500):
        for (i, j) in task["pairs"]:
            want = (("ok", solo[i]), ("ok", solo[j]))

            def check(results, choices):
                t.evals += 1
                t.traces += 1
                t.transitions += len(choices)
                if tuple(results) != want:
                    bad = 0 if results[0] != want[0] else 1
                    t.violation({"kind": "concurrent-decodes-interfere", "thread": bad},
                                {"threads": True, "pair": [i, j], "schedule": list(choices), "bound": task["bound"]},
                                expected=str(want[bad])[:300], observed=str(results[bad])[:300],
                                note="two threads decoding different packets with one definition: a result differs from the decode alone")
            st = explore(lambda: [lambda point, pb=pal[i]: decode(pb, point), lambda point, pb=pal[j]: decode(pb, point)], check, bound=task["bound"], max_execs=50000)
            t.states += st["executions"]
            t.outcomes["threads"] += st["executions"]
            if st["capped"]:
                t.caps.append("thread interleavings capped at 50000 for one pair")
            t.nontrivial += 1
    if canon_definition(defn) != before:
        t.violation({"kind": "definition-modified"}, {"where": "threads"}, note="definition changed")
    return t


SIBLING_LITERALS = [1, 1.0, True, "1", "1.0", "True", "01", 2]
SIBLING_MODES = [b"1", b"1.0", b"True", b"01", b"2", b"2.0"]


def _sibling_definition(literal):
    """Header + a 5-byte text field MODE + one inheritor selected by MODE == literal, where the literal is handed to the public constructor as
    a Python number or as text; a number means its str()."""
    from space_packet_parser.xtce import comparisons, containers, definitions, encodings, parameter_types, parameters
    hdr = [("VERSION", 3), ("TYPE", 1), ("SEC_HDR_FLG", 1), ("PKT_APID", 11), ("SEQ_FLGS", 2), ("SRC_SEQ_CTR", 14), ("PKT_LEN", 16)]
    entries = [parameters.Parameter(nm, parameter_types.IntegerParameterType(nm + "_T", encodings.IntegerDataEncoding(nb, "unsigned"))) for nm, nb in hdr]
    entries.append(parameters.Parameter("MODE", parameter_types.StringParameterType(
        "MODE_T", encodings.StringDataEncoding(fixed_raw_length=40, termination_character="00"))))
    value = parameters.Parameter("VALUE", parameter_types.IntegerParameterType("VALUE_T", encodings.IntegerDataEncoding(8, "unsigned")))
    root = containers.SequenceContainer("CCSDSPacket", entries, abstract=True, inheritors=["Science"])
    sci = containers.SequenceContainer("Science", [value], base_container_name="CCSDSPacket", restriction_criteria=[comparisons.Comparison(literal, "MODE")])
    return definitions.XtcePacketDefinition([root, sci])


def _task_siblings(task):
    """Definitions that differ only in how the same-looking literal was handed over (1, 1.0, True, '1', ...), their generators advanced in
    lock step over one stream, in the given order of definitions: each sees exactly the packets whose MODE text is str(its literal)."""
    t = Tally()
    order = task["order"]
    stream = b"".join(framing.mk_packet(m.ljust(5, b"\x00") + bytes([i]), apid=11, seqcount=i) for i, m in enumerate(SIBLING_MODES))
    with observed_warnings(), case_alarm(120):
        defs = [_sibling_definition(SIBLING_LITERALS[i]) for i in order]
        gens = [d.packet_generator(stream, yield_unrecognized_packet_errors=True) for d in defs]
        got = [[] for _ in defs]
        for _ in SIBLING_MODES:
            for gi, g in enumerate(gens):
                try:
                    it = next(g)
                    got[gi].append("error" if isinstance(it, Exception) else ("packet", it["VALUE"].raw_value if "VALUE" in it else None))
                except StopIteration:
                    got[gi].append("stop")
                except Exception as e:  # noqa: BLE001
                    got[gi].append("raised:" + type(e).__name__)
                t.transitions += 1
        for gi, i in enumerate(order):
            want = [("packet", k) if m.decode() == str(SIBLING_LITERALS[i]) else "error" for k, m in enumerate(SIBLING_MODES)]
            t.evals += 1
            t.traces += 1
            if got[gi] != want:
                t.violation({"kind": "sibling-definitions-interfere", "literal": repr(SIBLING_LITERALS[i])},
                            {"siblings": True, "order": list(order), "literal": repr(SIBLING_LITERALS[i])}, expected=want, observed=got[gi],
                            note="a definition's generator, advanced in lock step with generators of sibling definitions, does not yield what its own literal selects")
    t.nontrivial += 1
    return t


def run(ctx):
    n = len(palette_packets())
    seqs = [s for k in range(1, 5) for s in itertools.product(range(n), repeat=k) if not (ctx.quick and k == 4 and (sum(s) + s[0]) % 2)]
    tasks = [{"seqs": ch, "via": "xml"} for ch in chunked(seqs, 24)] + [{"seqs": seqs[::7], "via": "objects"}]
    tally = fan_out(_task_streams, tasks, jobs=ctx.jobs, seed=ctx.seed)
    ns = len(stream_specs())
    pairs = list(itertools.product(range(ns), repeat=2))
    itasks = [{"combos": [c], "max_items": 6} for c in pairs]
    triples = [c for c in itertools.product(range(ns), repeat=3) if len(set(c)) >= 2][:: (6 if ctx.quick else 1)]
    itasks += [{"combos": [c], "max_items": 2 if ctx.quick else 3} for c in triples]
    t2 = fan_out(_task_interleave, itasks, jobs=ctx.jobs, seed=ctx.seed)
    tally.merge(t2)
    npal = len(palette_packets())
    tpairs = [(i, j) for i in range(npal) for j in range(npal)]
    core = [(i, j) for i in (0, 1, 3, 9, 10) for j in (0, 1, 3, 9, 10) if i < j]
    tally.merge(fan_out(_task_threads, [{"pairs": ch, "bound": 1 if ctx.quick else 2} for ch in chunked(tpairs, 16 if ctx.quick else 64)]
                        + [{"pairs": [pr], "bound": 2 if ctx.quick else 3} for pr in core], jobs=ctx.jobs, seed=ctx.seed))
    # one worker process per order, so that each order is the first use of the library in its process
    orders = [p for p in itertools.permutations(range(len(SIBLING_LITERALS)), 3)][:: (4 if ctx.quick else 1)] + [tuple(range(len(SIBLING_LITERALS))), tuple(reversed(range(len(SIBLING_LITERALS))))]
    tally.merge(fan_out(_task_siblings, [{"order": o} for o in orders], jobs=ctx.jobs, seed=ctx.seed))
    coverage = {
        "states": tally.states,
        "transitions": tally.transitions,
        "traces_validated_against_impl": tally.traces,
        "exhaustive": True,
        "bound": (f"(i) every stream of <= 4 packets (quick tier: every other stream of 4) over a 13-packet palette ({len(seqs)} streams) x all 8 combinations of parse_bad_pkts / "
                  "yield_unrecognized_packet_errors / ccsds_headers_only (+ 2 with root_container_name naming a stand-alone container for that call, + 2 headers-only runs with combine_segmented_packets; "
                  "every stream of <= 3 packets over FIRST/LAST segments whose counts follow on or differ by 1025 / 4097 / wrap, with combine_segmented_packets) "
                  "vs. per-packet solo results on fresh definitions; (ii) k=2: every ordered pair of 8 generators "
                  "(two with combine_segmented_packets, one over a scripted socket, one with a per-call root container) x ALL lattice-path interleavings of their next() calls up to exhaustion, and one generator abandoned (closed, or dropped and collected) after every number of items while the other runs on; "
                  f"k=3: {len(triples)} triples with <= {2 if ctx.quick else 3} steps each, all interleavings; (iii) definition canon + written XML unchanged; "
                  "(iv) package footprint unchanged, and the caller's warnings filter list back in force once all generators of an interleaving have finished (the caller records every warning, or - every other combination - turns every warning into an error); (vi) kernel E-thread: one definition decoding two packets on two real threads at once, every ordered pair of palette packets, every interleaving of their packet accesses with at most "
                  f"{1 if ctx.quick else 2} preemption(s), and with one more on the 10 pairs of packets that decode user data; (v) sibling definitions built with the public constructors that differ only in how the discriminating literal was handed over "
                  f"(1, 1.0, True, '1', '1.0', 'True', '01', 2), generators advanced in lock step over one stream: {len(orders)} orders of 3 (and all 8 in both directions)"),
        "rule": ("one evaluation = one stream run or one complete interleaving; states = distinct (generator combination, position vector) pairs; "
                 "transitions = next() calls; non-trivial = streams with >= 2 distinct packets and generator combinations"),
    }
    return {"level": LEVEL, "tally": tally, "coverage": coverage,
            "assumptions": ["single-threaded interleaving of next() calls (the library has no threads)", "clock owned"]}


def replay(case):
    if "seq" in case:
        t = _task_streams({"seqs": [tuple(case["seq"])], "via": case.get("via", "xml")})
        for v in t.violations:
            if v["case"].get("opts") == case.get("opts"):
                return v
        return t.violations[0] if t.violations else None
    if case.get("threads"):
        t = _task_threads({"pairs": [tuple(case["pair"])], "bound": case.get("bound", 1)})
        return t.violations[0] if t.violations else None
    if case.get("siblings"):
        t = _task_siblings({"order": tuple(case["order"])})
        return next((v for v in t.violations if v["case"]["literal"] == case["literal"]), None)
    if "combo" in case:
        t = _task_interleave({"combos": [tuple(case["combo"])], "max_items": case.get("max_items", 6)})
        return t.violations[0] if t.violations else None
    t = _task_streams({"seqs": [(0, 1, 2, 3)], "via": case.get("via", "xml")})
    return t.violations[0] if t.violations else None


def repro_py(case):
    return f"# case {case!r}\n# streams are built by mc.checks.c11.palette_packets(); ./check C11 --replay <file> re-executes it\n"
