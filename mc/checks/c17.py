"""C17 — A loaded definition is a consistent object graph; broken documents fail at load.

E-prod.  Consistency on every document of the C05 tree family (<= 4 containers, both document
orders), palette documents and the bundled documents.  Corruptions: EVERY single-point corruption
of each document of a core set: each parameterRef / containerRef (nested and base) /
parameterTypeRef renamed to an undefined name; each type / parameter / container duplicated
verbatim and duplicated with one change; each deleted; a self reference, a base cycle, a nesting
cycle and a mixed cycle introduced at each container.
"""
from __future__ import annotations

import io
import os

from mc import REPO_ROOT
from mc.checks import c01, c05
from mc.checks.c09 import BUNDLED
from mc.kernel import CaseTimeout, Tally, case_alarm, chunked, fan_out
from mc.spec import El, doc_tree, load_doc, render_xml

PROP = "C17"
LEVEL = "exploration"


# ----------------------------------------------------------------------------- consistency oracle
def consistency_problems(defn):
    probs = []
    pts, prs, cts = defn.parameter_types, defn.parameters, defn.containers
    for name, pt in pts.items():
        if getattr(pt, "name", None) != name:
            probs.append(f"parameter_types[{name!r}] is named {getattr(pt, 'name', None)!r}")
    for name, p in prs.items():
        if p.name != name:
            probs.append(f"parameters[{name!r}] is named {p.name!r}")
        ptn = p.parameter_type.name
        if pts.get(ptn) is not p.parameter_type:
            probs.append(f"parameter {name} holds a parameter type {ptn} that is not the registered object")
    want_inh = {n: [] for n in cts}
    for name, c in cts.items():
        if c.name != name:
            probs.append(f"containers[{name!r}] is named {c.name!r}")
        for e in c.entry_list:
            ename = getattr(e, "name", None)
            if hasattr(e, "entry_list"):
                if cts.get(ename) is not e:
                    probs.append(f"container {name} nests a container {ename} that is not the registered object")
            elif hasattr(e, "parameter_type"):
                if prs.get(ename) is not e:
                    probs.append(f"container {name} lists a parameter {ename} that is not the registered object")
            else:
                probs.append(f"container {name} has an entry of unknown kind {type(e).__name__}")
        b = c.base_container_name
        if b is not None:
            if b not in cts:
                probs.append(f"container {name} has an undefined base {b}")
            else:
                want_inh[b].append(name)
    for name, c in cts.items():
        got = list(c.inheritors)
        if sorted(got) != sorted(want_inh[name]):
            probs.append(f"container {name}: inheritors {got} != containers naming it as base {want_inh[name]}")
        if len(set(got)) != len(got):
            probs.append(f"container {name}: inheritor listed more than once {got}")
    return probs


# ----------------------------------------------------------------------------- tree helpers
def clone(e: El) -> El:
    return El(e.tag, dict(e.attrs), [clone(k) for k in e.children], e.text)


def find_set(tree: El, tag: str) -> El:
    tm = next(k for k in tree.children if k.tag == "TelemetryMetaData")
    return next(k for k in tm.children if k.tag == tag)


def walk(e: El):
    yield e
    for k in e.children:
        yield from walk(k)


def corruptions(doc):
    """Yields (label, expect, tree) with expect in {'reject', 'either', 'load'}."""
    base = doc_tree(doc)
    pset, tset, cset = find_set(base, "ParameterSet"), find_set(base, "ParameterTypeSet"), find_set(base, "ContainerSet")
    used_types = {p.attrs["parameterTypeRef"] for p in pset.children}
    used_params = {e.attrs["parameterRef"] for c in cset.children for e in walk(c) if e.tag == "ParameterRefEntry"}
    used_conts = {e.attrs["containerRef"] for c in cset.children for e in walk(c) if e.tag in ("ContainerRefEntry", "BaseContainer")}

    def nth(tree, tag, n):
        return [e for e in walk(tree) if e.tag == tag][n]

    # --- dangling references
    for tag, attr in (("ParameterRefEntry", "parameterRef"), ("ContainerRefEntry", "containerRef"), ("BaseContainer", "containerRef"),
                      ("Parameter", "parameterTypeRef")):
        n = len([e for e in walk(base) if e.tag == tag])
        for i in range(n):
            t = clone(base)
            e = nth(t, tag, i)
            if tag == "Parameter" and e.attrs["name"] not in used_params:
                expect = "reject"  # the parameter set is resolved eagerly; an undefined type is a dangling reference regardless
            else:
                expect = "reject"
            orig = e.attrs[attr]
            e.attrs[attr] = "UNDEFINED_NAME_X"
            yield f"dangling:{tag}#{i}", expect, t
            # names that merely resemble a defined one are just as undefined: a path-like qualification, another letter case, a trailing blank
            # (one of them per reference, in rotation)
            t = clone(base)
            alt = (f"nowhere/{orig}", f"/{orig}", orig.swapcase(), orig + " ", f"{orig}/{orig}")[i % 5]
            if alt != orig:
                nth(t, tag, i).attrs[attr] = alt
                yield f"dangling-lookalike:{tag}#{i}:{('qualified', 'rooted', 'other-case', 'trailing-blank', 'doubled')[i % 5]}", expect, t
    # --- a container that only a NESTED space system defines is not defined for the root's references: the definition moves from the root's
    # ContainerSet into <SpaceSystem name="CHILD"><TelemetryMetaData><ContainerSet> (the root keeps its references to it)
    for i, c in enumerate(cset.children):
        name = c.attrs["name"]
        if name not in used_conts:
            continue
        t = clone(base)
        cs = find_set(t, "ContainerSet")
        moved = cs.children.pop(i)
        t.children.append(El("SpaceSystem", {"name": "CHILD"}, [El("TelemetryMetaData", children=[El("ContainerSet", children=[moved])])]))
        yield f"defined-only-in-nested-space-system:{name}", "reject", t
    # --- duplicates and deletions
    for set_tag, members_used, change in (("ParameterTypeSet", used_types, "type"), ("ParameterSet", used_params, "param"),
                                          ("ContainerSet", used_conts, "cont")):
        n = len(find_set(base, set_tag).children)
        for i in range(n):
            name = find_set(base, set_tag).children[i].attrs["name"]
            # verbatim duplicate (appended at the end, and inserted right after)
            for where in ("end", "after"):
                t = clone(base)
                s = find_set(t, set_tag)
                dup = clone(s.children[i])
                if where == "end":
                    s.children.append(dup)
                else:
                    s.children.insert(i + 1, dup)
                yield f"dup-verbatim:{set_tag}:{name}:{where}", ("either" if change == "cont" else "reject"), t
            # duplicate with one change
            variants = []
            if change == "type":
                def ch_type(d):
                    encs = [e for e in walk(d) if e.tag in ("IntegerDataEncoding", "FloatDataEncoding")]
                    if encs:
                        encs[0].attrs["sizeInBits"] = "32" if encs[0].attrs.get("sizeInBits") != "32" else "64"
                    else:
                        d.children.insert(0, El("UnitSet", children=[El("Unit", text="changed")]))
                variants.append(ch_type)
            elif change == "param":
                def ch_param(d):
                    d.attrs["shortDescription"] = "a different description"
                variants.append(ch_param)
            else:
                def ch_abs(d):
                    d.attrs["abstract"] = "false" if d.attrs.get("abstract") == "true" else "true"

                def ch_entry(d):
                    el = next(k for k in d.children if k.tag == "EntryList")
                    if el.children:
                        el.children.pop()
                    else:
                        d.attrs["shortDescription"] = "changed"

                def ch_descr(d):
                    d.attrs["shortDescription"] = "a different description"
                variants += [ch_abs, ch_entry, ch_descr]
                # the duplicate differs only in how it hangs in the hierarchy: another base, no base, a base it did not have, an undefined
                # base, other restriction criteria, no restriction criteria
                orig = find_set(base, set_tag).children[i]
                has_base = any(k.tag == "BaseContainer" for k in orig.children)
                others = [c.attrs["name"] for c in find_set(base, "ContainerSet").children if c.attrs["name"] != name]

                def _bc(d):
                    return next(k for k in d.children if k.tag == "BaseContainer")
                if has_base:
                    cur = _bc(orig).attrs["containerRef"]
                    alt = next((o for o in others if o != cur), None)
                    if alt:
                        variants.append(lambda d, alt=alt: _bc(d).attrs.__setitem__("containerRef", alt))
                    variants.append(lambda d: d.children.remove(_bc(d)))
                    variants.append(lambda d: _bc(d).attrs.__setitem__("containerRef", "UNDEFINED_NAME_X"))
                    if _bc(orig).children:
                        variants.append(lambda d: _bc(d).children.clear())

                        def ch_crit(d):
                            for e in walk(_bc(d)):
                                if e.tag == "Comparison":
                                    e.attrs["value"] = e.attrs["value"] + "9"
                                    return
                                if e.tag == "Value" and e.text is not None:
                                    e.text = e.text + "9"
                                    return
                            for e in walk(_bc(d)):   # a comparison of two parameters: the other relation
                                if e.tag == "ComparisonOperator":
                                    e.text = "!=" if e.text == "==" else "=="
                                    return
                        variants.append(ch_crit)
                        # the duplicate differs only in that one AND/OR group of its criteria has one more member at the end: one more
                        # condition, or one more nested group of the other kind
                        GROUPS = ("ANDedConditions", "ORedConditions")
                        n_groups = sum(1 for e in walk(_bc(orig)) if e.tag in GROUPS)
                        any_cond = next((e for e in walk(_bc(orig)) if e.tag == "Condition"), None)
                        for g in range(n_groups if any_cond is not None else 0):
                            def ch_more_cond(d, g=g):
                                grp = [e for e in walk(_bc(d)) if e.tag in GROUPS][g]
                                grp.children.append(clone(next(e for e in walk(_bc(d)) if e.tag == "Condition")))

                            def ch_more_group(d, g=g):
                                grp = [e for e in walk(_bc(d)) if e.tag in GROUPS][g]
                                c0 = next(e for e in walk(_bc(d)) if e.tag == "Condition")
                                grp.children.append(El(GROUPS[1 - GROUPS.index(grp.tag)], children=[clone(c0), clone(c0)]))

                            def ch_fewer(d, g=g):
                                grp = [e for e in walk(_bc(d)) if e.tag in GROUPS][g]
                                if len(grp.children) > 2:
                                    grp.children.pop()
                                else:
                                    grp.children.append(clone(grp.children[-1]))
                            variants += [ch_more_cond, ch_more_group, ch_fewer]
                    else:
                        variants.append(lambda d: _bc(d).children.append(El("RestrictionCriteria", children=[El("Comparison", {"parameterRef": "PKT_APID", "value": "77"})])))
                elif others:
                    def ch_addbase(d, ref=others[0]):
                        idx = next(j for j, k in enumerate(d.children) if k.tag == "EntryList")
                        d.children.insert(idx, El("BaseContainer", {"containerRef": ref}))
                    variants.append(ch_addbase)
                # an entry of the duplicate refers to the CONTAINER of a name where the original refers to the PARAMETER of that name (names
                # shared across kinds): same entry names, another layout
                cont_names = {c.attrs["name"] for c in find_set(base, "ContainerSet").children}
                el0 = next(k for k in find_set(base, set_tag).children[i].children if k.tag == "EntryList")
                swappable = [j for j, e in enumerate(el0.children) if e.tag == "ParameterRefEntry" and e.attrs["parameterRef"] in cont_names
                             and e.attrs["parameterRef"] != name and e.attrs["parameterRef"] not in ("CCSDSPacket",)]
                if swappable:
                    def ch_kind(d, j=swappable[0]):
                        el = next(k for k in d.children if k.tag == "EntryList")
                        ref = el.children[j].attrs["parameterRef"]
                        el.children[j] = El("ContainerRefEntry", {"containerRef": ref})
                    variants.append(ch_kind)
            for vi, fn in enumerate(variants):
                for where in ("end", "after"):
                    t = clone(base)
                    s = find_set(t, set_tag)
                    dup = clone(s.children[i])
                    fn(dup)
                    if where == "end":
                        s.children.append(dup)
                    else:
                        s.children.insert(i + 1, dup)
                    yield f"dup-changed:{set_tag}:{name}:v{vi}:{where}", "reject", t
            # deletion
            t = clone(base)
            s = find_set(t, set_tag)
            del s.children[i]
            yield f"delete:{set_tag}:{name}", ("reject" if name in members_used else "load"), t
    # --- cycles
    conts = [c.attrs["name"] for c in cset.children]

    def cont(t, name):
        return next(c for c in find_set(t, "ContainerSet").children if c.attrs["name"] == name)

    def set_base(c, ref):
        for k in c.children:
            if k.tag == "BaseContainer":
                k.attrs["containerRef"] = ref
                return
        idx = next(i for i, k in enumerate(c.children) if k.tag == "EntryList")
        c.children.insert(idx, El("BaseContainer", {"containerRef": ref}))

    def add_nest(c, ref):
        next(k for k in c.children if k.tag == "EntryList").children.append(El("ContainerRefEntry", {"containerRef": ref}))

    for x in conts:
        t = clone(base)
        set_base(cont(t, x), x)
        yield f"cycle:self-base:{x}", "reject", t
        t = clone(base)
        add_nest(cont(t, x), x)
        yield f"cycle:self-nest:{x}", "reject", t
        for y in conts:
            if y == x:
                continue
            t = clone(base)
            set_base(cont(t, x), y)
            set_base(cont(t, y), x)
            yield f"cycle:base:{x}<->{y}", "reject", t
            t = clone(base)
            add_nest(cont(t, x), y)
            add_nest(cont(t, y), x)
            yield f"cycle:nest:{x}<->{y}", "reject", t
            t = clone(base)
            set_base(cont(t, x), y)
            add_nest(cont(t, y), x)
            yield f"cycle:mixed:{x} base {y}, {y} nests {x}", "reject", t


_LOADS = [0]


def try_load(xml: bytes, root="CCSDSPacket"):
    from space_packet_parser.xtce.definitions import XtcePacketDefinition
    _LOADS[0] += 1
    try:
        with case_alarm(30):
            if _LOADS[0] % 3 == 0:
                # the documented front door, on a file path that this process has used before with other contents
                import space_packet_parser
                from mc import VERIF_ROOT
                path = os.path.join(VERIF_ROOT, ".work", f"c17_{os.getpid()}.xml")
                os.makedirs(os.path.dirname(path), exist_ok=True)
                with open(path, "wb") as f:
                    f.write(xml)
                d = space_packet_parser.load_xml(path)
            else:
                d = XtcePacketDefinition.from_xtce(io.BytesIO(xml), root_container_name=root)
        return "loaded", d
    except CaseTimeout:
        return "timeout", None
    except BaseException as e:  # noqa: BLE001 - includes RecursionError
        return "raised", type(e).__name__


def core_docs(tier):
    out = []
    specs = c05.all_specs("quick")
    picks = [s for s in specs if s["n"] == 3 and not s["other_names"]][:: (211 if tier == "quick" else 67)]
    for s in picks:
        out.append(("trees", s))
    ki = {k.name: i for i, k in enumerate(c01.pal())}
    combos = [((ki["u8+ctx3(earlier)+default"], ki["str-dyn(raw ref, x8)"]), 3), ((ki["enum-u2"], ki["bin-lookup"]), 2),
              ((ki["u3"], ki["bin-dyn(raw ref, x8)"], ki["abstime-u32(scale,offset,units,epoch)"]), 3),
              ((ki["str-lookup(3 entries)"], ki["f32be"]), 1), ((ki["u3+poly(2x)"], ki["bin-dyn(calibrated ref, x8)"]), 2)]
    for c in combos:
        out.append(("palette", c))
    out.append(("collide", 0))
    out.append(("collide", 3))
    out.append(("collide", 5))
    out.append(("collide", 8))
    return out


def collide_doc(variant: int):
    """Names shared ACROSS kinds (a parameter type, a parameter and a container may all be called STATUS: the three sets are separate
    name spaces), in both document orders and with the shared name also used for a nested container."""
    from mc.spec import Cmp, Container, Doc, IntEnc, Param, PType, header_entries, header_params, header_ptypes
    pts = header_ptypes() + (PType("STATUS", "Integer", IntEnc(8)), PType("NEST", "Integer", IntEnc(4)))
    prs = header_params() + (Param("STATUS", "STATUS"), Param("NEST", "NEST"), Param("CCSDSPacket", "NEST"), Param("TAIL", "STATUS"))
    # variant & 4: the nested container's name is padded with blanks (spelled the same wherever it is referenced): a name is the exact string
    nn = " NEST  " if variant & 4 else "NEST"
    if variant & 8:
        nn = 'N\'E"ST'   # an apostrophe and a double quote are ordinary characters of a name
    # RESERVED has an empty entry list (a placeholder block) and is nested by two containers, once before and once after its own element
    conts = [Container("CCSDSPacket", header_entries(), abstract=True),
             Container("STATUS", (("p", "STATUS"), ("c", nn), ("c", "RESERVED"), ("p", "TAIL")), base="CCSDSPacket", criteria=(Cmp("PKT_APID", "==", "1"),)),
             Container(nn, (("p", "NEST"), ("p", "CCSDSPacket"))),
             Container("RESERVED", ()),
             Container("TAIL", (("c", nn), ("c", "RESERVED"), ("p", "STATUS"), ("c", "RESERVED")), base="CCSDSPacket", criteria=(Cmp("PKT_APID", "==", "2"),))]
    if variant & 1:
        conts = list(reversed(conts))
    if variant & 2:
        conts = conts[1:] + conts[:1]
    return Doc(pts, prs, tuple(conts))


def make_doc(item):
    fam, x = item
    if fam == "palette":
        return c01.compose(tuple(x[0]), x[1])
    if fam == "collide":
        return collide_doc(x)
    return c05.make_doc(**x)


def _task_corrupt(task):
    t = Tally()
    for item in task["items"]:
        doc = make_doc(item)
        st, d = try_load(render_xml(doc), doc.root)
        if st != "loaded":
            t.violation({"kind": "core-document-does-not-load"}, {"item": item}, observed=d)
            continue
        n = 0
        for label, expect, tree in corruptions(doc):
            xml = render_xml(doc, tree=tree)
            st, d = try_load(xml, doc.root)
            t.evals += 1
            n += 1
            klass = (label.split(":")[0] + ":" + label.split(":")[1]).split("#")[0]
            t.outcomes[f"{klass} -> {st}"] += 1
            case = {"item": item, "corruption": label}
            if st == "timeout":
                t.violation({"kind": "load-does-not-terminate", "corruption": klass}, case)
            elif expect == "reject" and st == "loaded":
                t.violation({"kind": "broken-document-accepted", "corruption": klass}, case,
                            note="a corrupted document loaded instead of being rejected")
            elif st == "loaded":
                probs = consistency_problems(d)
                if probs:
                    t.violation({"kind": "inconsistent-graph", "corruption": klass}, case, observed=probs[:5])
            elif expect == "load" and st == "raised":
                t.violation({"kind": "valid-document-rejected", "corruption": klass, "exc": d}, case, observed=d,
                            note="deleting an unreferenced definition must not make the document unloadable")
        t.nontrivial += n
        t.programs += 1
    if task["items"]:
        t.sample({"document": task["items"][0], "corruptions": "every dangling ref / duplicate / deletion / cycle"})
    return t


def _task_consistency(task):
    t = Tally()
    for item in task["items"]:
        try:
            with case_alarm(60):
                doc = make_doc(item)
                for style in ("xtce", "default"):
                    # the second rendering always carries the schema's optional decorations (descriptions on entries, ancillary data ...)
                    d = load_doc(doc, style, extra_attrs=(style == "default"))
                    t.evals += 1
                    probs = consistency_problems(d)
                    t.outcomes["consistent" if not probs else "inconsistent"] += 1
                    if probs:
                        t.violation({"kind": "inconsistent-graph", "corruption": "none"}, {"item": item, "style": style}, observed=probs[:5])
            t.programs += 1
            t.nontrivial += 1
        except BaseException as e:  # noqa: BLE001
            t.violation({"kind": "check-aborted", "exc": type(e).__name__}, {"item": item}, observed=repr(e)[:200])
    return t


def _task_bundled(task):
    from space_packet_parser.xtce.definitions import XtcePacketDefinition
    t = Tally()
    path, prefix, root, data, skip = task["item"]
    try:
        with case_alarm(900):
            d = XtcePacketDefinition.from_xtce(os.path.join(REPO_ROOT, path), xtce_ns_prefix=prefix, root_container_name=root)
            probs = consistency_problems(d)
            t.evals += 1
            t.programs += 1
            t.nontrivial += 1
            t.outcomes["consistent" if not probs else "inconsistent"] += 1
            if probs:
                t.violation({"kind": "inconsistent-graph", "corruption": "none"}, {"path": path}, observed=probs[:5])
    except BaseException as e:  # noqa: BLE001
        t.violation({"kind": "check-aborted", "exc": type(e).__name__}, {"path": path}, observed=repr(e)[:200])
    return t


def run(ctx):
    core = core_docs(ctx.tier)
    tally = fan_out(_task_corrupt, [{"items": [it]} for it in core], jobs=ctx.jobs, seed=ctx.seed)
    specs = c05.all_specs(ctx.tier)
    if ctx.quick:
        specs = specs[::2]
    else:
        specs = specs[::3]
    items = [("collide", v) for v in range(12)] + [("trees", s) for s in specs] + [("palette", ((a, b), (a + b) % 3 + 1)) for a in range(len(c01.pal())) for b in range(0, len(c01.pal()), 5)]
    tally.merge(fan_out(_task_consistency, [{"items": ch} for ch in chunked(items, 128)], jobs=ctx.jobs, seed=ctx.seed))
    tally.merge(fan_out(_task_bundled, [{"item": it} for it in BUNDLED], jobs=ctx.jobs, mem_gib=None))
    coverage = {
        "programs": tally.programs,
        "exhaustive": True,
        "bound": (f"consistency of {len(items)} generated documents (container trees with <= {3 if ctx.quick else 4} containers in both document orders, palette "
                  f"pairs) in two namespace spellings and of {len(BUNDLED)} bundled documents; EVERY single-point corruption of {len(core)} core documents: each "
                  "parameterRef / nested containerRef / base containerRef / parameterTypeRef renamed to an undefined name; each type, parameter and container "
                  "duplicated verbatim (2 positions) and with one change (2 positions; containers: abstract flag, an entry, the description, and for every AND/OR group of its criteria one more trailing condition / one more trailing nested group / one member fewer); each deleted; "
                  "self base, self nesting, base cycle, nesting cycle and mixed cycle for every container (pair)"),
        "rule": "one evaluation = one load attempt (plus graph audit when it loads); distinct non-trivial = distinct corruptions and distinct audited documents",
    }
    return {"level": LEVEL, "tally": tally, "coverage": coverage,
            "assumptions": ["every third load goes through space_packet_parser.load_xml on a file path re-used with other contents", "'rejected at load' = from_xtce raises any exception (RecursionError for cycles) within 30 s",
                            "a verbatim duplicate of a container may be rejected or tolerated; if tolerated the graph must be consistent"]}


def replay(case):
    if "corruption" not in case:
        t = _task_consistency({"items": [_fix_item(case["item"])]}) if "item" in case else Tally()
        return t.violations[0] if t.violations else None
    item = _fix_item(case["item"])
    doc = make_doc(item)
    for label, expect, tree in corruptions(doc):
        if label == case["corruption"]:
            st, d = try_load(render_xml(doc, tree=tree), doc.root)
            klass = (label.split(":")[0] + ":" + label.split(":")[1]).split("#")[0]
            if st == "timeout":
                return {"sig": {"kind": "load-does-not-terminate", "corruption": klass}, "case": case}
            if expect == "reject" and st == "loaded":
                return {"sig": {"kind": "broken-document-accepted", "corruption": klass}, "case": case}
            if st == "loaded" and consistency_problems(d):
                return {"sig": {"kind": "inconsistent-graph", "corruption": klass}, "case": case, "observed": consistency_problems(d)[:5]}
            if expect == "load" and st == "raised":
                return {"sig": {"kind": "valid-document-rejected", "corruption": klass, "exc": d}, "case": case}
            return None
    return None


def _fix_item(item):
    fam, x = item
    if fam == "trees":
        x = dict(x)
        x["parents"] = tuple(x["parents"])
        x["crits"] = tuple(x["crits"])
        return (fam, x)
    if fam == "collide":
        return (fam, x)
    return (fam, (tuple(x[0]), x[1]))


def repro_py(case):
    return f"# {case!r}\n# ./check C17 --replay <this file> rebuilds the document, applies the corruption and loads it\n"
