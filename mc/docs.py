"""Helpers that assemble DocSpec documents and packets for the E-prod checks."""
from __future__ import annotations

from mc import framing
from mc.spec import (Cmp, Container, Doc, IntEnc, Param, PType, header_entries, header_params, header_ptypes)


def selector_doc(variants, extra_ptypes=(), extra_params=(), root_abstract=True, apid_name="PKT_APID",
                 header_names=None, name="SEL"):
    """A document whose abstract root holds the CCSDS header and whose children are selected by APID.

    variants: list of (ptypes, params, entries) where entries is a tuple of ('p'|'c', name);
    variant i is selected by APID == i.  Types and parameters are de-duplicated by name.
    """
    from mc.spec import HEADER_NAMES
    names = header_names or HEADER_NAMES
    ptypes = {p.name: p for p in header_ptypes()}
    params = {p.name: p for p in header_params(names)}
    for p in extra_ptypes:
        ptypes.setdefault(p.name, p)
    for p in extra_params:
        params.setdefault(p.name, p)
    conts = [Container("CCSDSPacket", header_entries(names), abstract=root_abstract)]
    for i, (pts, prs, entries) in enumerate(variants):
        for p in pts:
            if p.name in ptypes and ptypes[p.name] != p:
                raise ValueError(f"conflicting parameter type {p.name}")
            ptypes.setdefault(p.name, p)
        for p in prs:
            if p.name in params and params[p.name] != p:
                raise ValueError(f"conflicting parameter {p.name}")
            params.setdefault(p.name, p)
        conts.append(Container(f"V{i}", tuple(entries), base="CCSDSPacket", criteria=(Cmp(names[3], "==", str(i)),)))
    return Doc(tuple(ptypes.values()), tuple(params.values()), tuple(conts), name=name)


def pad_type(bits: int) -> PType:
    return PType(f"PAD{bits}_T", "Integer", IntEnc(bits))


def bits_to_payload(bits: str) -> bytes:
    assert len(bits) % 8 == 0 and bits
    return int(bits, 2).to_bytes(len(bits) // 8, "big")


def packet_for(apid: int, payload_bits: str, **kw) -> bytes:
    return framing.mk_packet(bits_to_payload(payload_bits), apid=apid, **kw)


def framed_field_variant(ptype: PType, offset: int, width: int, tag: str):
    """[PAD offset bits] field [SENT u8] [TPAD to a byte boundary] -> (ptypes, params, entries, tail_pad_bits)."""
    pts, prs, ents = [ptype], [], []
    if offset:
        pts.append(pad_type(offset))
        prs.append(Param(f"PAD_{tag}", f"PAD{offset}_T"))
        ents.append(("p", f"PAD_{tag}"))
    prs.append(Param(f"F_{tag}", ptype.name))
    ents.append(("p", f"F_{tag}"))
    pts.append(PType("SENT_T", "Integer", IntEnc(8)))
    prs.append(Param(f"SENT_{tag}", "SENT_T"))
    ents.append(("p", f"SENT_{tag}"))
    tail = (-(offset + width + 8)) % 8
    if tail:
        pts.append(pad_type(tail))
        prs.append(Param(f"TPAD_{tag}", f"PAD{tail}_T"))
        ents.append(("p", f"TPAD_{tag}"))
    return pts, prs, ents, tail
