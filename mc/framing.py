"""Framing reference model, packet palettes and source constructors shared by C02 / C10 / C13 / C19."""
from __future__ import annotations

import ast
import itertools
import os
import types

from mc import REPO_ROOT


def mk_packet(data: bytes, *, version=0, type_=0, shflag=0, apid=1, seqflags=3, seqcount=0) -> bytes:
    """Independent CCSDS packet builder (string formatting, no shifts)."""
    # data beyond 65536 bytes: a "packet" as segment reassembly hands it to the decoder (the length field keeps the low 16 bits)
    assert 1 <= len(data)
    bits = (format(version, "03b") + format(type_, "01b") + format(shflag, "01b") + format(apid, "011b")
            + format(seqflags, "02b") + format(seqcount, "014b") + format((len(data) - 1) & 0xFFFF, "016b"))
    assert len(bits) == 48
    return int(bits, 2).to_bytes(6, "big") + data


def header_fields(packet: bytes):
    """Reference decode of a primary header -> 7-tuple (uses string slicing)."""
    bits = "".join(format(b, "08b") for b in packet[:6])
    cuts = [3, 1, 1, 11, 2, 14, 16]
    out, p = [], 0
    for c in cuts:
        out.append(int(bits[p:p + c], 2))
        p += c
    return tuple(out)


def ref_frame(stream: bytes, k: int):
    """Reference framing: returns (packets, consumed_bytes).  Only complete (prefix + packet) units."""
    out, pos = [], 0
    n = len(stream)
    while True:
        if n - pos < k + 6:
            break
        h = stream[pos + k:pos + k + 6]
        ln = 6 + int.from_bytes(h[4:6], "big") + 1
        if n - pos < k + ln:
            break
        out.append(stream[pos + k:pos + k + ln])
        pos += k + ln
    return out, pos


# --- palettes -------------------------------------------------------------------------------

def palette_packets():
    """Three small packets with distinct headers and contents; data lengths 1, 2, 5."""
    return [
        mk_packet(b"\xA1", apid=0x012, seqcount=1),
        mk_packet(b"\xB1\xB2", apid=0x7FF, seqcount=0x3FFF, version=7, type_=1, shflag=1, seqflags=0),
        mk_packet(b"\x00\x00\x00\x05\xC5", apid=0, seqcount=0, seqflags=1),  # data resembles a header tail
    ]


def foreign_prefix(k: int, idx: int) -> bytes:
    """k foreign bytes preceding packet #idx: values chosen to look like huge lengths if misread."""
    return bytes(((0xF0 + idx + j) & 0xFF) for j in range(k))


def build_stream(packets, k):
    return b"".join(foreign_prefix(k, i) + p for i, p in enumerate(packets))


def all_sequences(palette, max_len, min_len=0):
    for n in range(min_len, max_len + 1):
        for seq in itertools.product(range(len(palette)), repeat=n):
            yield seq


# --- AST threshold shrink -------------------------------------------------------------------

def load_packets_module_with_threshold(new_threshold: int):
    """Re-compile /repo's current packets.py with every integer literal 20_000_000 replaced.

    Returns (module, n_replaced).  The module is *not* registered in sys.modules; its __name__
    stays 'space_packet_parser.packets' so that frame inspection recognises its frames.
    """
    path = os.path.join(REPO_ROOT, "space_packet_parser", "packets.py")
    with open(path, encoding="utf-8") as f:
        src = f.read()
    tree = ast.parse(src, filename=path)
    count = 0

    class T(ast.NodeTransformer):
        def visit_Constant(self, node):
            nonlocal count
            if type(node.value) is int and node.value == 20_000_000:
                count += 1
                return ast.copy_location(ast.Constant(value=new_threshold), node)
            return node

    tree = T().visit(tree)
    ast.fix_missing_locations(tree)
    mod = types.ModuleType("space_packet_parser.packets")
    mod.__file__ = path
    mod.__package__ = "space_packet_parser"
    code = compile(tree, path, "exec")
    exec(code, mod.__dict__)  # noqa: S102 - the repository's own source
    if hasattr(mod, "time"):
        from mc.seams import CLOCK_STUB
        mod.time = CLOCK_STUB  # own the clock of this private copy as well
    return mod, count
