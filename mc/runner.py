"""./check <Cnn> [--tier quick|thorough] [--jobs N] [--replay FILE]

Exit 0: property held on everything explored (KNOWN-FINDING lines possible).
Exit 1: at least one `VIOLATION property=<id> replay=<path>` line was printed.
"""
from __future__ import annotations

import argparse
import importlib
import json
import os
import sys
import time

from mc import VERIF_ROOT
from mc.kernel import Tally, digest, jsonable

MAX_REPLAYS_PER_RUN = 12


class Ctx:
    def __init__(self, prop, tier, seed, jobs):
        self.prop = prop
        self.tier = tier
        self.seed = seed
        self.jobs = jobs
        self.quick = tier == "quick"
        self.work = os.path.join(VERIF_ROOT, ".work")
        os.makedirs(self.work, exist_ok=True)


def load_findings():
    path = os.path.join(VERIF_ROOT, "known_findings.json")
    if not os.path.exists(path):
        return []
    with open(path, encoding="utf-8") as f:
        return json.load(f)


def match_finding(prop, sig, findings):
    for f in findings:
        if f.get("property") != prop or f.get("status") != "known":
            continue
        want = f.get("signature", {})
        if want and all(sig.get(k) == v for k, v in want.items()):
            return f
    return None


OUT_ROOT = os.environ.get("VERIF_OUT") or VERIF_ROOT  # evaluation of seeded changes redirects evidence/replays elsewhere


def write_replay(prop, violation, mod):
    d = os.path.join(OUT_ROOT, "replays", prop)
    os.makedirs(d, exist_ok=True)
    name = digest(violation["case"]) + ".json"
    path = os.path.join(d, name)
    doc = {"property": prop, **violation}
    if violation.get("interpreter_flags"):
        name = digest([violation["case"], violation["interpreter_flags"]]) + ".json"
        path = os.path.join(d, name)
    repro = getattr(mod, "repro_py", None)
    if repro:
        try:
            doc["repro_py"] = repro(violation["case"])
        except Exception as e:  # noqa: BLE001
            doc["repro_py"] = f"# could not render stand-alone repro: {e!r}"
    with open(path, "w", encoding="utf-8") as f:
        json.dump(doc, f, indent=1, sort_keys=True)
    return path


def write_evidence(prop, tier, seed, level, coverage, assumptions, wall_s, n_viol):
    d = os.path.join(OUT_ROOT, "evidence")
    os.makedirs(d, exist_ok=True)
    ev = {
        "property_id": prop,
        "tier": tier,
        "seed": int(seed),
        "level": level,
        "coverage": jsonable(coverage),
        "assumptions": list(assumptions),
        "wall_s": round(wall_s, 3),
        "violations": int(n_viol),
    }
    tmp = os.path.join(d, f".{prop}.json.tmp")
    with open(tmp, "w", encoding="utf-8") as f:
        json.dump(ev, f, indent=1, sort_keys=True)
    os.replace(tmp, os.path.join(d, f"{prop}.json"))


# The second interpreter: the same check run by an interpreter started with other flags than the first (-O: assert statements are not compiled
# and __debug__ is false) and in another locale (C: ASCII is the preferred encoding), on every k-th partition of every fan-out for the
# expensive checks.  What the library does must not depend on either.
SECOND_FLAGS = ["-O"]
SECOND_SLICE = {"C01": 12, "C04": 16, "C05": 16, "C07": 12, "C08": 4, "C09": 8, "C15": 12, "C16": 12, "C17": 8, "C02": 3, "C10": 3, "C03": 3, "C12": 3, "C18": 2}


def start_second_interpreter(prop, tier, seed):
    import shutil
    import subprocess
    out = os.path.join(OUT_ROOT, ".work", f"second_interpreter_{prop}_{os.getpid()}")
    shutil.rmtree(out, ignore_errors=True)
    os.makedirs(out, exist_ok=True)
    # ... and in the C locale with UTF-8 mode off: open() without an encoding, the file system encoding and locale.getpreferredencoding() are ASCII
    # there (standard streams stay UTF-8 so that reports can be printed)
    env = dict(os.environ, LC_ALL="C", LANG="C", PYTHONUTF8="0", PYTHONCOERCECLOCALE="0", PYTHONIOENCODING="utf-8",
               VERIF_OUT=out, VERIF_SECOND=" ".join(SECOND_FLAGS), VERIF_SLICE=str(SECOND_SLICE.get(prop, 1) * (2 if tier == "thorough" else 1)),
               VERIF_SEED=str(seed), VERIF_JOBS="6")
    p = subprocess.Popen([sys.executable, *SECOND_FLAGS, "-X", "faulthandler", "-m", "mc.runner", prop, "--tier", tier], cwd=VERIF_ROOT, env=env,
                         stdout=subprocess.PIPE, stderr=subprocess.STDOUT, text=True)
    return p, out


def finish_second_interpreter(prop, p, out):
    """-> (summary for the evidence, [replay documents of the violations it reported])"""
    import shutil
    try:
        so, _ = p.communicate(timeout=7200)
    except Exception as e:  # noqa: BLE001
        p.kill()
        so = f"second interpreter did not finish: {e!r}"
    docs = []
    for line in so.splitlines():
        if line.startswith("VIOLATION ") and "replay=" in line:
            path = line.split("replay=", 1)[1].strip()
            try:
                with open(path, encoding="utf-8") as f:
                    d = json.load(f)
                d["interpreter_flags"] = SECOND_FLAGS
                if d not in docs:
                    docs.append(d)
            except Exception:  # noqa: BLE001
                pass
    ev = {}
    try:
        with open(os.path.join(out, "evidence", f"{prop}.json"), encoding="utf-8") as f:
            ev = json.load(f)
    except Exception:  # noqa: BLE001
        pass
    summary = {"flags": " ".join(SECOND_FLAGS), "locale": "C (LC_ALL=C, PYTHONUTF8=0, PYTHONCOERCECLOCALE=0)", "partitions": f"every {os.environ.get('VERIF_SLICE_SHOWN', '')}".strip(),
               "evaluations": ev.get("coverage", {}).get("evaluations"), "violations": ev.get("violations"), "exit_code": p.returncode}
    if p.returncode not in (0, 1) or (p.returncode == 1 and not docs):
        docs.append({"property": prop, "case": {"second_interpreter": True}, "sig": {"kind": "second-interpreter-run-failed", "exit": p.returncode},
                     "observed": so[-1500:], "interpreter_flags": SECOND_FLAGS})
    shutil.rmtree(out, ignore_errors=True)
    return summary, docs


def main(argv=None):
    import logging
    logging.disable(logging.CRITICAL)
    ap = argparse.ArgumentParser()
    ap.add_argument("prop")
    ap.add_argument("--tier", default=os.environ.get("VERIF_TIER") or "quick", choices=["quick", "thorough"])
    ap.add_argument("--jobs", type=int, default=0)
    ap.add_argument("--replay", default=None)
    args = ap.parse_args(argv)
    prop = args.prop.upper()
    try:
        seed = int(os.environ.get("VERIF_SEED", "0") or 0)
    except ValueError:
        seed = 0
    mod = importlib.import_module(f"mc.checks.{prop.lower()}")
    findings = load_findings()

    if args.replay:
        from mc import kernel
        kernel.MAX_PER_SIGNATURE = 10 ** 6  # replays re-run a family and pick the case: keep everything
        with open(args.replay, encoding="utf-8") as f:
            doc = json.load(f)
        if doc.get("interpreter_flags") and not sys.flags.optimize and "-O" in doc["interpreter_flags"]:
            # found by the second interpreter: replay it there
            os.execv(sys.executable, [sys.executable, *doc["interpreter_flags"], "-X", "faulthandler", "-m", "mc.runner", prop, "--replay", args.replay])
        if doc.get("case", {}).get("second_interpreter"):
            print(json.dumps(doc, indent=1)[:3000])
            print(f"VIOLATION property={prop} replay={args.replay}")
            return 1
        v = mod.replay(doc["case"])
        if v is None:
            print(f"replay: property={prop} case holds on the current tree")
            return 0
        kf = match_finding(prop, v.get("sig", {}), findings)
        if kf:
            print(f"KNOWN-FINDING: property={prop} {kf['id']}: {kf['what']}")
            return 0
        print(json.dumps(jsonable(v), indent=1)[:4000])
        print(f"VIOLATION property={prop} replay={args.replay}")
        return 1

    ctx = Ctx(prop, args.tier, seed, args.jobs or None)
    t0 = time.time()
    second = None
    if not os.environ.get("VERIF_SECOND") and not os.environ.get("VERIF_NO_SECOND"):
        second = start_second_interpreter(prop, args.tier, seed)
    try:
        res = mod.run(ctx)  # -> dict(level, tally: Tally, coverage: dict, assumptions: list)
    except BaseException as e:  # noqa: BLE001 - a broken implementation must not break the checker silently
        import traceback
        tb = traceback.format_exc()
        tally = Tally()
        tally.evals = 1
        tally.nontrivial = 2
        tally.violation({"kind": "check-crashed", "exc": type(e).__name__}, {"traceback_tail": tb[-1500:]}, observed=repr(e)[:300],
                        note="the check itself raised; with the library under test behaving in an unexpected way this counts as a violation")
        tally.sample({"crash": repr(e)[:200]})
        res = {"level": "exploration", "tally": tally, "coverage": {"rule": "check crashed before completing", "exhaustive": False}, "assumptions": []}
    wall = time.time() - t0
    tally: Tally = res["tally"]

    new, known = [], {}
    for v in tally.violations:
        kf = match_finding(prop, v.get("sig", {}), findings)
        n = tally.sig_counts.get(json.dumps(v.get("sig", {}), sort_keys=True), 1)
        if kf:
            ent = known.setdefault(kf["id"], [kf, 0, set()])
            key = json.dumps(v.get("sig", {}), sort_keys=True)
            if key not in ent[2]:
                ent[2].add(key)
                ent[1] += n
        else:
            new.append(v)
    unmatched_overflow = 0

    coverage = dict(res["coverage"])
    coverage.setdefault("evaluations", tally.evals)
    coverage.setdefault("distinct_nontrivial", tally.nontrivial)
    coverage.setdefault("samples", tally.samples[:6])
    coverage.setdefault("outcome_classes", dict(sorted(tally.outcomes.items())))
    coverage.setdefault("distinct_outcome_classes", len(tally.outcomes))
    if tally.extra:
        coverage.setdefault("counters", dict(sorted(tally.extra.items())))
    if tally.caps:
        coverage["caps_hit"] = tally.caps
        coverage["exhaustive"] = False
    if tally.notes:
        coverage["notes"] = tally.notes
    coverage["known_findings_seen"] = {k: e[1] for k, e in known.items()}
    second_docs = []
    if second is not None:
        summary, second_docs = finish_second_interpreter(prop, *second)
        k = SECOND_SLICE.get(prop, 1) * (2 if args.tier == "thorough" else 1)
        summary["partitions"] = "all" if k == 1 else f"1 in {k} partitions of every fan-out"
        coverage["second_interpreter"] = summary
        wall = time.time() - t0
    for d in second_docs:
        new.append({"sig": {**d.get("sig", {}), "interpreter": " ".join(SECOND_FLAGS)}, "case": d.get("case", {}), "observed": d.get("observed"),
                    "expected": d.get("expected"), "note": (d.get("note") or "") + " [reported by the second interpreter, python " + " ".join(SECOND_FLAGS) + "]",
                    "interpreter_flags": SECOND_FLAGS})
    write_evidence(prop, args.tier, seed, res["level"], coverage, res.get("assumptions", []), wall,
                   len(new) + (unmatched_overflow if new else 0))

    print(f"[{prop}] tier={args.tier} seed={seed} wall={wall:.1f}s evaluations={coverage['evaluations']} "
          f"distinct_nontrivial={coverage['distinct_nontrivial']} "
          f"states={coverage.get('states', '-')} transitions={coverage.get('transitions', '-')} "
          f"outcome_classes={len(tally.outcomes)} exhaustive={coverage.get('exhaustive')}"
          + (f" second_interpreter({coverage['second_interpreter']['flags']})_evaluations={coverage['second_interpreter']['evaluations']}" if "second_interpreter" in coverage else ""))
    for k, (kf, n, _) in sorted(known.items()):
        print(f"KNOWN-FINDING: property={prop} {kf['id']}: {kf['what']} ({n} cases this run)")
    if not new:
        return 0
    # group by signature so one root cause does not flood the output
    seen_sigs = {}
    for v in new:
        key = json.dumps(v.get("sig", {}), sort_keys=True)
        seen_sigs.setdefault(key, []).append(v)
    written = 0
    for key in list(seen_sigs)[:80]:
        print(f"  class {tally.sig_counts.get(key, 0):>7} x {key[:300]}")
    for key, vs in seen_sigs.items():
        for v in vs[:2]:
            if written >= MAX_REPLAYS_PER_RUN:
                break
            path = write_replay(prop, v, mod)
            written += 1
            print(f"  signature={key} ({tally.sig_counts.get(key, len(vs))} cases) note={v.get('note', '')[:200]}")
            print(f"VIOLATION property={prop} replay={path}")
    print(f"[{prop}] {tally.n_violations} violating cases in {len(seen_sigs)} signature classes")
    return 1


if __name__ == "__main__":
    sys.exit(main())
