"""Independent structural canonical form of library objects, and a package state footprint.

Generic over instance attributes (public names only), so it needs no per-class knowledge:
numbers become rationals (10 == 10.0), callables (length adjustments) are probed at fixed points,
mappings are sorted, "" == None for descriptions/units, inheritor lists are sorted.
"""
from __future__ import annotations

import math
import sys
import types
from fractions import Fraction

PROBE_POINTS = (-1, 0, 1, 2, 7)
EMPTY_IS_NONE = {"short_description", "long_description", "unit"}
NONE_IS_EMPTY_LIST = {"context_calibrators", "restriction_criteria", "inheritors"}
SORTED_LISTS = {"inheritors"}


def _num(x):
    if isinstance(x, bool):
        return x
    if isinstance(x, int):
        return ("n", Fraction(x))
    if isinstance(x, float):
        if math.isnan(x):
            return ("n", "nan")
        if math.isinf(x):
            return ("n", "inf" if x > 0 else "-inf")
        if x == 0 and math.copysign(1.0, x) < 0:
            return ("n", Fraction(0), "negative zero")
        return ("n", Fraction(x))
    return x


def probe(fn):
    out = []
    for x in PROBE_POINTS:
        try:
            out.append(_num(fn(x)))
        except Exception as e:  # noqa: BLE001
            out.append(("raises", type(e).__name__))
    return ("callable", tuple(out))


def is_lib(obj):
    return type(obj).__module__.startswith("space_packet_parser")


def canon(obj, _depth=0, _attr=None, shallow_names=False):
    if _depth > 40:
        return "<deep>"
    if obj is None or isinstance(obj, (str, bytes)):
        if _attr in EMPTY_IS_NONE and obj == "":
            return None
        if _attr in NONE_IS_EMPTY_LIST and obj is None:
            return ()
        return obj
    if type(obj).__module__ == "numpy" and hasattr(obj, "item"):
        obj = obj.item()   # a numpy scalar the caller handed over stands for the plain value
    if _attr == "right_value" and isinstance(obj, (int, float)) and not isinstance(obj, bool):
        return repr(obj)   # the fixed value of a Condition given as a number stands for its text form (what the XML holds)
    if isinstance(obj, (bool, int, float)):
        return _num(obj)
    if isinstance(obj, dict):
        items = [(canon(k, _depth + 1), canon(v, _depth + 1)) for k, v in obj.items()]
        return ("dict", tuple(sorted(items, key=repr)))
    if isinstance(obj, tuple) and hasattr(obj, "_fields"):  # namedtuple
        return (type(obj).__name__, tuple((f, canon(getattr(obj, f), _depth + 1)) for f in obj._fields))
    if isinstance(obj, (list, tuple)):
        seq = [canon(v, _depth + 1) for v in obj]
        if _attr in SORTED_LISTS:
            seq = sorted(seq, key=repr)
        return tuple(seq)
    if isinstance(obj, (set, frozenset)):
        return ("set", tuple(sorted((canon(v, _depth + 1) for v in obj), key=repr)))
    if callable(obj) and not is_lib(obj):
        return probe(obj)
    if is_lib(obj) or hasattr(obj, "__dict__"):
        attrs = []
        for k, v in sorted(vars(obj).items()):
            if k.startswith("_"):
                continue
            if callable(v) and not is_lib(v):
                if k == "parse_func":
                    continue  # derived from size/encoding/byte order, which are compared
                attrs.append((k, probe(v)))
            else:
                attrs.append((k, canon(v, _depth + 1, k)))
        return (type(obj).__name__, tuple(attrs))
    return ("obj", type(obj).__name__)


def canon_definition(defn, with_ns=False):
    """Canonical form of an XtcePacketDefinition: the three name-keyed maps plus root name (and optionally ns)."""
    out = [
        ("parameter_types", tuple(sorted(((k, canon(v)) for k, v in defn.parameter_types.items()), key=lambda kv: kv[0]))),
        ("parameters", tuple(sorted(((k, canon(v)) for k, v in defn.parameters.items()), key=lambda kv: kv[0]))),
        ("containers", tuple(sorted(((k, canon(v)) for k, v in defn.containers.items()), key=lambda kv: kv[0]))),
        ("container_order", tuple(defn.containers.keys())) if False else ("container_names", tuple(sorted(defn.containers.keys()))),
    ]
    if with_ns:
        out.append(("ns", canon(dict(defn.ns) if defn.ns else {})))
        out.append(("prefix", defn.xtce_ns_prefix))
    return tuple(out)


def diff_canon(a, b, path="", out=None, limit=6):
    """Human-readable first differences between two canonical forms."""
    if out is None:
        out = []
    if len(out) >= limit:
        return out
    if a == b:
        return out
    if isinstance(a, tuple) and isinstance(b, tuple) and len(a) == len(b) and a and all(isinstance(x, tuple) for x in a):
        for i, (x, y) in enumerate(zip(a, b)):
            label = x[0] if isinstance(x, tuple) and x and isinstance(x[0], str) else str(i)
            diff_canon(x, y, f"{path}/{label}", out, limit)
        return out
    if isinstance(a, tuple) and isinstance(b, tuple) and len(a) == len(b):
        for i, (x, y) in enumerate(zip(a, b)):
            diff_canon(x, y, f"{path}[{i}]", out, limit)
        return out
    out.append(f"{path}: {str(a)[:120]} != {str(b)[:120]}")
    return out


# ----------------------------------------------------------------------------- package state footprint
def _summ_state(v, depth=0, seen=None):
    if seen is None:
        seen = set()
    if depth > 6:
        return "<deep>"
    if v is None or isinstance(v, (bool, int, float, str, bytes)):
        return repr(v)
    if isinstance(v, (types.FunctionType, types.BuiltinFunctionType, types.MethodType, type, types.ModuleType, classmethod,
                      staticmethod, property)):
        return f"<{type(v).__name__} {getattr(v, '__qualname__', getattr(v, '__name__', ''))}>"
    if id(v) in seen:
        return "<cycle>"
    seen = seen | {id(v)}
    if isinstance(v, dict):
        return "{" + ",".join(sorted(f"{_summ_state(k, depth + 1, seen)}:{_summ_state(x, depth + 1, seen)}" for k, x in list(v.items())[:2000])) + "}"
    if isinstance(v, (list, tuple, set, frozenset)):
        items = [_summ_state(x, depth + 1, seen) for x in list(v)[:2000]]
        if isinstance(v, (set, frozenset)):
            items.sort()
        return f"{type(v).__name__}[" + ",".join(items) + "]"
    if type(v).__module__.startswith("space_packet_parser") and hasattr(v, "__dict__"):
        return f"<{type(v).__name__} " + _summ_state(vars(v), depth + 1, seen) + ">"
    return f"<{type(v).__module__}.{type(v).__name__}>"


def package_footprint():
    """{qualified attribute: summary} for every module-level and class-level data attribute of the package."""
    fp = {}
    for mname, mod in sorted(sys.modules.items()):
        if mod is None or not (mname == "space_packet_parser" or mname.startswith("space_packet_parser.")):
            continue
        for k, v in list(vars(mod).items()):
            if k.startswith("__"):
                continue
            if isinstance(v, type) and v.__module__ == mname:
                for ck, cv in list(vars(v).items()):
                    if ck.startswith("__") or callable(cv) or isinstance(cv, (classmethod, staticmethod, property, types.MemberDescriptorType,
                                                                              types.GetSetDescriptorType)):
                        continue
                    fp[f"{mname}.{k}.{ck}"] = _summ_state(cv)
            elif not callable(v) and not isinstance(v, types.ModuleType):
                fp[f"{mname}.{k}"] = _summ_state(v)
    return fp


def footprint_changes(before, after):
    keys = set(before) | set(after)
    return sorted(k for k in keys if before.get(k) != after.get(k))
